"""E4 -- loop progress templates.  classify_while(loop, f, model, cg) -> (template, ok, why)

A `while` loop on a decode path must match one template and satisfy its structural
obligation; everything else is 'UNCLASSIFIED'."""
import ast

from .model import walk_no_nested, Model
from . import flow, sem


def _top(body):
    """Top-level statements of a loop body (not nested in if/for/try)."""
    return list(body)


def _is_pos_const(n):
    return isinstance(n, ast.Constant) and isinstance(n.value, int) and not isinstance(n.value, bool) and n.value >= 1


def _has_continue(body):
    for s in body:
        for n in [s] + list(walk_no_nested(s)):
            if isinstance(n, ast.Continue):
                # a continue inside a nested loop belongs to that loop
                p = n
                inner = False
                while p is not None and p is not s:
                    p = getattr(p, '_parent', None)
                    if isinstance(p, (ast.For, ast.While)) and p is not s:
                        inner = True
                if isinstance(s, (ast.For, ast.While)):
                    inner = True
                if not inner:
                    return True
    return False


def _assigned_names(body):
    out = {}
    for s in body:
        for n in [s] + list(walk_no_nested(s)):
            if isinstance(n, ast.Assign):
                for t in n.targets:
                    for nm in flow.target_names(t):
                        out.setdefault(nm, []).append(n)
            elif isinstance(n, ast.AugAssign) and isinstance(n.target, ast.Name):
                out.setdefault(n.target.id, []).append(n)
            elif isinstance(n, (ast.For,)):
                for nm in flow.target_names(n.target):
                    out.setdefault(nm, []).append(n)
    return out


def _monotone_down(aug):
    """v -= k / v >>= k / v //= k  (k positive constant; //: k >= 2)"""
    if not isinstance(aug, ast.AugAssign):
        return False
    if isinstance(aug.op, (ast.Sub, ast.RShift)) and _is_pos_const(aug.value):
        return True
    if isinstance(aug.op, ast.FloorDiv) and _is_pos_const(aug.value) and aug.value.value >= 2:
        return True
    return False


def _monotone_up(aug):
    if not isinstance(aug, ast.AugAssign):
        return False
    if isinstance(aug.op, ast.Add) and _is_pos_const(aug.value):
        return True
    if isinstance(aug.op, ast.LShift) and _is_pos_const(aug.value):
        return True
    if isinstance(aug.op, ast.Mult) and _is_pos_const(aug.value) and aug.value.value >= 2:
        return True
    return False


def _returns_offset_plus(g, model):
    """Every return of g returns a tuple whose last element is <param> + k (k>=1) or a
    <param> that was only ever increased, and g increases that param only by `+= const`."""
    params = set(flow.param_names(g))
    rets = [n for n in walk_no_nested(g) if isinstance(n, ast.Return)]
    if not rets:
        return False
    for r in rets:
        v = r.value
        if isinstance(v, ast.Tuple):
            v = v.elts[-1]
        if isinstance(v, ast.BinOp) and isinstance(v.op, ast.Add) and isinstance(v.left, ast.Name) \
                and v.left.id in params and _is_pos_const(v.right):
            p = v.left.id
        else:
            return False
        for n in walk_no_nested(g):
            if isinstance(n, ast.Assign) and p in [x for t in n.targets for x in flow.target_names(t)]:
                return False
            if isinstance(n, ast.AugAssign) and isinstance(n.target, ast.Name) and n.target.id == p and not _monotone_up(n):
                return False
    return True


def decode_aliases(f):
    """Local names bound to a bound method  <expr>.decode  in f."""
    out = set()
    for a in walk_no_nested(f):
        if isinstance(a, ast.Assign) and isinstance(a.value, ast.Attribute) and a.value.attr == 'decode':
            for t in a.targets:
                out.update(flow.target_names(t))
    return out


def is_type_decode_call(n, aliases=()):
    """X.decode(data, offset[, ..]) -- a BER/DER type-level decode (>= 2 arguments, the first
    not a string constant) -- or a call through a local alias of such a bound method."""
    if not isinstance(n, ast.Call):
        return False
    nargs = len(n.args) + len([k for k in n.keywords if k.arg in ('offset',)])
    if nargs < 2 or (n.args and isinstance(n.args[0], ast.Constant)):
        return False
    if isinstance(n.func, ast.Attribute) and n.func.attr == 'decode':
        return True
    if isinstance(n.func, ast.Name) and n.func.id in aliases:
        return True
    return False


def classify_while(loop, f, model, cg, sentinel_ok=None):
    """sentinel_ok(call) -> bool : does that type-level decode call satisfy C08.R1?"""
    test = loop.test
    body = loop.body
    top = _top(body)
    assigned = _assigned_names(body)
    is_true = isinstance(test, ast.Constant) and test.value is True

    # ---------------- T-COUNT
    if isinstance(test, ast.Compare) and len(test.ops) == 1 and isinstance(test.ops[0], (ast.Gt, ast.GtE, ast.Lt, ast.LtE, ast.NotEq)):
        l, r = test.left, test.comparators[0]
        op = test.ops[0]
        if isinstance(op, (ast.Lt, ast.LtE)):
            l, r = r, l     # normalise to  big > small
        # len(v) > 0 with v.pop()
        if isinstance(l, ast.Call) and isinstance(l.func, ast.Name) and l.func.id == 'len' and isinstance(l.args[0], ast.Name) \
                and isinstance(r, ast.Constant):
            v = l.args[0].id
            pops = [s for s in top if isinstance(s, (ast.Assign, ast.Expr)) and isinstance(s.value, ast.Call)
                    and isinstance(s.value.func, ast.Attribute) and s.value.func.attr == 'pop'
                    and isinstance(s.value.func.value, ast.Name) and s.value.func.value.id == v]
            grows = [n for s in body for n in [s] + list(walk_no_nested(s)) if isinstance(n, ast.Call) and isinstance(n.func, ast.Attribute)
                     and n.func.attr in ('append', 'extend', 'insert') and isinstance(n.func.value, ast.Name) and n.func.value.id == v]
            if pops and not grows and v not in assigned and not _has_continue(body):
                return 'T-COUNT', True, 'len(%s) shrinks by pop() every iteration' % v
        # <subscript test handled below>
        if isinstance(l, ast.Name) and not isinstance(op, ast.NotEq):
            v = l.id
            ups = assigned.get(v, [])
            top_down = [s for s in top if _monotone_down(s) and isinstance(s.target, ast.Name) and s.target.id == v]
            if top_down and all(_monotone_down(s) for s in ups) and not _has_continue(body):
                # bound must not move away
                if isinstance(r, ast.Constant) or (isinstance(r, ast.Name) and r.id not in assigned):
                    return 'T-COUNT', True, '%s decreases by a positive constant step every iteration' % v
        if isinstance(r, ast.Name) and not isinstance(op, ast.NotEq):
            v = r.id
            ups = assigned.get(v, [])
            top_up = [s for s in top if _monotone_up(s) and isinstance(s.target, ast.Name) and s.target.id == v]
            big_fixed = isinstance(l, ast.Constant) or (isinstance(l, ast.Name) and l.id not in assigned)
            if top_up and all(_monotone_up(s) for s in ups) and big_fixed and not _has_continue(body):
                # shifts/multiplications need a positive start: find `v = <positive const>` before the loop
                need_pos = any(isinstance(s.op, (ast.LShift, ast.Mult)) for s in top_up)
                if need_pos:
                    init = [a for a in walk_no_nested(f) if isinstance(a, ast.Assign) and v in [x for t in a.targets for x in flow.target_names(t)]
                            and a.lineno < loop.lineno]
                    if not (init and all(_is_pos_const(a.value) for a in init)):
                        return 'T-COUNT', False, '%s is scaled but not initialised to a positive constant' % v
                # T-BOUND flavour handled below when v is re-bound from a callee
                return 'T-COUNT', True, '%s increases by a positive constant step towards a fixed bound' % v

    # ---------------- T-IDX   while data[offset] & c:  offset += k
    idx = None
    t = test
    if isinstance(t, ast.BinOp) and isinstance(t.op, ast.BitAnd):
        t = t.left
    if isinstance(t, ast.Name) and t.id in assigned:
        # the tested octet is kept in a local that every iteration re-reads from buf[idx]:
        #     byte = data[offset] ; while byte & 0x80: ... offset += 1 ; byte = data[offset]
        loads = [a for a in assigned[t.id] if isinstance(a, ast.Assign)]
        if loads and len(loads) == len(assigned[t.id]) and all(a in top and isinstance(a.value, ast.Subscript) for a in loads) \
                and len({ast.unparse(a.value) for a in loads}) == 1:
            sub = loads[0].value
            if isinstance(sub.slice, ast.Name) and isinstance(sub.value, ast.Name):
                adv = [s for s in top if isinstance(s, ast.AugAssign) and isinstance(s.op, ast.Add) and _is_pos_const(s.value)
                       and isinstance(s.target, ast.Name) and s.target.id == sub.slice.id]
                # the index is advanced before the re-read
                if adv and top.index(adv[-1]) < top.index(loads[-1]):
                    t = sub
    if isinstance(t, ast.Subscript) and isinstance(t.slice, ast.Name) and isinstance(t.value, ast.Name):
        idx = t.slice.id
        buf = t.value.id
        ups = assigned.get(idx, [])
        top_up = [s for s in top if isinstance(s, ast.AugAssign) and isinstance(s.op, ast.Add) and _is_pos_const(s.value)
                  and isinstance(s.target, ast.Name) and s.target.id == idx]
        if top_up and all(s in top_up for s in ups) and buf not in assigned and not _has_continue(body):
            return 'T-IDX', True, 'index %s advances by a positive constant; ends at the end of the finite buffer (IndexError)' % idx
        return 'T-IDX', False, 'index %s is not advanced by a positive constant on every iteration' % idx

    # ---------------- T-BOUND   while offset < end:  x, offset = g(data, offset)
    tb_left, tb_bound = None, None
    if isinstance(test, ast.Compare) and len(test.ops) == 1:
        if isinstance(test.ops[0], (ast.Lt, ast.LtE)) and isinstance(test.left, ast.Name):
            tb_left, tb_bound = test.left, test.comparators[0]
        elif isinstance(test.ops[0], (ast.Gt, ast.GtE)) and isinstance(test.comparators[0], ast.Name):
            tb_left, tb_bound = test.comparators[0], test.left
    tlv_aliases = decode_aliases(f)
    if tb_left is not None and not any(isinstance(s, ast.Assign) and is_type_decode_call(s.value, tlv_aliases) for s in top):
        v = tb_left.id
        bound = tb_bound
        bound_fixed = isinstance(bound, ast.Constant) or (isinstance(bound, ast.Name) and bound.id not in assigned)
        rebinds = [s for s in top if isinstance(s, ast.Assign) and v in [x for tg in s.targets for x in flow.target_names(tg)]]
        if rebinds and bound_fixed and len(assigned.get(v, [])) == len(rebinds) and not _has_continue(body):
            ok = True
            why = ''
            unresolved = False
            for s in rebinds:
                if isinstance(s.value, ast.Call):
                    tg = cg.resolve_call(f, s.value)
                    passes = any(isinstance(a, ast.Name) and a.id == v for a in s.value.args)
                    if not tg:
                        unresolved = True
                    if not (tg and passes and all(_returns_offset_plus(g, model) for g in tg)):
                        ok = False
                        why = 'callee %s does not return its offset argument increased by >= 1 on every path' % ast.unparse(s.value.func)
                else:
                    ok = False
                    why = '%s re-bound from a non-call' % v
            if ok:
                return 'T-BOUND', True, '%s is re-bound from a callee that returns offset + k, k >= 1' % v
            if not unresolved:
                return 'T-BOUND', False, why

    # ---------------- T-TLV: element decode in the loop body with checked sentinel
    aliases = decode_aliases(f)
    dec_calls = [n for s in top for n in [s] + list(walk_no_nested(s)) if is_type_decode_call(n, aliases)]
    top_dec = [s for s in top if isinstance(s, ast.Assign) and isinstance(s.value, ast.Call) and s.value in dec_calls]
    fors = [s for s in top if isinstance(s, ast.For)]
    if top_dec and not fors:
        call = top_dec[0].value
        tg = top_dec[0].targets[0]
        adv = isinstance(tg, ast.Tuple) and len(tg.elts) == 2 and isinstance(tg.elts[1], ast.Name) \
            and any(isinstance(a, ast.Name) and a.id == tg.elts[1].id for a in call.args)
        has_exit = (not is_true) or any(isinstance(n, (ast.Break, ast.Return)) for s in body for n in [s] + list(walk_no_nested(s)))
        if not adv:
            return 'T-TLV', False, 'the offset returned by the element decode is not fed back'
        if not has_exit:
            return 'T-TLV', False, 'no end-of-data exit'
        if sentinel_ok is not None and not sentinel_ok(call):
            return 'T-TLV', False, ('the element decode result is not checked against TAG_MISMATCH: a mismatching element '
                                    'returns the sentinel without advancing and the loop never progresses')
        return 'T-TLV', True, 'each iteration consumes a whole TLV or raises'

    # ---------------- T-RETRY  (decode_members)
    if is_true and fors:
        flags = [s for s in top if isinstance(s, ast.Assign) and isinstance(s.value, ast.Constant) and s.value.value is False
                 and isinstance(s.targets[0], ast.Name)]
        for fl in flags:
            flag = fl.targets[0].id
            # `if not flag: break`, also as one disjunct of a merged exit test (`if out_of_data or not flag: break`)
            exits = [s for s in top if isinstance(s, ast.If) and any(isinstance(b, (ast.Break, ast.Return)) for b in s.body)
                     and any(len(cj) == 1 and cj[0][:2] == (flag, False) for cj in sem.dnf(sem.cond_formula(s.test)))]
            sets = [a for a in assigned.get(flag, []) if a is not fl]
            if not exits:
                # the retry structure is there (a progress flag reset every round and set on success) but no round ends the
                # loop when nothing was decoded
                if sets and all(isinstance(a, ast.Assign) and isinstance(a.value, ast.Constant) and a.value.value is True for a in sets) \
                        and not any(isinstance(n, ast.Name) and n.id == flag and isinstance(n.ctx, ast.Load) for s in body for n in ast.walk(s)):
                    return 'T-RETRY', False, 'the loop is not left when a whole pass decoded nothing (progress flag %s is never tested)' % flag
                continue
            good = bool(sets)
            und = None
            for a in sets:
                if not (isinstance(a, ast.Assign) and isinstance(a.value, ast.Constant) and a.value.value is True):
                    good = False
                    break
                # must sit in the orelse of `if v == TAG_MISMATCH` whose body appends to a list
                par = getattr(a, '_parent', None)
                # (either way round: `if v == TAG_MISMATCH: append else: flag = True`, `if v != TAG_MISMATCH` / `if not v == TAG_MISMATCH: flag = True else: append`)
                fm = sem.cond_formula(par.test) if isinstance(par, ast.If) else None
                if not (fm is not None and fm[0] == 'lit' and 'TAG_MISMATCH' in fm[1] and ('==' in fm[1] or ' is ' in fm[1])):
                    good = False
                    break
                mismatch_arm, success_arm = (par.body, par.orelse) if fm[2] else (par.orelse, par.body)
                if a not in success_arm:
                    good = False
                    break
                apps = [c for s in mismatch_arm for c in [s] + list(walk_no_nested(s)) if isinstance(c, ast.Call)
                        and isinstance(c.func, ast.Attribute) and c.func.attr == 'append' and isinstance(c.func.value, ast.Name)]
                if not apps:
                    good = False
                    break
                und = apps[0].func.value.id
            if not good:
                return 'T-RETRY', False, 'progress flag %s is not set exclusively next to a successful element decode' % flag
            # the iterated list is re-bound to the list of failures, which starts empty each round
            it = fors[0].iter
            init_empty = any(isinstance(s, ast.Assign) and isinstance(s.value, ast.List) and not s.value.elts
                             and isinstance(s.targets[0], ast.Name) and s.targets[0].id == und for s in top)
            rebound = any(isinstance(s, ast.Assign) and isinstance(s.value, ast.Name) and s.value.id == und
                          and isinstance(s.targets[0], ast.Name) and isinstance(it, ast.Name) and s.targets[0].id == it.id for s in top)
            if init_empty and rebound:
                return 'T-RETRY', True, 'retry only while a member decoded; the retry list shrinks strictly'
            return 'T-RETRY', False, 'the retry list is not the (fresh) list of members that failed'

    # ---------------- T-READ: while True with an unconditional consuming read before break
    if is_true:
        reads = []
        for s in top:
            if isinstance(s, (ast.If, ast.For, ast.While, ast.Try)):
                break
            for n in [s] + list(walk_no_nested(s)):
                if isinstance(n, ast.Call) and isinstance(n.func, ast.Attribute) and n.func.attr.startswith('read_') \
                        and isinstance(n.func.value, ast.Name) and n.func.value.id in ('self', 'decoder'):
                    reads.append(n)
        brk = any(isinstance(n, (ast.Break, ast.Return, ast.Raise)) for s in body for n in [s] + list(walk_no_nested(s)))      # leaving the function leaves the loop
        if reads and brk and not _has_continue(body):
            return 'T-READ', True, 'every iteration performs the guarded consuming read %s before the exit test' % ast.unparse(reads[0].func)
        if reads and not brk:
            return 'T-READ', False, 'no exit from the loop'

    return 'UNCLASSIFIED', False, 'loop matches no progress template'
