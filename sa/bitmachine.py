"""E1c -- bounded evaluation of the Encoder/Decoder primitives over their path summaries.

The derived primitives of a codec's Encoder and Decoder classes (length determinant, constrained whole number,
normally small numbers, ...) are summarised by sa/sem.py with every call on the stream object turned into a
symbol (an *effect*).  This module evaluates such a summary for concrete arguments with the checker's own
expression evaluator: effects on the base vocabulary (append/read of a field of w bits, of one bit, of octets,
alignment) act on a bit string kept here; effects that are themselves derived primitives are evaluated
recursively; the path whose condition literals all hold is the one taken.  Nothing of the repository is
imported, compiled or called: the bit-level meaning of the base vocabulary is the trusted model below."""
import ast

from .model import AnalysisError
from . import sem, evalexpr


class Undecided(Exception):
    pass


class Misfit(Undecided):
    """a base operation was handed arguments outside its contract (a value that does not fit the field width): the caller of the
    primitive, not the evaluation, is at fault -- rules that evaluate a derived primitive on valid arguments report it"""


class Raised(Exception):
    def __init__(self, name):
        Exception.__init__(self, name)
        self.name = name


BASE_ENC = ('append_non_negative_binary_integer', 'append_bit', 'append_bits', 'append_bytes', 'append_u8', 'align', 'align_always')
BASE_DEC = ('read_non_negative_binary_integer', 'read_bit', 'read_bits', 'read_bytes', 'read_byte', 'align', 'align_always', 'skip_bits')


def is_self_call(call):
    return isinstance(call.func, ast.Attribute) and isinstance(call.func.value, ast.Name) and call.func.value.id == 'self'


def module_funcs(f):
    """resolver for the evaluator: module-level functions of f's module (decision-table helpers such as
    integer_as_number_of_bits) by name"""
    def resolve(name):
        r = f._mod.resolve_name(name)
        return r if isinstance(r, ast.FunctionDef) else None
    return resolve


class Machine(object):

    def __init__(self, model, cls, side, align_noop=False, max_depth=4):
        self.model, self.cls, self.side = model, cls, side
        self.align_noop = align_noop
        self.max_depth = max_depth
        self._preds = {}

    def pred(self, stream):
        """effects of a function whose stream object is the name `stream` ('self' inside the Encoder/Decoder class)"""
        if stream not in self._preds:
            def eff(node, stream=stream):
                if isinstance(node, ast.Call):
                    if stream != 'self' and any(isinstance(a, ast.Name) and a.id == stream for a in node.args) \
                            and (isinstance(node.func, ast.Name) or is_self_call(node)):
                        return True      # a helper that is handed the stream: f(.., stream) / self.m(.., stream)
                    return isinstance(node.func, ast.Attribute) and isinstance(node.func.value, ast.Name) and node.func.value.id == stream \
                        and self.cls.find_method(node.func.attr) is not None and (stream != 'self' or node.func.attr.startswith(('append_', 'read_', 'align', 'skip_', 'peek_', 'clear_', 'set_')))
                if isinstance(node, ast.Attribute):
                    return isinstance(node.value, ast.Name) and node.value.id == stream and node.attr == 'number_of_bits' and stream != 'self'
                return False
            self._preds[stream] = eff
        return self._preds[stream]

    # ---- name resolution for the evaluator: module-level literal constants
    def env_with_consts(self, env, f):
        class E(dict):
            def __init__(s, d):
                dict.__init__(s, d)

            def __contains__(s, k):
                if dict.__contains__(s, k):
                    return True
                return s._const(k) is not None

            def __getitem__(s, k):
                if dict.__contains__(s, k):
                    return dict.__getitem__(s, k)
                v = s._const(k)
                if v is None:
                    raise KeyError(k)
                return v[0]

            def _const(s, k):
                if not isinstance(k, str) or not k.isidentifier():
                    return None
                r = f._mod.resolve_name(k)
                if isinstance(r, tuple) and r[0] == 'const':
                    try:
                        return (evalexpr.ev(r[1], {}),)
                    except Exception:
                        return None
                return None
        return E(env)

    def run(self, method, args, bits='', pos=0, depth=0):
        """Evaluate <stream>.<method>(*args) of the Encoder/Decoder class.
        encoder side: -> (bit string after the call, returned value)
        decoder side: -> (returned value, position after the call)"""
        r = self.cls.find_method(method)
        if r is None:
            raise Undecided('no method %s' % method)
        return self.run_fn(r[1], 'self', args, {}, bits, pos, depth)

    def run_fn(self, f, stream, args, config, bits='', pos=0, depth=0):
        """Evaluate function f whose stream object is the parameter / name `stream`.  args: values of the positional
        parameters after self (the stream parameter's slot is ignored); config: bindings by source text for what the function
        reads from its own object (e.g. {'self.data_to_value[ARG0]': 5})."""
        method = f.name
        if depth > self.max_depth:
            raise Undecided('call depth')
        ps = sem.paths(f, positional=True, effects=self.pred(stream))
        if ps is None:
            raise Undecided('%s: too many paths' % method)
        nparams = len(f.args.args) - (1 if f.args.args and f.args.args[0].arg in ('self', 'cls') else 0)
        if len(args) != nparams:
            raise Undecided('%s: arity' % method)
        undecided = None
        for p in ps:
            if p.outcome[0] in ('break', 'continue'):
                continue
            env = {'ARG%d' % i: a for i, a in enumerate(args)}
            env.update(config)
            env['__funcs__'] = module_funcs(f)
            env = self.env_with_consts(env, f)
            b, q = bits, pos
            try:
                if sem.consistent(p, env, evalexpr.ev) is False:
                    continue
                for ev_ in p.events:
                    if ev_[0].startswith('in-loop:') and ev_[0].endswith('effect'):
                        raise Undecided('%s: stream access inside a loop' % method)
                    if ev_[0] == 'loop':
                        raise Undecided('%s: loop' % method)
                    if ev_[0] != 'effect':
                        continue
                    sym, node, sx = ev_[1], ev_[2], ev_[3]
                    if isinstance(node, ast.Attribute):
                        val = len(b) if self.side == 'enc' else len(b) - q
                    elif stream != 'self' and any(isinstance(a, ast.Name) and a.id == stream for a in node.args):
                        # a helper handed the stream: evaluated in place on the same bit string
                        if isinstance(node.func, ast.Name):
                            g = module_funcs(f)(node.func.id)
                            gconfig = {}
                        else:
                            owner = config.get('__cls__') or getattr(f, '_cls', None)        # the class of the object under evaluation (a template method of a base
                            r_ = owner.find_method(node.func.attr) if owner is not None else None   # class calls the steps its subclass overrides)
                            g = r_[1] if r_ else None
                            gconfig = config
                        if g is None or node.keywords:
                            raise Undecided('%s: helper %s taking the stream is not resolved' % (method, ast.unparse(node.func)))
                        gparams = [a.arg for a in g.args.args]
                        if gparams and gparams[0] in ('self', 'cls'):
                            gparams = gparams[1:]
                        if len(gparams) != len(node.args):
                            raise Undecided('%s: arity of helper %s' % (method, g.name))
                        gstream, cargs = None, []
                        for pn, a0, a1 in zip(gparams, node.args, sx.args):
                            if isinstance(a0, ast.Name) and a0.id == stream:
                                gstream = pn
                                cargs.append(None)
                                continue
                            try:
                                cargs.append(evalexpr.ev(a1, env))
                            except (evalexpr.Unsupported, KeyError, TypeError) as e:
                                raise Undecided('%s: argument of %s not evaluable (%s)' % (method, g.name, e))
                        if self.side == 'enc':
                            b, val = self.run_fn(g, gstream, cargs, gconfig, b, 0, depth + 1)
                        else:
                            val, q = self.run_fn(g, gstream, cargs, gconfig, b, q, depth + 1)
                    else:
                        name = node.func.attr
                        try:
                            cargs = [evalexpr.ev(a, env) for a in sx.args]
                        except (evalexpr.Unsupported, KeyError, TypeError) as e:
                            raise Undecided('%s: argument of %s not evaluable (%s)' % (method, name, e))
                        if self.side == 'enc':
                            b, val = self.enc_effect(name, cargs, b, depth)
                        else:
                            val, q, b = self.dec_effect(name, cargs, b, q, depth)
                    dict.__setitem__(env, sym, val)
                    if sem.consistent(p, env, evalexpr.ev) is False:
                        raise _PathDead()
                verdict = sem.consistent(p, env, evalexpr.ev)
            except _PathDead:
                continue
            if verdict is False:
                continue
            if verdict is None:
                undecided = 'a condition of %s is not evaluable' % method
                continue
            # this is the path taken
            if p.outcome[0] == 'raise':
                raise Raised(p.outcome[1])
            ret = None
            if p.outcome[0] == 'return':
                try:
                    ret = evalexpr.ev(p.outcome[3], env)
                except KeyError:
                    # a table lookup inside try/except KeyError: the sibling path with the same conditions raises
                    sib = [x for x in ps if x.outcome[0] == 'raise' and x.cond_set() == p.cond_set()]
                    if sib:
                        raise Raised(sib[0].outcome[1])
                    raise Undecided('%s: lookup failed' % method)
                except (evalexpr.Unsupported, TypeError) as e:
                    raise Undecided('%s: return value not evaluable (%s)' % (method, e))
            return (b, ret) if self.side == 'enc' else (ret, q)
        raise Undecided(undecided or '%s: no path is consistent with the arguments' % method)

    # ---- the trusted bit-level model of the base vocabulary
    def enc_effect(self, name, a, bits, depth):
        if name in ('append_non_negative_binary_integer',):
            v, w = a
            if not (isinstance(v, int) and isinstance(w, int)) or w < 0 or v < 0:
                raise Undecided('field arguments')
            if w == 0:
                return bits, None
            if v >= (1 << w):
                raise Misfit('hands the value %d to a field of %d bits' % (v, w))
            return bits + format(v, '0%db' % w), None
        if name == 'append_bit':
            return bits + ('1' if a[0] else '0'), None
        if name == 'append_u8':
            return bits + format(a[0] & 0xff, '08b'), None
        if name == 'append_bytes':
            if not isinstance(a[0], (bytes, bytearray)):
                raise Undecided('append_bytes of a non-literal')
            return bits + ''.join(format(x, '08b') for x in a[0]), None
        if name == 'append_bits':
            data, n = a
            if not isinstance(data, (bytes, bytearray)):
                raise Undecided('append_bits of a non-literal')
            return bits + ''.join(format(x, '08b') for x in data)[:n], None
        if name in ('align', 'align_always'):
            if name == 'align' and self.align_noop:
                return bits, None
            return bits + '0' * (-len(bits) % 8), None
        if name == 'set_bit':
            i = a[0]
            if not isinstance(i, int) or not 0 <= i < len(bits):
                raise Undecided('set_bit position')
            return bits[:i] + '1' + bits[i + 1:], None
        if name in BASE_ENC:
            raise Undecided('base operation %s' % name)
        return self.run(name, a, bits, 0, depth + 1)

    def dec_effect(self, name, a, bits, pos, depth):
        def take(n):
            if pos + n > len(bits):
                raise _PathDead()
            return (int(bits[pos:pos + n], 2) if n else 0), pos + n, bits
        if name == 'read_non_negative_binary_integer':
            if not isinstance(a[0], int) or a[0] < 0:
                raise Undecided('field width')
            return take(a[0])
        if name == 'read_bit':
            return take(1)
        if name == 'read_byte' and self.cls.find_method('read_byte') is None:
            return take(8)
        if name in ('read_bytes', 'read_bits'):
            n = a[0] * (8 if name == 'read_bytes' else 1)
            v, q, _b = take(n)
            return (v.to_bytes((n + 7) // 8, 'big') if n % 8 == 0 else v), q, bits
        if name == 'skip_bits':
            return None, take(a[0])[1], bits
        if name in ('align', 'align_always'):
            if name == 'align' and self.align_noop:
                return None, pos, bits
            return None, pos + (-pos % 8), bits
        if name == 'peek_bit':
            if pos >= len(bits):
                raise _PathDead()
            return int(bits[pos]), pos, bits
        if name == 'clear_bit':
            if pos >= len(bits):
                raise _PathDead()
            return None, pos, bits[:pos] + '0' + bits[pos + 1:]
        r = self.cls.find_method(name)
        if r is None:
            raise Undecided('no method %s' % name)
        # derived primitive: evaluated on the (possibly modified) bit string
        ret, q = self.run_fn(r[1], 'self', a, {}, bits, pos, depth + 1)
        return ret, q, bits


class _PathDead(Exception):
    """the bit string is exhausted on this path"""


def check_append_bits(model, enc_cls):
    """Evaluate Encoder.append_bits(data, n) -- the *body* of the method, not the trusted model -- on bit fields whose octets carry exactly
    the bits needed and more than needed; the emitted bits must be the first n bits of data after the prefix already written.
    -> (number of cases that held, number undecided, first failure (label, message) or None, first undecided reason or None)"""
    E = Machine(model, enc_cls, 'enc')
    n_ok = n_und = 0
    bad = und = None
    for data, n in ((b'\xa5', 8), (b'\xa5', 3), (b'\xa5\xff', 3), (b'\xa5\xff', 9), (b'\xa5\xff\x0f', 9), (b'\x00\x01', 16), (b'\xff\xff\xff\xff', 1), (b'\x80', 1),
                    (b'\x12\x34\x56', 20), (b'', 0), (b'\x01', 0)):
        for prefix in ('', '101'):
            label = '%d bits of %s after the bits %r' % (n, data.hex() or "''", prefix)
            want = prefix + ''.join(format(x, '08b') for x in data)[:n]
            try:
                bits, _ = E.run('append_bits', [data, n], prefix)
            except Misfit as e:
                bad = bad or (label, 'the primitive %s (it overwrites the bits written before)' % e)
                continue
            except Undecided as e:
                n_und += 1
                und = und or '%s: %s' % (label, e)
                continue
            except Raised as e:
                bad = bad or (label, 'raises %s' % e.name)
                continue
            if bits != want:
                bad = bad or (label, 'the first %d bits of %s are %s, the encoder emits %s' % (n, data.hex(), want[len(prefix):] or '(nothing)', bits[len(prefix):] or '(nothing)'))
            else:
                n_ok += 1
    return n_ok, n_und, bad, und
