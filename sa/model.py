"""E0 -- the program model every engine shares.

Built from `ast` on every run from the *current* working tree of the repository
(`VERIF_REPO`, default /repo).  Nothing from the repository is imported or executed.

A `Model` can be built with an *overlay* ({relative path: replacement text}); that is how
positive controls and the two-sided self-test analyse a mutated copy of one file without
touching /repo.
"""
import ast
import os
import re
from . import normalize


class AnalysisError(Exception):
    """The analysis itself is broken (anchor vanished, floor missed, parser failed).

    Mapped to exit code 2 -- never to a VIOLATION and never to a silent pass."""


PKG = 'asn1tools'


def unparse(node):
    return ast.unparse(node)


def norm_stmt(node):
    """Normalised text of a statement: header only for compound statements, one line,
    single blanks.  Used in finding keys (never line numbers)."""
    if node is None:
        return ''
    if isinstance(node, (ast.FunctionDef, ast.ClassDef)):
        return ('def ' if isinstance(node, ast.FunctionDef) else 'class ') + node.name
    if isinstance(node, ast.If):
        t = 'if ' + ast.unparse(node.test)
    elif isinstance(node, ast.While):
        t = 'while ' + ast.unparse(node.test)
    elif isinstance(node, ast.For):
        t = 'for %s in %s' % (ast.unparse(node.target), ast.unparse(node.iter))
    elif isinstance(node, ast.Try):
        t = 'try'
    elif isinstance(node, ast.With):
        t = 'with ' + ', '.join(ast.unparse(i) for i in node.items)
    elif isinstance(node, ast.ExceptHandler):
        t = 'except ' + (ast.unparse(node.type) if node.type else '')
    else:
        t = ast.unparse(node)
    t = re.sub(r'\s+', ' ', t).strip()
    if len(t) > 160:
        t = t[:157] + '...'
    return t


class ClassInfo(object):

    def __init__(self, mod, node):
        self.mod = mod
        self.node = node
        self.name = node.name
        self.methods = {}
        self.attrs = {}
        for s in node.body:
            if isinstance(s, ast.FunctionDef):
                self.methods[s.name] = s
            elif isinstance(s, ast.Assign):
                for t in s.targets:
                    if isinstance(t, ast.Name):
                        self.attrs[t.id] = s.value
        self._mro = None

    @property
    def qname(self):
        return '%s.%s' % (self.mod.short, self.name)

    def __repr__(self):
        return '<class %s>' % self.qname

    @property
    def bases(self):
        out = []
        for b in self.node.bases:
            r = self.mod.resolve(b)
            if isinstance(r, ClassInfo):
                out.append(r)
        return out

    def mro(self):
        """C3 linearisation over the classes defined in the repository."""
        if self._mro is not None:
            return self._mro
        seqs = [list(b.mro()) for b in self.bases] + [list(self.bases)]
        res = [self]
        while True:
            seqs = [s for s in seqs if s]
            if not seqs:
                break
            for s in seqs:
                cand = s[0]
                if not any(cand in t[1:] for t in seqs):
                    break
            else:
                raise AnalysisError('inconsistent MRO for %s' % self.qname)
            res.append(cand)
            for s in seqs:
                if s[0] is cand:
                    del s[0]
        self._mro = res
        return res

    def find_method(self, name, after=None):
        """(defining ClassInfo, FunctionDef) through the MRO, or None.
        `after`: start searching after that class (super())."""
        chain = self.mro()
        if after is not None:
            chain = chain[chain.index(after) + 1:] if after in chain else []
        for c in chain:
            if name in c.methods:
                return c, c.methods[name]
        return None

    def find_attr(self, name):
        for c in self.mro():
            if name in c.attrs:
                return c, c.attrs[name]
        return None

    def is_subclass_of(self, other):
        return other in self.mro()

    def subclasses(self, model):
        sc = getattr(self, '_subs', None)
        if sc is None:
            sc = self._subs = [c for c in model.all_classes() if self in c.mro() and c is not self]
        return sc


class Module(object):

    def __init__(self, model, rel, text):
        self.model = model
        self.rel = rel                         # asn1tools/codecs/per.py
        self.text = text
        parts = rel[:-3].split('/')
        if parts[-1] == '__init__':
            parts = parts[:-1]
            self.is_pkg = True
        else:
            self.is_pkg = False
        self.dotted = '.'.join(parts)          # asn1tools.codecs.per
        self.short = self.dotted[len(PKG) + 1:] or PKG  # codecs.per
        # the short, conventional name used in reports: per, ber, codecs, c.oer ...
        s = self.short
        if s.startswith('codecs.'):
            s = s[len('codecs.'):]
        elif s.startswith('source.'):
            s = s[len('source.'):]
        self.short = s
        try:
            self.tree = ast.parse(text, filename=rel)
        except SyntaxError as e:
            raise AnalysisError('cannot parse %s: %s' % (rel, e))
        normalize.fold_return_temps(self.tree)        # `t = e; return t` is read as `return e` by every rule (sa/normalize.py)
        self.classes = {}
        self.functions = {}
        self.consts = {}
        self.imports = {}   # local name -> (dotted module, attr or None)
        self._index()

    def __repr__(self):
        return '<module %s>' % self.dotted

    def _index(self):
        for par in ast.walk(self.tree):
            for ch in ast.iter_child_nodes(par):
                ch._parent = par
        self.tree._parent = None
        pkg_parts = self.dotted.split('.') if self.is_pkg else self.dotted.split('.')[:-1]
        for s in self.tree.body:
            if isinstance(s, ast.ClassDef):
                self.classes[s.name] = ClassInfo(self, s)
            elif isinstance(s, ast.FunctionDef):
                self.functions[s.name] = s
            elif isinstance(s, ast.Assign):
                for t in s.targets:
                    if isinstance(t, ast.Name):
                        self.consts[t.id] = s.value
            elif isinstance(s, ast.ImportFrom):
                if s.level:
                    base = pkg_parts[:len(pkg_parts) - (s.level - 1)]
                    base = '.'.join(base + (s.module.split('.') if s.module else []))
                else:
                    base = s.module
                for a in s.names:
                    self.imports[a.asname or a.name] = (base, a.name)
            elif isinstance(s, ast.Import):
                for a in s.names:
                    self.imports[a.asname or a.name.split('.')[0]] = (a.name, None)
        # annotate functions with owner info
        for cname, ci in self.classes.items():
            for f in ci.methods.values():
                f._cls = ci
                f._mod = self
        for f in self.functions.values():
            f._cls = None
            f._mod = self
        # nested defs
        for n in ast.walk(self.tree):
            if isinstance(n, ast.FunctionDef) and not hasattr(n, '_mod'):
                n._mod = self
                n._cls = None

    # ------------------------------------------------------------ resolution
    def resolve_name(self, name, _seen=None):
        """A top-level name of this module -> ClassInfo | FunctionDef | Module |
        ('const', node, module) | None (external)."""
        _seen = _seen or set()
        if (self.dotted, name) in _seen:
            return None
        _seen.add((self.dotted, name))
        if name in self.classes:
            return self.classes[name]
        if name in self.functions:
            return self.functions[name]
        if name in self.consts:
            return ('const', self.consts[name], self)
        if name in self.imports:
            base, attr = self.imports[name]
            if attr is None:
                return self.model.by_dotted.get(base)
            m = self.model.by_dotted.get(base)
            if m is not None:
                sub = self.model.by_dotted.get(base + '.' + attr)
                r = m.resolve_name(attr, _seen)
                if r is not None:
                    return r
                return sub
            return None
        return None

    def resolve(self, expr):
        """ast.Name / dotted ast.Attribute -> same as resolve_name."""
        if isinstance(expr, ast.Name):
            return self.resolve_name(expr.id)
        if isinstance(expr, ast.Attribute):
            base = self.resolve(expr.value)
            if isinstance(base, Module):
                return base.resolve_name(expr.attr)
            if isinstance(base, ClassInfo):
                r = base.find_attr(expr.attr)
                if r:
                    return ('const', r[1], r[0].mod)
                r = base.find_method(expr.attr)
                if r:
                    return r[1]
        return None

    def const_value(self, name):
        """Literal value of a module-level constant (str/int/list/tuple/dict of literals)."""
        if name not in self.consts:
            raise AnalysisError('constant %s not found in %s' % (name, self.rel))
        return self.model.literal(self.consts[name], self)


class Model(object):

    def __init__(self, repo=None, overlay=None):
        self.repo = repo or os.environ.get('VERIF_REPO', '/repo')
        self.overlay = overlay or {}
        self.modules = {}      # rel -> Module
        self.by_dotted = {}
        self.by_short = {}
        root = os.path.join(self.repo, PKG)
        if not os.path.isdir(root):
            raise AnalysisError('no %s under %s' % (PKG, self.repo))
        rels = []
        for d, _dirs, files in os.walk(root):
            for f in sorted(files):
                if f.endswith('.py'):
                    rels.append(os.path.relpath(os.path.join(d, f), self.repo))
        for rel in sorted(rels):
            if rel in self.overlay:
                text = self.overlay[rel]
            else:
                with open(os.path.join(self.repo, rel), encoding='utf-8') as fh:
                    text = fh.read()
            m = Module(self, rel, text)
            self.modules[rel] = m
            self.by_dotted[m.dotted] = m
            self.by_short[m.short] = m
        for rel in self.overlay:
            if rel not in self.modules:
                raise AnalysisError('overlay for unknown file %s' % rel)

    # ------------------------------------------------------------ access
    def mod(self, short):
        """Module by conventional short name ('per', 'ber', 'codecs', 'compiler',
        'codecs.compiler' is 'compiler' under codecs -> use rel for ambiguity)."""
        if short.endswith('.py'):
            if short not in self.modules:
                raise AnalysisError('module %s vanished' % short)
            return self.modules[short]
        cands = [m for m in self.modules.values() if m.short == short]
        if len(cands) != 1:
            raise AnalysisError('module %r: %d candidates' % (short, len(cands)))
        return cands[0]

    def cls(self, rel, name):
        m = self.mod(rel)
        if name not in m.classes:
            raise AnalysisError('class %s vanished from %s' % (name, m.rel))
        return m.classes[name]

    def func(self, rel, qual):
        """'Class.method' or 'function' in module rel -> FunctionDef (anchor lookup;
        raises AnalysisError when it vanished)."""
        m = self.mod(rel)
        if '.' in qual:
            c, f = qual.split('.', 1)
            if c not in m.classes:
                raise AnalysisError('anchor %s::%s vanished' % (m.rel, qual))
            if f not in m.classes[c].methods:
                # inherited (the method may have been moved to a base class or a mixin of this class)
                r = m.classes[c].find_method(f)
                if r is None or not r[0].mod.rel.startswith('asn1tools/'):
                    raise AnalysisError('anchor %s::%s vanished' % (m.rel, qual))
                return r[1]
            return m.classes[c].methods[f]
        if qual not in m.functions:
            raise AnalysisError('anchor %s::%s vanished' % (m.rel, qual))
        return m.functions[qual]

    def has_func(self, rel, qual):
        try:
            self.func(rel, qual)
            return True
        except AnalysisError:
            return False

    def all_classes(self):
        for m in self.modules.values():
            for c in m.classes.values():
                yield c

    def all_functions(self):
        """Every FunctionDef (methods, functions, nested), with ._mod/._cls set."""
        for m in self.modules.values():
            for n in ast.walk(m.tree):
                if isinstance(n, ast.FunctionDef):
                    yield n

    # ------------------------------------------------------------ helpers
    @staticmethod
    def qual(f):
        """Qualified construct name of a FunctionDef: path::Class.method"""
        if getattr(f, '_cls', None) is not None:
            return '%s::%s.%s' % (f._mod.rel, f._cls.name, f.name)
        # nested function?
        p = getattr(f, '_parent', None)
        names = [f.name]
        while p is not None:
            if isinstance(p, (ast.FunctionDef, ast.ClassDef)):
                names.append(p.name)
            p = getattr(p, '_parent', None)
        return '%s::%s' % (f._mod.rel, '.'.join(reversed(names)))

    @staticmethod
    def enclosing_function(node):
        p = getattr(node, '_parent', None)
        while p is not None and not isinstance(p, ast.FunctionDef):
            p = getattr(p, '_parent', None)
        return p

    @staticmethod
    def enclosing_stmt(node):
        p = node
        while p is not None and not isinstance(p, ast.stmt):
            p = getattr(p, '_parent', None)
        return p

    def literal(self, node, mod=None):
        """Evaluate a literal expression built from constants, names of module constants,
        list/tuple/dict/set displays, +, *, unary -, ** and << on ints, str.join of
        literals.  Raises AnalysisError if not literal."""
        if isinstance(node, ast.Constant):
            return node.value
        if isinstance(node, (ast.List, ast.Tuple, ast.Set)):
            vals = [self.literal(e, mod) for e in node.elts]
            return vals if isinstance(node, ast.List) else (tuple(vals) if isinstance(node, ast.Tuple) else set(vals))
        if isinstance(node, ast.Dict):
            return {self.literal(k, mod): self.literal(v, mod) for k, v in zip(node.keys, node.values)}
        if isinstance(node, ast.UnaryOp) and isinstance(node.op, ast.USub):
            return -self.literal(node.operand, mod)
        if isinstance(node, ast.UnaryOp) and isinstance(node.op, ast.Invert):
            return ~self.literal(node.operand, mod)
        if isinstance(node, ast.BinOp):
            a, b = self.literal(node.left, mod), self.literal(node.right, mod)
            op = node.op
            try:
                if isinstance(op, ast.Add):
                    return a + b
                if isinstance(op, ast.Sub):
                    return a - b
                if isinstance(op, ast.Mult):
                    return a * b
                if isinstance(op, ast.Pow):
                    return a ** b
                if isinstance(op, ast.LShift):
                    return a << b
                if isinstance(op, ast.RShift):
                    return a >> b
                if isinstance(op, ast.BitOr):
                    return a | b
                if isinstance(op, ast.BitAnd):
                    return a & b
                if isinstance(op, ast.FloorDiv):
                    return a // b
                if isinstance(op, ast.Mod) and isinstance(a, int):
                    return a % b
            except Exception as e:  # pragma: no cover
                raise AnalysisError('literal arithmetic failed: %s' % e)
        if isinstance(node, ast.Name) and mod is not None:
            r = mod.resolve_name(node.id)
            if isinstance(r, tuple) and r[0] == 'const':
                return self.literal(r[1], r[2])
        if isinstance(node, ast.Attribute) and mod is not None:
            r = mod.resolve(node)
            if isinstance(r, tuple) and r[0] == 'const':
                return self.literal(r[1], r[2])
        raise AnalysisError('not a literal: %s' % ast.dump(node)[:80])

    def try_literal(self, node, mod=None, default=None):
        try:
            return self.literal(node, mod)
        except AnalysisError:
            return default


class _ConstExpander(ast.NodeTransformer):
    def __init__(self, mod, cls):
        self.mod, self.cls = mod, cls

    @staticmethod
    def _simple(v):
        if isinstance(v, ast.Constant):
            return True
        if isinstance(v, ast.UnaryOp) and isinstance(v.operand, ast.Constant):
            return True
        return isinstance(v, ast.Call) and isinstance(v.func, ast.Name) and v.func.id in ('float', 'int', 'str', 'bytes') and all(isinstance(a, ast.Constant) for a in v.args) \
            and not v.keywords

    def visit_Name(self, n):
        if isinstance(n.ctx, ast.Load) and self.mod is not None:
            r = self.mod.resolve_name(n.id)
            if isinstance(r, tuple) and r[0] == 'const' and self._simple(r[1]):
                return r[1]
        return n

    def visit_Attribute(self, n):
        if isinstance(n.value, ast.Name) and n.value.id in ('self', 'cls') and self.cls is not None and n.attr.isupper():
            for cur in self.cls.mro():
                v = cur.attrs.get(n.attr)
                if v is not None:
                    return v if self._simple(v) else n
            return n
        if isinstance(n.value, ast.Name) and self.mod is not None:
            r = self.mod.resolve_name(n.value.id)
            if r is not None and hasattr(r, 'consts') and n.attr in r.consts and self._simple(r.consts[n.attr]):
                return r.consts[n.attr]
        return self.generic_visit(n)


def expand_consts(node, mod, cls=None):
    """A copy of the expression with the names of module-level (and self.UPPERCASE class-level) simple constants replaced by their
    value expressions, so `data == PLUS_INFINITY` and `data == float('inf')` have one text."""
    import copy
    return _ConstExpander(mod, cls).visit(copy.deepcopy(node))


def resolved_constants(f):
    """Constant nodes of a function body, including those that module-level / class-level constant names stand for."""
    ex = _ConstExpander(getattr(f, '_mod', None), getattr(f, '_cls', None))
    out = []
    for n in walk_no_nested(f):
        if isinstance(n, ast.Constant):
            out.append(n)
        elif isinstance(n, ast.Name):
            r = ex.visit_Name(n)
            if isinstance(r, ast.Constant):
                out.append(r)
        elif isinstance(n, ast.Attribute) and isinstance(n.value, ast.Name):
            r = ex.visit_Attribute(n)
            if isinstance(r, ast.Constant):
                out.append(r)
    return out


def unparse_x(node, f):
    """ast.unparse after expand_consts in the scope of function f."""
    return ast.unparse(expand_consts(node, getattr(f, '_mod', None), getattr(f, '_cls', None)))


def walk_no_nested(node):
    """ast.walk that does not descend into nested function/class definitions or lambdas
    (the root itself may be a FunctionDef)."""
    cached = getattr(node, '_wnn', None)
    if cached is not None:
        return cached
    out = []
    todo = list(ast.iter_child_nodes(node))
    while todo:
        n = todo.pop()
        out.append(n)
        if isinstance(n, (ast.FunctionDef, ast.ClassDef, ast.Lambda, ast.AsyncFunctionDef)):
            continue
        todo.extend(ast.iter_child_nodes(n))
    if isinstance(node, (ast.FunctionDef, ast.ClassDef, ast.Module)):
        node._wnn = out
    return out


def calls_in(node):
    return [n for n in walk_no_nested(node) if isinstance(n, ast.Call)]


def call_name(call):
    """('attr', recv_node, name) | ('name', None, name) | (None, None, None)"""
    f = call.func
    if isinstance(f, ast.Attribute):
        return 'attr', f.value, f.attr
    if isinstance(f, ast.Name):
        return 'name', None, f.id
    return None, None, None


def root_name(expr):
    """Root Name id of an attribute/subscript/call chain, or None."""
    e = expr
    while True:
        if isinstance(e, ast.Name):
            return e.id
        if isinstance(e, (ast.Attribute, ast.Subscript, ast.Starred)):
            e = e.value
        elif isinstance(e, ast.Call):
            e = e.func
        else:
            return None


def names_in(expr):
    return {n.id for n in ast.walk(expr) if isinstance(n, ast.Name)}
