"""Semantic views of a function, so that rules can be written against what the code computes instead of
how it is spelled (names of locals, nesting of ifs, guard clauses, extracted helpers).

  lin(expr)                 linear normal form of an integer expression (dict monomial -> coefficient)
  ccond(expr)               canonical (text, polarity) of a condition: comparisons are brought to
                            `<poly> > 0` / `<poly> == 0` with locals substituted, `not` folded away
  paths(f, ...)             path summaries of a function: abstract interpretation over a symbolic-expression
                            domain (every local is replaced by the expression it holds on that path; `a and b`
                            / nested ifs / early returns all become the same list of condition literals).
                            Loops and try bodies are summarised (assigned names are havocked), nothing is
                            executed and no solver is consulted.
  Path.conds / .outcome / .events

Used by the property modules for rules of the form "this function raises only for these reasons",
"this value is returned exactly under that condition", "call X happens before call Y on every path"."""
import ast
import copy
import itertools

from .model import walk_no_nested

MAX_PATHS = 600


class TooManyPaths(Exception):
    pass


def u(n):
    return ast.unparse(n)


def parse_expr(t):
    return ast.parse(t, mode='eval').body


# ------------------------------------------------------------------ substitution
def clone(n):
    """Structural copy of an ast node: only the grammar fields (the model's _parent / _cls links are not followed)."""
    if isinstance(n, ast.AST):
        new = n.__class__()
        new._oid = getattr(n, '_oid', id(n))
        if hasattr(n, '_defmod'):
            new._defmod = n._defmod
        for f in n._fields:
            if hasattr(n, f):
                setattr(new, f, clone(getattr(n, f)))
        for a in ('lineno', 'col_offset', 'end_lineno', 'end_col_offset'):
            if hasattr(n, a):
                setattr(new, a, getattr(n, a))
        return new
    if isinstance(n, list):
        return [clone(x) for x in n]
    return n


def size(n):
    return sum(1 for _ in ast.walk(n))


MAX_EXPR = 400

class _Subst(ast.NodeTransformer):
    def __init__(self, env):
        self.env = env
        self.eff = env.get('#eff') if isinstance(env, dict) else None

    def visit_Attribute(self, n):
        if self.eff:
            sym = self.eff.get(getattr(n, '_oid', id(n)))
            if sym is not None:
                return ast.Name(id=sym, ctx=ast.Load())
        return self.generic_visit(n)

    def visit_Call(self, n):
        if self.eff:
            sym = self.eff.get(getattr(n, '_oid', id(n)))
            if sym is not None:
                return ast.Name(id=sym, ctx=ast.Load())
        return self.generic_visit(n)

    def visit_Name(self, n):
        if isinstance(n.ctx, ast.Load) and n.id in self.env:
            v = self.env[n.id]
            if v is not None and isinstance(v, ast.AST):
                return clone(v)
        return n

    def visit_Lambda(self, n):
        return n

    def _comp(self, n):
        # names bound by the comprehension shadow the environment
        bound = set()
        for g in n.generators:
            for x in ast.walk(g.target):
                if isinstance(x, ast.Name):
                    bound.add(x.id)
        saved = self.env
        self.env = {k: v for k, v in saved.items() if k not in bound or k == '#eff'}
        r = self.generic_visit(n)
        self.env = saved
        return r
    visit_ListComp = visit_SetComp = visit_GeneratorExp = visit_DictComp = _comp


def subst(expr, env):
    e = clone(expr)
    e = _Subst(env).visit(e)
    return e


class _Fold(ast.NodeTransformer):
    """Partial evaluation used by the dispatch analysis: class-attribute tables, literal table look-ups, getattr(self, 'x')."""

    def __init__(self, attr_resolver=None, rewrite=None):
        self.attr_resolver = attr_resolver
        self.rewrite = rewrite

    def generic_visit(self, node):
        node = ast.NodeTransformer.generic_visit(self, node)
        if self.rewrite is not None and isinstance(node, ast.expr):
            r = self.rewrite(node)
            if r is not None:
                return r
        return node

    def visit_Attribute(self, n):
        n = self.generic_visit(n)
        if isinstance(n, ast.Attribute) and isinstance(n.ctx, ast.Load) and isinstance(n.value, ast.Name) and n.value.id in ('self', 'cls') and self.attr_resolver is not None:
            v = self.attr_resolver(n.attr)
            if v is not None:
                return clone(v)
        return n

    def visit_Call(self, n):
        n = self.generic_visit(n)
        if isinstance(n, ast.Call) and isinstance(n.func, ast.Name) and n.func.id == 'getattr' and len(n.args) == 2 and isinstance(n.args[0], ast.Name) \
                and isinstance(n.args[1], ast.Constant) and isinstance(n.args[1].value, str):
            return ast.Attribute(value=n.args[0], attr=n.args[1].value, ctx=ast.Load())
        # <dict display>.get(<literal>[, default])
        if isinstance(n, ast.Call) and isinstance(n.func, ast.Attribute) and n.func.attr == 'get' and isinstance(n.func.value, ast.Dict) and n.args \
                and isinstance(n.args[0], ast.Constant) and all(isinstance(k, ast.Constant) for k in n.func.value.keys):
            for k, v in zip(n.func.value.keys, n.func.value.values):
                if k.value == n.args[0].value and type(k.value) is type(n.args[0].value):
                    return v
            return n.args[1] if len(n.args) > 1 else ast.Constant(None)
        return n

    def visit_Subscript(self, n):
        n = self.generic_visit(n)
        if isinstance(n, ast.Subscript) and isinstance(n.ctx, ast.Load) and isinstance(n.slice, ast.Constant):
            if isinstance(n.value, ast.Dict):
                for k, v in zip(n.value.keys, n.value.values):
                    if isinstance(k, ast.Constant) and k.value == n.slice.value and type(k.value) is type(n.slice.value):
                        return v
            if isinstance(n.value, (ast.Tuple, ast.List)) and isinstance(n.slice.value, int) and not isinstance(n.slice.value, bool) \
                    and -len(n.value.elts) <= n.slice.value < len(n.value.elts) and not any(isinstance(x, ast.Starred) for x in n.value.elts):
                return n.value.elts[n.slice.value]
        return n


def decide_membership(e):
    """`<literal> in <display with literal keys/elements>` -> True / False, else None"""
    if isinstance(e, ast.Compare) and len(e.ops) == 1 and isinstance(e.ops[0], (ast.In, ast.NotIn)) and isinstance(e.left, ast.Constant):
        c = e.comparators[0]
        items = None
        if isinstance(c, ast.Dict):
            items = c.keys
        elif isinstance(c, (ast.List, ast.Tuple, ast.Set)):
            items = c.elts
        if items is not None and all(isinstance(k, ast.Constant) for k in items):
            r = any(k.value == e.left.value and type(k.value) is type(e.left.value) for k in items)
            return r if isinstance(e.ops[0], ast.In) else (not r)
    return None


_opaque_n = [0]


def bounded(e, hint='expr'):
    """Expressions that grew beyond MAX_EXPR nodes through substitution are replaced by an opaque symbol."""
    if size(e) > MAX_EXPR:
        _opaque_n[0] += 1
        return ast.Name(id='%s#%d' % (hint, _opaque_n[0]), ctx=ast.Load())
    return e


# ------------------------------------------------------------------ linear normal form
def lin(e):
    """{monomial text: coeff} ; '' is the constant monomial.  Non-linear / non-arithmetic subterms are
    opaque monomials (their canonical text)."""
    if isinstance(e, ast.Constant) and isinstance(e.value, int) and not isinstance(e.value, bool):
        return {'': e.value} if e.value else {}
    if isinstance(e, ast.UnaryOp) and isinstance(e.op, ast.USub):
        return {k: -v for k, v in lin(e.operand).items()}
    if isinstance(e, ast.UnaryOp) and isinstance(e.op, ast.UAdd):
        return lin(e.operand)
    if isinstance(e, ast.BinOp) and isinstance(e.op, (ast.Add, ast.Sub)):
        a, b = lin(e.left), lin(e.right)
        sgn = 1 if isinstance(e.op, ast.Add) else -1
        out = dict(a)
        for k, v in b.items():
            out[k] = out.get(k, 0) + sgn * v
        return {k: v for k, v in out.items() if v}
    if isinstance(e, ast.BinOp) and isinstance(e.op, ast.Mult):
        a, b = lin(e.left), lin(e.right)
        if set(a) <= {''}:
            c = a.get('', 0)
            return {k: c * v for k, v in b.items() if c * v}
        if set(b) <= {''}:
            c = b.get('', 0)
            return {k: c * v for k, v in a.items() if c * v}
        # product of two non-constant terms: canonical order
        ta, tb = sorted([show_lin(a), show_lin(b)])
        return {'(%s) * (%s)' % (ta, tb): 1}
    if isinstance(e, ast.BinOp) and isinstance(e.op, ast.LShift) and isinstance(e.right, ast.Constant) and isinstance(e.right.value, int) \
            and 0 <= e.right.value < 64:
        return lin(ast.BinOp(e.left, ast.Mult(), ast.Constant(1 << e.right.value)))
    return {_p(e): 1}


def show_lin(d):
    if not d:
        return '0'
    parts = []
    for k in sorted(d, key=lambda x: (x == '', x)):
        c = d[k]
        if k == '':
            parts.append('%+d' % c)
        elif c == 1:
            parts.append('+' + k)
        elif c == -1:
            parts.append('-' + k)
        else:
            parts.append('%+d*%s' % (c, k))
    s = ' '.join(parts)
    return s[1:] if s.startswith('+') else s


def ctext(e):
    """Canonical text of an expression (comparisons and arithmetic normalised recursively)."""
    if isinstance(e, ast.Compare) or (isinstance(e, ast.UnaryOp) and isinstance(e.op, ast.Not)) or isinstance(e, ast.BoolOp):
        lits = cond_formula(e)
        return show_formula(lits)
    if isinstance(e, ast.BinOp) and isinstance(e.op, (ast.Add, ast.Sub, ast.Mult)):
        d = lin(e)
        if all(isinstance(c, int) for c in d.values()):
            return show_lin(d)
    if isinstance(e, ast.BinOp):
        sym = {ast.Add: '+', ast.Sub: '-', ast.Mult: '*', ast.Div: '/', ast.FloorDiv: '//', ast.Mod: '%', ast.Pow: '**', ast.LShift: '<<', ast.RShift: '>>',
               ast.BitOr: '|', ast.BitAnd: '&', ast.BitXor: '^', ast.MatMult: '@'}[type(e.op)]
        return '%s %s %s' % (_p(e.left), sym, _p(e.right))
    if isinstance(e, ast.UnaryOp):
        sym = {ast.USub: '-', ast.UAdd: '+', ast.Invert: '~', ast.Not: 'not '}[type(e.op)]
        return '%s%s' % (sym, _p(e.operand))
    if isinstance(e, (ast.List, ast.Set)):
        o, c = ('[', ']') if isinstance(e, ast.List) else ('{', '}')
        return o + ', '.join(ctext(x) for x in e.elts) + c
    if isinstance(e, ast.Call):
        f = ctext(e.func) if not isinstance(e.func, (ast.Name, ast.Attribute)) else u(e.func) if isinstance(e.func, ast.Name) else ctext(e.func)
        args = [ctext(a) for a in e.args] + ['%s=%s' % (k.arg, ctext(k.value)) if k.arg else '**' + ctext(k.value) for k in e.keywords]
        return '%s(%s)' % (f, ', '.join(args))
    if isinstance(e, ast.Attribute):
        return '%s.%s' % (_p(e.value), e.attr)
    if isinstance(e, ast.Subscript):
        if isinstance(e.slice, ast.Slice):
            sl = e.slice
            return '%s[%s:%s%s]' % (_p(e.value), ctext(sl.lower) if sl.lower else '', ctext(sl.upper) if sl.upper else '',
                                    (':' + ctext(sl.step)) if sl.step else '')
        return '%s[%s]' % (_p(e.value), ctext(e.slice))
    if isinstance(e, ast.Tuple):
        return '(%s)' % ', '.join(ctext(x) for x in e.elts) if len(e.elts) != 1 else '(%s,)' % ctext(e.elts[0])
    if isinstance(e, ast.Starred):
        return '*' + ctext(e.value)
    if isinstance(e, ast.IfExp):
        return '(%s if %s else %s)' % (ctext(e.body), ctext(e.test), ctext(e.orelse))
    return u(e)


def _p(e):
    t = ctext(e)
    if isinstance(e, (ast.Name, ast.Attribute, ast.Subscript, ast.Call, ast.Constant)):
        return t
    return '(%s)' % t


# formula = ('lit', text, polarity, node, truth) | ('and', [..]) | ('or', [..])
#   the literal asserts: canonical `text` is `polarity`  ==  the (substituted) expression `node` evaluates to `truth`
def cond_formula(e, pol=True):
    if isinstance(e, ast.UnaryOp) and isinstance(e.op, ast.Not):
        return cond_formula(e.operand, not pol)
    if isinstance(e, ast.BoolOp):
        parts = [cond_formula(v, pol) for v in e.values]
        is_and = isinstance(e.op, ast.And)
        if not pol:
            is_and = not is_and
        return ('and' if is_and else 'or', parts)
    if isinstance(e, ast.Compare):
        if len(e.ops) > 1:
            parts = []
            left = e.left
            for op, right in zip(e.ops, e.comparators):
                parts.append(ast.Compare(left, [op], [right]))
                left = right
            return cond_formula(ast.BoolOp(ast.And(), parts), pol)
        t, p = _cmp(e.left, e.ops[0], e.comparators[0])
        return ('lit', t, p == pol, e, pol)
    if isinstance(e, ast.Constant):
        return ('lit', 'True', bool(e.value) == pol, e, pol)
    # len(x) / x as truth value
    if isinstance(e, ast.Call) and isinstance(e.func, ast.Name) and e.func.id in ('len', 'bool') and len(e.args) == 1:
        return ('lit', ctext(e.args[0]), pol, e, pol)
    return ('lit', ctext(e), pol, e, pol)


def _cmp(l, op, r):
    """-> (text, polarity) canonical"""
    if isinstance(op, (ast.Is, ast.IsNot)):
        return '%s is %s' % (_p(l), _p(r)), isinstance(op, ast.Is)
    if isinstance(op, (ast.In, ast.NotIn)):
        return '%s in %s' % (_p(l), _p(r)), isinstance(op, ast.In)
    arith = all(_is_arith(x) for x in (l, r))
    if isinstance(op, (ast.Eq, ast.NotEq)):
        pol = isinstance(op, ast.Eq)
        # len(x) == 0  /  len(x) != 0  : truth value of x
        for a, b in ((l, r), (r, l)):
            if isinstance(a, ast.Call) and isinstance(a.func, ast.Name) and a.func.id == 'len' and len(a.args) == 1 and \
                    isinstance(b, ast.Constant) and b.value == 0 and not isinstance(b.value, bool):
                return ctext(a.args[0]), not pol
        if arith:
            d = lin(ast.BinOp(l, ast.Sub(), r))
            d = _sign_norm(d)[0]
            return '%s == 0' % show_lin(d), pol
        a, b = sorted([_p(l), _p(r)])
        return '%s == %s' % (a, b), pol
    if isinstance(op, (ast.Lt, ast.LtE, ast.Gt, ast.GtE)):
        # len(x) > 0, len(x) >= 1 : truth value
        if isinstance(l, ast.Call) and isinstance(l.func, ast.Name) and l.func.id == 'len' and len(l.args) == 1 and isinstance(r, ast.Constant):
            if (isinstance(op, ast.Gt) and r.value == 0) or (isinstance(op, ast.GtE) and r.value == 1):
                return ctext(l.args[0]), True
            if (isinstance(op, ast.Lt) and r.value == 1) or (isinstance(op, ast.LtE) and r.value == 0):
                return ctext(l.args[0]), False
        if arith:
            # a > b  <=> a - b > 0 ; a >= b <=> not (b - a > 0) ; a < b <=> b - a > 0 ; a <= b <=> not (a - b > 0)
            if isinstance(op, ast.Gt):
                d, pol = lin(ast.BinOp(l, ast.Sub(), r)), True
            elif isinstance(op, ast.Lt):
                d, pol = lin(ast.BinOp(r, ast.Sub(), l)), True
            elif isinstance(op, ast.LtE):
                d, pol = lin(ast.BinOp(l, ast.Sub(), r)), False
            else:
                d, pol = lin(ast.BinOp(r, ast.Sub(), l)), False
            # integers:  d > 0 with leading coefficient negative ->  not (-d >= 0) = not (-d + 1 > 0)
            nd, flipped = _sign_norm(d)
            if flipped:
                nd = dict(nd)
                nd[''] = nd.get('', 0) + 1
                nd = {k: v for k, v in nd.items() if v}
                pol = not pol
            return '%s > 0' % show_lin(nd), pol
        sym = {ast.Lt: '<', ast.LtE: '<=', ast.Gt: '>', ast.GtE: '>='}[type(op)]
        return '%s %s %s' % (_p(l), sym, _p(r)), True
    return '%s ? %s' % (_p(l), _p(r)), True


def _is_arith(e):
    if isinstance(e, ast.Constant):
        return isinstance(e.value, int) and not isinstance(e.value, bool)
    if isinstance(e, (ast.Tuple, ast.List, ast.Dict, ast.Set, ast.JoinedStr)):
        return False
    return True


def _sign_norm(d):
    """make the coefficient of the first non-constant monomial positive -> (dict, flipped)"""
    keys = sorted(k for k in d if k != '')
    if keys and d[keys[0]] < 0:
        return {k: -v for k, v in d.items()}, True
    if not keys and d.get('', 0) < 0:
        return {k: -v for k, v in d.items()}, True
    return d, False


def show_formula(f):
    if f[0] == 'lit':
        return f[1] if f[2] else 'not (%s)' % f[1]
    return '(%s)' % ((' %s ' % f[0]).join(show_formula(p) for p in f[1]))


def ccond(e, env=None):
    """canonical (text, polarity) for a simple condition; compound conditions give their formula text."""
    if env:
        e = subst(e, env)
    f = cond_formula(e)
    if f[0] == 'lit':
        return f[1], f[2]
    return show_formula(f), True


def dnf(f):
    """formula -> list of conjunctions (each a list of (text, pol)) covering exactly the cases where it is true,
    in short-circuit evaluation order."""
    if f[0] == 'lit':
        return [[(f[1], f[2]) + tuple(f[3:5])]]
    if f[0] == 'and':
        out = [[]]
        for p in f[1]:
            out = [a + b for a in out for b in dnf(p)]
        return out
    out = []
    prefix_false = []
    for p in f[1]:
        for conj in dnf(p):
            out.append(conj)
    return out


def consistent(path, env, ev):
    """Three-valued: do the condition literals of `path` hold under the bindings `env`?  ev(node, env) evaluates an
    expression or raises; literals that cannot be evaluated are unknown.  -> True / False / None"""
    unknown = False
    for c in path.conds:
        if len(c) < 6:
            unknown = True
            continue
        try:
            v = ev(c[4], env)
        except Exception:
            unknown = True
            continue
        if bool(v) != c[5]:
            return False
    return None if unknown else True


def negate(f):
    if f[0] == 'lit':
        return ('lit', f[1], not f[2]) + ((f[3], not f[4]) if len(f) > 4 else ())
    return ('or' if f[0] == 'and' else 'and', [negate(p) for p in f[1]])


# ------------------------------------------------------------------ path summaries
class Path(object):
    __slots__ = ('conds', 'events', 'env', 'outcome', 'nodes')

    def __init__(self, conds=(), events=(), env=None, outcome=None, nodes=()):
        self.conds = tuple(conds)      # ((text, polarity, test node), ...)
        self.events = tuple(events)    # (kind, text, node)  kind: call / store / loop / endloop / except / yield
        self.env = env or {}
        self.outcome = outcome         # ('return', text, node) | ('raise', exception name, text, node) | ('fall',)
        self.nodes = nodes

    def cond_set(self):
        return {(c[0], c[1]) for c in self.conds}

    def has(self, text, pol=True):
        return (text, pol) in self.cond_set()

    def mentions(self, frag, pol=None):
        return any(frag in c[0] and (pol is None or c[1] == pol) for c in self.conds)

    def calls(self, name=None):
        out = []
        for ev in self.events:
            k, t, n = ev[0], ev[1], ev[2]
            if k in ('call', 'in-loop:call') and (name is None or _callee_name(n) == name):
                out.append((t, n))
        return out

    def show(self):
        return '%s => %s' % (' && '.join(('' if c[1] else 'not ') + c[0] for c in self.conds) or 'always',
                             self.outcome[0] + ((' ' + str(self.outcome[1])) if len(self.outcome) > 1 else ''))


def _callee_name(call):
    f = call.func
    if isinstance(f, ast.Attribute):
        return f.attr
    if isinstance(f, ast.Name):
        return f.id
    return None


def _assigned(stmts):
    out = set()
    for s in stmts:
        for n in ast.walk(s):
            if isinstance(n, ast.Name) and isinstance(n.ctx, (ast.Store, ast.Del)):
                out.add(n.id)
    return out


class _Exec(object):
    def __init__(self, f, inline=None, max_paths=MAX_PATHS, split_calls=True, positional=False, resolver=None, depth=0, init_env=None, effects=None, folder=None):
        self.f = f
        self.init_env = init_env
        self.effects = effects
        self.folder = folder
        self.positional = positional
        self.resolver = resolver
        self.depth = depth
        self.inline = inline or {}
        self.max_paths = max_paths
        self.havoc_n = 0

    def fresh(self, name):
        self.havoc_n += 1
        return ast.Name(id='%s@%d' % (name, self.havoc_n), ctx=ast.Load())

    def sx(self, e, st):
        r = subst(e, st.env)
        if self.folder is not None:
            r = self.folder.visit(r)
        return bounded(r)

    def record_calls(self, e, st):
        """events for the calls inside expression e (evaluation order, short-circuit ignored)"""
        evs = []
        for n in _calls_postorder(e):
            sx = subst(n, st.env)
            evs.append(('call', ctext(sx), n, sx))
        return evs

    def run(self):
        env = dict(self.init_env or {})
        if self.positional:
            args = self.f.args.args
            skip = 1 if args and args[0].arg in ('self', 'cls') else 0
            for i, a in enumerate(args[skip:]):
                env[a.arg] = ast.Name(id='ARG%d' % i, ctx=ast.Load())
        init = Path(env=env)
        res = self.block(self.f.body, [init])
        out = []
        for p in res:
            if p.outcome is None:
                p = Path(p.conds, p.events, p.env, ('fall',))
            out.append(p)
        return out

    def block(self, stmts, states):
        for s in stmts:
            nxt = []
            for st in states:
                if st.outcome is not None:
                    nxt.append(st)
                else:
                    nxt.extend(self.stmt(s, st))
            states = nxt
            if len(states) > self.max_paths:
                raise TooManyPaths('%s: more than %d paths' % (self.f.name, self.max_paths))
        return states

    def branch(self, test, st):
        """-> [(state, bool)] : the state extended with the condition literals, for each way the test can come out"""
        evs = self.record_calls(test, st)
        # a test that is a call of a computing helper (`if _is_blank(x):`, `if not self._fits(n):`) is decided by the helper's paths
        inner, flip = test, False
        while isinstance(inner, ast.UnaryOp) and isinstance(inner.op, ast.Not):
            inner, flip = inner.operand, not flip
        if isinstance(inner, ast.Call) and self.resolver is not None and not getattr(self, '_in_helper_branch', False):
            vf = self.value_facts(inner, st)
            if vf is not None:
                out = []
                for conds, rv in vf:
                    st2 = Path(st.conds + conds, st.events, dict(st.env), None)
                    self._in_helper_branch = True
                    try:
                        sub = self.branch_expr(rv, test, st2, evs)
                    finally:
                        self._in_helper_branch = False
                    for s3, pol in sub:
                        out.append((s3, pol != flip))
                return out
        return self.branch_expr(self.sx(test, st), test, st, evs)

    def branch_expr(self, e, test, st, evs):
        f = cond_formula(e)
        out = []
        for pol, form in ((True, f), (False, negate(f))):
            for conj in dnf(form):
                # literals between constants are decided here (`None is None`, `0 > 1`)
                decided_false = False
                kept = []
                for lit in conj:
                    if len(lit) >= 4:
                        dm = decide_membership(lit[2])
                        if dm is not None:
                            if dm != lit[3]:
                                decided_false = True
                            continue
                    if len(lit) >= 4 and not any(isinstance(x, (ast.Name, ast.Call, ast.Attribute, ast.Subscript)) for x in ast.walk(lit[2])):
                        try:
                            from . import evalexpr as _ev
                            if bool(_ev.ev(lit[2], {})) != lit[3]:
                                decided_false = True
                            continue
                        except Exception:
                            pass
                    kept.append(lit)
                if decided_false:
                    continue
                conj = kept
                conds = st.conds + tuple((lit[0], lit[1], test, e) + tuple(lit[2:4]) for lit in conj)
                # drop contradictory paths (same literal with both polarities)
                seen = {}
                ok = True
                for c in conds:
                    t, p = c[0], c[1]
                    if seen.setdefault(t, p) != p:
                        ok = False
                        break
                if ok:
                    out.append((Path(conds, st.events + tuple(evs), dict(st.env), None), pol))
        return out

    def effect_prepass(self, exprs, st):
        """Calls selected by self.effects (reads / appends on the stream object) get a symbol each, in evaluation order;
        the statement then sees the symbol instead of the call."""
        calls = [c for e in exprs if e is not None for c in _effects_postorder(e) if self.effects(c)]
        if not calls:
            return st
        env = dict(st.env)
        eff = dict(env.get('#eff') or {})
        env['#eff'] = eff
        n = env.get('#n', 0)
        events = st.events
        for c in calls:
            n += 1
            sym = '@%s#%d' % (_callee_name(c) if isinstance(c, ast.Call) else c.attr, n)
            sx = subst(c, env)      # arguments see the symbols of earlier effects
            eff[getattr(c, '_oid', id(c))] = sym
            events = events + (('effect', sym, c, sx),)
        env['#n'] = n
        return Path(st.conds, events, env, None)

    def has_effect(self, e):
        return e is not None and any(self.effects(c) for c in _effects_postorder(e))

    def short_circuit(self, s):
        """A statement whose expression evaluates a stream effect only conditionally (`a and read()`, `x if c else read()`) is
        rewritten into nested ifs, so that the effect belongs to the paths that really evaluate it."""
        def mk_if(test, body, orelse):
            n = ast.If(test=test, body=body, orelse=orelse)
            ast.copy_location(n, s)
            n._orig = getattr(s, '_orig', s)
            return n

        def with_value(v):
            if isinstance(s, ast.If):
                return None
            if isinstance(s, ast.Return):
                n = ast.Return(value=v)
            elif isinstance(s, ast.Expr):
                n = ast.Expr(value=v)
            elif isinstance(s, ast.Assign):
                n = ast.Assign(targets=s.targets, value=v)
            elif isinstance(s, ast.AugAssign):
                n = ast.AugAssign(target=s.target, op=s.op, value=v)
            else:
                return None
            ast.copy_location(n, s)
            n._orig = getattr(s, '_orig', s)
            return n
        if isinstance(s, ast.If):
            t = s.test
            if isinstance(t, ast.BoolOp) and any(self.has_effect(v) for v in t.values[1:]):
                first = t.values[0]
                rest = t.values[1] if len(t.values) == 2 else ast.BoolOp(op=t.op, values=t.values[1:])
                inner = mk_if(rest, s.body, s.orelse)
                if isinstance(t.op, ast.And):
                    return mk_if(first, [inner], s.orelse)
                return mk_if(first, s.body, [inner])
            return None
        v = getattr(s, 'value', None)
        if isinstance(v, ast.BoolOp) and any(self.has_effect(x) for x in v.values[1:]):
            first = v.values[0]
            rest = v.values[1] if len(v.values) == 2 else ast.BoolOp(op=v.op, values=v.values[1:])
            a, b = with_value(rest), with_value(first)
            if a is None:
                return None
            if isinstance(v.op, ast.And):
                return mk_if(first, [a], [b])
            return mk_if(first, [b], [a])
        if isinstance(v, ast.IfExp) and (self.has_effect(v.body) or self.has_effect(v.orelse)):
            a, b = with_value(v.body), with_value(v.orelse)
            if a is None:
                return None
            return mk_if(v.test, [a], [b])
        return None

    def stmt(self, s, st):
        if self.effects is not None:
            r = self.short_circuit(s)
            if r is not None:
                return self.stmt(r, st)
            if isinstance(s, ast.If):
                st = self.effect_prepass([s.test], st)
            elif isinstance(s, (ast.Expr, ast.Assign, ast.AnnAssign, ast.Return)):
                st = self.effect_prepass([s.value], st)
            elif isinstance(s, ast.AugAssign):
                st = self.effect_prepass([s.value], st)
        if isinstance(s, (ast.Expr, ast.Assign, ast.AugAssign, ast.AnnAssign, ast.Return, ast.Raise, ast.Delete)):
            # every simple statement leaves a marker carrying the number of conditions established before it
            st = Path(st.conds, st.events + (('stmt', len(st.conds), getattr(s, '_orig', s)),), st.env, None)
        return self._stmt(s, st)

    def value_facts(self, call, st):
        """`x = helper(args)` where the helper (resolved by the resolver) only computes: no stores, no loops, every path returns
        or raises.  -> [(condition tuple, returned expression)] for its returning paths, or None."""
        if self.resolver is None or self.depth >= 4:
            return None
        if self.folder is not None:
            # the callee may only become known after substitution and folding (`f = getattr(self, TABLE[kind]); f(..)`)
            fc = self.sx(call.func, st)
            if isinstance(fc, (ast.Name, ast.Attribute)):
                call = ast.Call(func=fc, args=call.args, keywords=call.keywords)
        g = self.resolver(call)
        if g is None or g is self.f:
            return None
        params = [a.arg for a in g.args.args]
        if params and params[0] in ('self', 'cls') and isinstance(call.func, ast.Attribute):
            params = params[1:]
        env = {}
        for pn, a in zip(params, call.args):
            env[pn] = self.sx(a, st)
        for k in call.keywords:
            if k.arg:
                env[k.arg] = self.sx(k.value, st)
        if len(env) < len(params) - len(g.args.defaults):
            return None
        for pn, d in zip(params[len(params) - len(g.args.defaults):], g.args.defaults):
            env.setdefault(pn, clone(d))
        try:
            ps = _Exec(g, max_paths=64, resolver=self.resolver, depth=self.depth + 1, init_env=env, folder=self.folder).run()
        except TooManyPaths:
            return None
        if any(ev[0] in ('store', 'loop') for p in ps for ev in p.events):
            return None
        rets = [p for p in ps if p.outcome[0] == 'return']
        if not rets or any(p.outcome[0] not in ('return', 'raise') for p in ps) or len(rets) > 8:
            return None
        dm = getattr(g, '_mod', None)
        if dm is not None:
            for p in rets:
                for x in ast.walk(p.outcome[3]):
                    if isinstance(x, ast.Name) and not hasattr(x, '_defmod'):
                        x._defmod = dm
        return [(p.conds, p.outcome[3]) for p in rets]

    def checker_facts(self, call, st):
        """`self.helper(args)` / `helper(args)` used as a statement where the helper only checks (raises or returns
        nothing, no stores, no loops): the conditions under which it returns hold afterwards.  -> list of condition
        tuples (one per returning path of the helper) or None when the call is not such a helper."""
        if self.resolver is None:
            return None
        g = self.resolver(call)
        if g is None or g is self.f:
            return None
        if self.depth >= 3:
            return None
        params = [a.arg for a in g.args.args]
        if params and params[0] in ('self', 'cls') and isinstance(call.func, ast.Attribute):
            params = params[1:]
        env = {}
        for pn, a in zip(params, call.args):
            env[pn] = self.sx(a, st)
        for k in call.keywords:
            if k.arg:
                env[k.arg] = self.sx(k.value, st)
        if len(env) < len(params):
            return None
        try:
            ps = _Exec(g, max_paths=64, resolver=self.resolver, depth=self.depth + 1, init_env=env, folder=self.folder).run()
        except TooManyPaths:
            return None
        if any(ev[0] in ('store', 'loop') for p in ps for ev in p.events):
            return None
        rets = [p for p in ps if p.outcome[0] != 'raise']
        if not any(p.outcome[0] == 'raise' for p in ps) and not any(p.conds for p in rets):
            return None       # nothing is checked (a helper whose own checker calls were folded into its paths still carries their facts)
        if not rets or any(p.outcome[0] == 'return' and p.outcome[1] != 'None' for p in rets):
            return None
        return [p.conds for p in rets]

    def guard_facts(self, call, st):
        """`x = self.take(n)` / `self.take(n)` where the helper checks and then changes state (raises on some path, stores on
        the others): the conditions it established *before its first store* held at the time of the call.  They are
        recorded as historic facts (text suffixed with ` @before <helper>`), never as facts about the state afterwards.
        -> list of condition tuples (one per distinct returning path prefix) or None."""
        if self.resolver is None or self.depth >= 3:
            return None
        g = self.resolver(call)
        if g is None or g is self.f:
            return None
        params = [a.arg for a in g.args.args]
        if params and params[0] in ('self', 'cls') and isinstance(call.func, ast.Attribute):
            params = params[1:]
        env = {}
        for pn, a in zip(params, call.args):
            env[pn] = self.sx(a, st)
        for k in call.keywords:
            if k.arg:
                env[k.arg] = self.sx(k.value, st)
        if len(env) < len(params):
            return None
        try:
            ps = _Exec(g, max_paths=64, resolver=self.resolver, depth=self.depth + 1, init_env=env, folder=self.folder).run()
        except TooManyPaths:
            return None
        if not any(p.outcome[0] == 'raise' for p in ps) or any(ev[0] == 'loop' for p in ps for ev in p.events):
            return None
        out, seen = [], set()
        for p in ps:
            if p.outcome[0] == 'raise':
                continue
            k = len(p.conds)
            for ev in p.events:
                if ev[0] == 'store':
                    k = min(k, ev[4]) if len(ev) > 4 and isinstance(ev[4], int) else 0
                    break
            facts = tuple((c[0] + ' @before ' + g.name,) + tuple(c[1:]) for c in p.conds[:k])
            key = tuple((c[0], c[1]) for c in facts)
            if key not in seen:
                seen.add(key)
                out.append(facts)
        if not any(out):
            return None
        return out

    def _stmt(self, s, st):
        if isinstance(s, ast.Expr):
            if isinstance(s.value, ast.Constant):
                return [st]
            if isinstance(s.value, ast.Call):
                facts = self.checker_facts(s.value, st)
                if facts is None:
                    facts = self.guard_facts(s.value, st)
                if facts is not None:
                    evs = self.record_calls(s.value, st)
                    return [Path(st.conds + f, st.events + tuple(evs), st.env, None) for f in facts]
            evs = self.record_calls(s.value, st)
            env = st.env
            # x.append(y) / x.extend(y) etc. change x: later reads of an alias would be stale -> keep text, note event
            return [Path(st.conds, st.events + tuple(evs), env, None)]
        if isinstance(s, ast.Delete):
            evs = tuple(('store', 'del %s' % ctext(subst(t, st.env)), s, None, len(st.conds)) for t in s.targets)
            return [Path(st.conds, st.events + evs, st.env, None)]
        if isinstance(s, (ast.Pass, ast.Global, ast.Nonlocal, ast.Import, ast.ImportFrom, ast.Assert)):
            return [st]
        if isinstance(s, (ast.Assign, ast.AnnAssign)):
            if s.value is None:
                return [st]
            targets = s.targets if isinstance(s, ast.Assign) else [s.target]
            if isinstance(s.value, ast.IfExp):
                out = []
                for st2, pol in self.branch(s.value.test, st):
                    s2 = ast.Assign(targets=targets, value=None) if isinstance(s, ast.Assign) else ast.AnnAssign(target=s.target, annotation=s.annotation, value=None, simple=1)
                    s2.value = s.value.body if pol else s.value.orelse
                    s2._orig = s
                    out.extend(self._stmt(s2, st2))
                return out
            evs = self.record_calls(s.value, st)
            if isinstance(s.value, ast.Call) and self.resolver is not None:
                vf = self.value_facts(s.value, st)
                if vf is not None:
                    out = []
                    for conds, rv in vf:
                        env = dict(st.env)
                        events = st.events + tuple(evs)
                        for tg in targets:
                            self.assign(tg, rv, env, st, s)
                            if isinstance(tg, (ast.Attribute, ast.Subscript)):
                                events = events + (('store', '%s = %s' % (ctext(subst(tg, st.env)), ctext(rv)), s, rv, len(st.conds) + len(conds), subst(tg, st.env)),)
                        out.append(Path(st.conds + conds, events, env, None))
                    return out
            v = self.sx(s.value, st)
            hist = self.guard_facts(s.value, st) if isinstance(s.value, ast.Call) and self.resolver is not None else None
            out = []
            for facts in (hist or [()]):
                env = dict(st.env)
                events = st.events + tuple(evs)
                for tg in targets:
                    self.assign(tg, v, env, st, s)
                    if isinstance(tg, (ast.Attribute, ast.Subscript)):
                        events = events + (('store', '%s = %s' % (ctext(subst(tg, st.env)), ctext(v)), s, v, len(st.conds) + len(facts), subst(tg, st.env)),)
                out.append(Path(st.conds + facts, events, env, None))
            return out
        if isinstance(s, ast.AugAssign):
            evs = self.record_calls(s.value, st)
            env = dict(st.env)
            events = st.events + tuple(evs)
            if isinstance(s.target, ast.Name):
                cur = env.get(s.target.id) or ast.Name(id=s.target.id, ctx=ast.Load())
                env[s.target.id] = ast.BinOp(clone(cur), s.op, self.sx(s.value, st))
            else:
                events = events + (('store', '%s %s= %s' % (ctext(subst(s.target, st.env)), type(s.op).__name__, ctext(self.sx(s.value, st))), s, None, len(st.conds), subst(s.target, st.env)),)
            return [Path(st.conds, events, env, None)]
        if isinstance(s, ast.Return):
            if s.value is None:
                return [Path(st.conds, st.events, st.env, ('return', 'None', s, ast.Constant(None)))]
            evs = self.record_calls(s.value, st)
            if isinstance(s.value, ast.Call) and self.resolver is not None:
                vf = self.value_facts(s.value, st)
                if vf is not None:
                    return [Path(st.conds + conds, st.events + tuple(evs), st.env, ('return', ctext(rv), s, rv)) for conds, rv in vf]
            # a conditional expression in a return splits the path
            if isinstance(s.value, ast.IfExp):
                out = []
                for st2, pol in self.branch(s.value.test, st):
                    arm = s.value.body if pol else s.value.orelse
                    out.append(Path(st2.conds, st2.events + tuple(self.record_calls(arm, st2)), st2.env, ('return', ctext(self.sx(arm, st2)), s, self.sx(arm, st2))))
                return out
            return [Path(st.conds, st.events + tuple(evs), st.env, ('return', ctext(self.sx(s.value, st)), s, self.sx(s.value, st)))]
        if isinstance(s, ast.Raise):
            name, text = 'reraise', ''
            if s.exc is not None:
                e = s.exc
                if isinstance(e, ast.Call):
                    name = u(e.func).split('.')[-1]
                    ef = error_factory(self.f, e.func)
                    if ef is not None:
                        name = u(ef[0]).split('.')[-1]      # raise <helper>(..): the class the helper constructs
                    text = ctext(self.sx(e, st))
                else:
                    name = u(e)
                    bound = st.env.get(name) if isinstance(e, ast.Name) else None
                    if isinstance(bound, ast.Call):
                        name = u(bound.func).split('.')[-1]
            return [Path(st.conds, st.events, st.env, ('raise', name, text, s))]
        if isinstance(s, ast.If):
            out = []
            for st2, pol in self.branch(s.test, st):
                out.extend(self.block(s.body if pol else s.orelse, [st2]))
            return out
        if isinstance(s, (ast.For, ast.While)):
            env = dict(st.env)
            extra_conds = ()
            # names written in the loop only by augmented assignment keep their None-ness: None stays None (x += 1 would
            # raise), anything else never becomes None
            aug_only = set()
            plain = set()
            for st2 in s.body + s.orelse:
                for n2 in ast.walk(st2):
                    if isinstance(n2, ast.AugAssign) and isinstance(n2.target, ast.Name):
                        aug_only.add(n2.target.id)
                    elif isinstance(n2, ast.Name) and isinstance(n2.ctx, (ast.Store, ast.Del)):
                        par = None
                        plain.add(n2.id)
            # (the Store context of an AugAssign target is also seen by the second clause: separate them)
            plain_assigned = set()
            for st2 in s.body + s.orelse:
                for n2 in ast.walk(st2):
                    if isinstance(n2, (ast.Assign, ast.AnnAssign, ast.For, ast.comprehension, ast.With, ast.NamedExpr, ast.ExceptHandler, ast.Delete)):
                        tg2 = []
                        if isinstance(n2, ast.Assign):
                            tg2 = n2.targets
                        elif isinstance(n2, (ast.AnnAssign, ast.For, ast.comprehension, ast.NamedExpr)):
                            tg2 = [n2.target]
                        elif isinstance(n2, ast.Delete):
                            tg2 = n2.targets
                        elif isinstance(n2, ast.With):
                            tg2 = [i2.optional_vars for i2 in n2.items if i2.optional_vars is not None]
                        elif isinstance(n2, ast.ExceptHandler) and n2.name:
                            plain_assigned.add(n2.name)
                        for t2 in tg2:
                            for x2 in ast.walk(t2):
                                if isinstance(x2, ast.Name):
                                    plain_assigned.add(x2.id)
            aug_only -= plain_assigned
            for nm in _assigned(s.body + s.orelse) | (_assigned([s.target]) if isinstance(s, ast.For) else set()):
                cur = env.get(nm)
                if nm in aug_only and isinstance(cur, ast.Constant) and cur.value is None:
                    continue
                sym = self.fresh(nm)
                if nm in aug_only and isinstance(cur, ast.AST) and not (isinstance(cur, ast.Name) and '@' not in cur.id):
                    if isinstance(cur, ast.Constant):
                        t2, p2 = _cmp(sym, ast.Is(), ast.Constant(None))
                        test2 = ast.Compare(sym, [ast.Is()], [ast.Constant(None)])
                        extra_conds = extra_conds + ((t2, not p2, test2, test2, test2, False),)
                env[nm] = sym
            hdr = s.iter if isinstance(s, ast.For) else s.test
            evs = self.record_calls(hdr, st)
            start = Path(st.conds + extra_conds, (), env, None)
            body_paths = [bp if bp.outcome is not None else Path(bp.conds, bp.events, bp.env, ('fall',)) for bp in self.block(s.body, [start])]
            # the loop as one event carrying its body summaries; returns / raises inside the body are exits of the function
            ev = ('loop', ctext(self.sx(hdr, st)), s, body_paths)
            out = []
            after_events = st.events + tuple(evs) + (ev,)
            inner = []
            for bp in body_paths:
                inner.extend(bp.events)
                if bp.outcome is not None and bp.outcome[0] in ('return', 'raise'):
                    out.append(Path(bp.conds, after_events + bp.events, bp.env, bp.outcome))
            # events of the body are visible (flattened, marked) to ordering rules
            flat = tuple(('in-loop:' + e[0],) + tuple(e[1:]) for e in _dedupe(inner))
            cont = Path(st.conds, after_events + flat + (('endloop', '', s),), env, None)
            if s.orelse:
                out.extend(self.block(s.orelse, [cont]))
            else:
                out.append(cont)
            return out
        if isinstance(s, ast.Try):
            body_paths = self.block(s.body, [st])
            out = []
            havoc = _assigned(s.body)
            for bp in body_paths:
                if bp.outcome is None and s.orelse:
                    out.extend(self.block(s.orelse, [bp]))
                else:
                    out.append(bp)
            for h in s.handlers:
                env = dict(st.env)
                for nm in havoc:
                    env[nm] = self.fresh(nm)
                if h.name:
                    env[h.name] = None
                hs = Path(st.conds, st.events + (('except', u(h.type) if h.type is not None else '*', h),), env, None)
                out.extend(self.block(h.body, [hs]))
            if s.finalbody:
                fin = []
                for p in out:
                    oc = p.outcome
                    for q in self.block(s.finalbody, [Path(p.conds, p.events, p.env, None)]):
                        fin.append(q if q.outcome is not None else Path(q.conds, q.events, q.env, oc))
                out = fin
            return out
        if isinstance(s, ast.With):
            evs = []
            for it in s.items:
                evs.extend(self.record_calls(it.context_expr, st))
            env = dict(st.env)
            for it in s.items:
                if it.optional_vars is not None:
                    for nm in _assigned([it.optional_vars]):
                        env[nm] = self.fresh(nm)
            return self.block(s.body, [Path(st.conds, st.events + tuple(evs), env, None)])
        if isinstance(s, (ast.Break, ast.Continue)):
            return [Path(st.conds, st.events, st.env, (type(s).__name__.lower(),))]
        if isinstance(s, (ast.FunctionDef, ast.ClassDef)):
            return [st]
        return [st]

    def assign(self, tg, v, env, st, stmt):
        if isinstance(tg, ast.Name):
            # a value produced by a call that may have effects is kept as the call text only when it is the
            # sole occurrence; it is fine for canonical texts (never re-evaluated)
            env[tg.id] = v
        elif isinstance(tg, (ast.Tuple, ast.List)):
            if isinstance(v, (ast.Tuple, ast.List)) and len(v.elts) == len(tg.elts) and not any(isinstance(x, ast.Starred) for x in tg.elts):
                for t2, v2 in zip(tg.elts, v.elts):
                    self.assign(t2, v2, env, st, stmt)
            else:
                for i, t2 in enumerate(tg.elts):
                    if isinstance(t2, ast.Starred):
                        for nm in _assigned([t2]):
                            env[nm] = self.fresh(nm)
                    else:
                        self.assign(t2, ast.Subscript(clone(v), ast.Constant(i), ast.Load()), env, st, stmt)


def _dedupe(evs):
    seen = set()
    out = []
    for e in evs:
        k = (e[0], e[1], id(e[2]))  # noqa
        if k not in seen:
            seen.add(k)
            out.append(e)
    return out


def _effects_postorder(e):
    """Calls and (non-callee) attribute reads of e in evaluation order."""
    res = []

    class V(ast.NodeVisitor):
        def visit_Call(s, n):
            if isinstance(n.func, ast.Attribute):
                s.visit(n.func.value)
            else:
                s.visit(n.func)
            for a in n.args:
                s.visit(a)
            for k in n.keywords:
                s.visit(k.value)
            res.append(n)

        def visit_Attribute(s, n):
            s.visit(n.value)
            if isinstance(n.ctx, ast.Load):
                res.append(n)

        def visit_Lambda(s, n):
            pass
    V().visit(e)
    return res


def _calls_postorder(e):
    res = []

    class V(ast.NodeVisitor):
        def visit_Call(s, n):
            s.visit(n.func)
            for a in n.args:
                s.visit(a)
            for k in n.keywords:
                s.visit(k.value)
            res.append(n)

        def visit_Lambda(s, n):
            pass
    V().visit(e)
    return res


def with_loop_bodies(ps):
    """The given paths plus, for every loop met on them, the paths of one generic iteration of its body
    (conditions of the enclosing path prefixed), recursively."""
    out = []
    seen = set()

    def add(p, prefix):
        out.append(p)
        for ev in p.events:
            if ev[0] in ('loop', 'in-loop:loop') and len(ev) > 3 and id(ev[3]) not in seen:
                seen.add(id(ev[3]))
                for bp in ev[3]:
                    add(bp, ())       # body paths start from the conditions of the enclosing path at loop entry
    for p in ps:
        add(p, ())
    return out


_CACHE = {}
_DEPTH = [0]


def literal_consts(f):
    """{name: Constant} for the module-level names read by f that are bound once, at module level, to a literal"""
    mod = getattr(f, '_mod', None)
    if mod is None:
        return {}
    local = _assigned(f.body) | {a.arg for a in f.args.args + f.args.kwonlyargs}
    out = {}
    for n in ast.walk(f):
        if isinstance(n, ast.Name) and isinstance(n.ctx, ast.Load) and n.id not in local and n.id not in out:
            r = mod.resolve_name(n.id)
            if isinstance(r, tuple) and r[0] == 'const' and isinstance(r[1], ast.Constant) and isinstance(r[1].value, (str, int, bool, type(None))):
                out[n.id] = r[1]
    return out


def paths(f, max_paths=MAX_PATHS, positional=False, resolver=None, effects=None, consts=False):
    """Path summaries of function f (cached per function node).  positional=True names the parameters
    ARG0, ARG1, ... (after self) so that summaries do not depend on parameter names.  consts=True reads module-level
    literal constants by value (`x != UNBOUND` is the same condition as `x != 'MIN'`)."""
    key = (id(f), positional, id(resolver), id(effects), consts)
    if key not in _CACHE:
        try:
            _DEPTH[0] += 1
            try:
                _CACHE[key] = (f, _Exec(f, max_paths=max_paths, positional=positional, resolver=resolver, depth=_DEPTH[0], effects=effects,
                                        init_env=(literal_consts(f) if consts else None)).run(), resolver, effects)
            finally:
                _DEPTH[0] -= 1
        except TooManyPaths:
            _CACHE[key] = (f, None, resolver, effects)     # the key holds ids: keep the objects alive
    return _CACHE[key][1]


_RESOLVERS = {}


def class_resolver(cls, keep=()):
    """resolver for paths(): self.m(...) -> the method m of cls (MRO), f(...) -> module-level function of cls's module.
    keep: names of methods that are not looked into (the predicates a rule reasons about, e.g. is_in_range).
    One resolver object per (class, keep), so that path summaries are cached across rules."""
    key = (id(cls), tuple(keep))
    if key in _RESOLVERS and _RESOLVERS[key][0] is cls:
        return _RESOLVERS[key][1]

    def resolve(call):
        fn = call.func
        if keep and _callee_name(call) in keep:
            return None
        if isinstance(fn, ast.Attribute) and isinstance(fn.value, ast.Name) and fn.value.id == 'self':
            r = cls.find_method(fn.attr)
            return r[1] if r else None
        if isinstance(fn, ast.Attribute) and isinstance(fn.value, ast.Call) and isinstance(fn.value.func, ast.Name) and fn.value.func.id == 'super':
            # super(C, self).m(..) / super().m(..): the next definition of m after C in the MRO of the analysed class
            after = None
            if fn.value.args and isinstance(fn.value.args[0], ast.Name):
                r0 = cls.mod.resolve_name(fn.value.args[0].id)
                after = r0 if hasattr(r0, 'mro') else None
                if after is None:
                    after = next((c for c in cls.mro() if c.name == fn.value.args[0].id), None)
            else:
                cur = getattr(call, '_parent', None)
                while cur is not None and not isinstance(cur, ast.FunctionDef):
                    cur = getattr(cur, '_parent', None)
                after = getattr(cur, '_cls', None) if cur is not None else None
            if after is None or after not in cls.mro():
                return None
            r = cls.find_method(fn.attr, after=after)
            return r[1] if r else None
        if isinstance(fn, ast.Name):
            r = cls.mod.resolve_name(fn.id)
            return r if isinstance(r, ast.FunctionDef) else None
        return None
    _RESOLVERS[key] = (cls, resolve)
    return resolve


def module_resolver(mod):
    """resolver for paths() of a module-level function: f(...) -> the function f of that module (one object per module)"""
    key = ('mod', id(mod))
    if key in _RESOLVERS and _RESOLVERS[key][0] is mod:
        return _RESOLVERS[key][1]

    def resolve(call):
        fn = call.func
        if isinstance(fn, ast.Name):
            r = mod.resolve_name(fn.id)
            return r if isinstance(r, ast.FunctionDef) else None
        return None
    _RESOLVERS[key] = (mod, resolve)
    return resolve


def reaching(ps, node):
    """(path, conditions established before) for every path that executes the simple statement `node`."""
    out = []
    for p in with_loop_bodies(ps):
        for ev in p.events:
            if ev[0] == 'stmt' and ev[2] is node:
                out.append((p, p.conds[:ev[1]]))
                break
    return out


def returns(f):
    ps = paths(f)
    return None if ps is None else [p for p in ps if p.outcome[0] == 'return']


def raises(f):
    ps = paths(f)
    return None if ps is None else [p for p in ps if p.outcome[0] == 'raise']


# ------------------------------------------------------------------ local views
class View(object):
    """Alias-resolved view of one function: ctext_at(node) gives the canonical text of an expression with the
    single-assignment locals of the function replaced by what they hold."""

    def __init__(self, f):
        self.f = f
        counts = {}
        values = {}
        params = {a.arg for a in f.args.args + f.args.kwonlyargs + f.args.posonlyargs}
        for n in walk_no_nested(f):
            if isinstance(n, ast.Assign) and len(n.targets) == 1 and isinstance(n.targets[0], ast.Name):
                counts[n.targets[0].id] = counts.get(n.targets[0].id, 0) + 1
                values[n.targets[0].id] = n.value
            elif isinstance(n, ast.Assign):
                for t in n.targets:
                    for x in ast.walk(t):
                        if isinstance(x, ast.Name) and isinstance(x.ctx, ast.Store):
                            counts[x.id] = counts.get(x.id, 0) + 2
            elif isinstance(n, (ast.AugAssign, ast.AnnAssign)) and isinstance(n.target, ast.Name):
                counts[n.target.id] = counts.get(n.target.id, 0) + 2
            elif isinstance(n, (ast.For, ast.comprehension)):
                for x in ast.walk(n.target):
                    if isinstance(x, ast.Name):
                        counts[x.id] = counts.get(x.id, 0) + 2
            elif isinstance(n, ast.With):
                for it in n.items:
                    if it.optional_vars is not None:
                        for x in ast.walk(it.optional_vars):
                            if isinstance(x, ast.Name):
                                counts[x.id] = counts.get(x.id, 0) + 2
            elif isinstance(n, ast.ExceptHandler) and n.name:
                counts[n.name] = counts.get(n.name, 0) + 2
            elif isinstance(n, ast.NamedExpr):
                counts[n.target.id] = counts.get(n.target.id, 0) + 2
        self.alias = {}
        for nm, c in counts.items():
            if c == 1 and nm not in params and _pure(values[nm]):
                self.alias[nm] = values[nm]
        # resolve transitively (bounded)
        for _ in range(4):
            for nm in list(self.alias):
                self.alias[nm] = subst(self.alias[nm], {k: v for k, v in self.alias.items() if k != nm})

    def expr(self, node):
        return subst(node, self.alias)

    def text(self, node):
        return ctext(self.expr(node))

    def cond(self, node):
        return ccond(node, self.alias)


def _pure(e):
    for n in ast.walk(e):
        if isinstance(n, (ast.Lambda, ast.Yield, ast.YieldFrom, ast.Await, ast.NamedExpr)):
            return False
    return True


def callee_name(call):
    return _callee_name(call)


def error_factory(f, fn):
    """`raise helper(...)`: when `fn` (the callee expression of the raised call, in function f) is a function of f's module or a
    method of f's class all of whose returns construct an exception, the expression that names that exception class (and the
    function), else None."""
    g = None
    mod = getattr(f, '_mod', None)
    cls = getattr(f, '_cls', None)
    if isinstance(fn, ast.Name) and mod is not None:
        r = mod.resolve_name(fn.id)
        g = r if isinstance(r, ast.FunctionDef) else None
    elif isinstance(fn, ast.Attribute) and isinstance(fn.value, ast.Name) and fn.value.id in ('self', 'cls') and cls is not None:
        r = cls.find_method(fn.attr)
        g = r[1] if r else None
    elif isinstance(fn, ast.Attribute) and mod is not None:
        r = mod.resolve(fn)
        g = r if isinstance(r, ast.FunctionDef) else None
    if g is None:
        return None
    rets = [x for x in walk_no_nested(g) if isinstance(x, ast.Return) and x.value is not None]
    if not rets or not all(isinstance(x.value, ast.Call) for x in rets):
        return None
    names = {u(x.value.func) for x in rets}
    if len(names) != 1:
        return None
    return rets[0].value.func, g


def method_calls(f, name, view=None):
    """Calls of a method/function called `name` in f, including calls through a local bound-method alias
    (`read = self.read_byte; read()`)."""
    view = view or View(f)
    out = []
    for n in walk_no_nested(f):
        if not isinstance(n, ast.Call):
            continue
        fn = n.func
        if isinstance(fn, ast.Name) and fn.id in view.alias:
            fn = view.alias[fn.id]
        if (isinstance(fn, ast.Attribute) and fn.attr == name) or (isinstance(fn, ast.Name) and fn.id == name):
            out.append(n)
    return out


def raised_names(stmts, f):
    """Names of the exception classes raised by the statements (a handler body, say) of function f: `raise E(..)`, `raise E`,
    and `raise factory(..)` where the factory's returns all construct one exception class.  A bare re-raise gives 'reraise'."""
    out = set()
    for s in stmts:
        for r in ast.walk(s):
            if not isinstance(r, ast.Raise):
                continue
            if r.exc is None:
                out.add('reraise')
                continue
            e = r.exc
            if isinstance(e, ast.Call):
                ef = error_factory(f, e.func)
                if ef is not None:
                    out.add(u(ef[0]).split('.')[-1])
                else:
                    out.add(u(e.func).split('.')[-1])
            else:
                out.add(u(e).split('.')[-1])
    return out
