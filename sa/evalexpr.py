"""The checker's own evaluator of closed integer expressions and comparison chains extracted from the
repository's syntax trees (E1b, decision tables of E5).  It never touches repository code objects:
it interprets ast nodes over a dict of integer bindings."""
import ast

from .model import AnalysisError


class Unsupported(AnalysisError):
    pass


class PyRaise(Exception):
    """the evaluated code would raise this built-in exception here (an index out of range, a missing key): caught by a try statement of the
    evaluated function, otherwise it ends the evaluation like a raise statement"""
    def __init__(self, name):
        Exception.__init__(self, name)
        self.name = name


class ExcValue(object):
    """an exception object of the analysed package as a value (built by a helper, raised later)"""
    def __init__(self, name, mro, obj):
        self.name, self.mro, self.obj = name, mro, obj


class Obj(dict):
    """a record standing for an object of the analysed program: attribute name -> value (handed to the evaluator by a rule)"""


class LocalFunction(object):
    """a function defined inside the function under evaluation"""
    def __init__(self, node):
        self.node = node


class Inst(object):
    """an object the evaluated code constructs itself from a class of the analysed package (a small helper class such as a range or a named record): the class (sa.model
    ClassInfo) and the attribute values its methods have stored"""
    def __init__(self, cls):
        self.cls = cls
        self.attrs = {}

    def __repr__(self):
        return '<%s %r>' % (getattr(self.cls, 'name', '?'), self.attrs)


def _is_property(g):
    return any((isinstance(d, ast.Name) and d.id == 'property') or (isinstance(d, ast.Attribute) and d.attr in ('getter',)) for d in g.decorator_list)


def _call_method(inst, g, args, kwargs, env):
    """run method g of the package class with self = inst (an Inst)"""
    params = [a.arg for a in g.args.args]
    is_static = any(isinstance(d, ast.Name) and d.id == 'staticmethod' for d in g.decorator_list)
    genv = {k: v for k, v in env.items() if isinstance(k, str) and k.startswith('__') and k not in ('__mod__', '__funcs__', '__cls__')}
    if not is_static and params:
        genv[params[0]] = inst
        params = params[1:]
    if len(args) > len(params) or g.args.vararg or g.args.kwarg:
        raise Unsupported('arity of %s' % g.name)
    defaults = g.args.defaults
    for i, p_ in enumerate(params):
        if i < len(args):
            genv[p_] = args[i]
        elif p_ in kwargs:
            genv[p_] = kwargs[p_]
        else:
            j = i - (len(params) - len(defaults))
            if j < 0:
                raise Unsupported('missing argument %s of %s' % (p_, g.name))
            genv[p_] = ev(defaults[j], {})
    genv['__cls__'] = inst.cls
    rv, _out = run_function(g, genv)
    return rv


def _instantiate(cls, args, kwargs, env):
    inst = Inst(cls)
    r = cls.find_method('__init__')
    if r is not None:
        _call_method(inst, r[1], args, kwargs, env)
    elif args or kwargs:
        raise Unsupported('constructor arguments of %s' % getattr(cls, 'name', '?'))
    return inst


def _inst_attr(inst, attr, env):
    if attr in inst.attrs:
        return inst.attrs[attr]
    r = inst.cls.find_method(attr)
    if r is not None:
        if _is_property(r[1]):
            return _call_method(inst, r[1], [], {}, env)
        return ('__bound__', inst, r[1])
    a = inst.cls.find_attr(attr) if hasattr(inst.cls, 'find_attr') else None
    if a is not None:
        return ev(a[1], {'__mod__': getattr(inst.cls, 'mod', None)})
    raise PyRaise('AttributeError')


def ev(node, env):
    if isinstance(node, ast.Attribute) and not (isinstance(node.value, ast.Name) and not isinstance(env.get(node.value.id), Inst) and ast.unparse(node) in env):
        # attribute of an object the evaluated code built itself
        base = None
        if isinstance(node.value, ast.Name):
            base = env.get(node.value.id)
        elif isinstance(node.value, (ast.Attribute, ast.Call, ast.Subscript)):
            try:
                base = ev(node.value, env)
            except Unsupported:
                base = None
        if isinstance(base, Inst):
            return _inst_attr(base, node.attr, env)
        if isinstance(node.value, ast.Name) and node.value.id == 'self' and base is None and env.get('__cls__') is not None and ast.unparse(node) not in env:
            # a property of the object under evaluation (its attributes are given as 'self.<name>' bindings)
            r_ = env['__cls__'].find_method(node.attr)
            if r_ is not None and _is_property(r_[1]):
                genv = {k: v for k, v in env.items() if isinstance(k, str) and (k.startswith('self.') or (k.startswith('__') and k not in ('__mod__', '__funcs__')))}
                rv, _o = run_function(r_[1], genv)
                return rv
    if isinstance(node, ast.Call) and isinstance(node.func, ast.Attribute) and not (isinstance(node.func.value, ast.Name) and node.func.value.id == 'self'
                                                                                    and not isinstance(env.get('self'), Inst)):
        # a method of an object the evaluated code built itself
        try:
            basev = ev(node.func.value, env) if isinstance(node.func.value, (ast.Name, ast.Attribute, ast.Call, ast.Subscript)) else None
        except Unsupported:
            basev = None
        if isinstance(basev, Inst):
            r_ = basev.cls.find_method(node.func.attr)
            if r_ is None:
                raise PyRaise('AttributeError')
            return _call_method(basev, r_[1], [ev(a, env) for a in node.args], {k.arg: ev(k.value, env) for k in node.keywords if k.arg}, env)
    if isinstance(node, ast.Call) and isinstance(node.func, ast.Attribute) and isinstance(node.func.value, ast.Name) and node.func.value.id == 'self' and isinstance(env.get('self'), Inst):
        inst_ = env['self']
        r_ = inst_.cls.find_method(node.func.attr)
        if r_ is not None:
            return _call_method(inst_, r_[1], [ev(a, env) for a in node.args], {k.arg: ev(k.value, env) for k in node.keywords if k.arg}, env)
    if isinstance(node, ast.Call) and isinstance(node.func, ast.Name) and node.func.id not in env and env.get('__mod__') is not None:
        try:
            rcls = env['__mod__'].resolve_name(node.func.id)
        except Exception:
            rcls = None
        if rcls is not None and hasattr(rcls, 'find_method') and hasattr(rcls, 'mro') and not any(k_.name.endswith(('Error', 'Exception')) for k_ in rcls.mro()):      # exception objects are records (below)
            return _instantiate(rcls, [ev(a, env) for a in node.args], {k.arg: ev(k.value, env) for k in node.keywords if k.arg}, env)
    if isinstance(node, (ast.Subscript, ast.Call)):
        # bindings may be given by source text:  'data[1]', 'len(self.additions)'
        k = ast.unparse(node)
        if k in env:
            return env[k]
    if isinstance(node, ast.Constant):
        if isinstance(node.value, (int, bool, str, bytes)) or node.value is None:
            return node.value
        raise Unsupported('constant %r' % (node.value,))
    if isinstance(node, ast.List):
        return [ev(e, env) for e in node.elts]
    if isinstance(node, ast.Dict) and all(k is not None for k in node.keys):
        return {ev(k, env): ev(v, env) for k, v in zip(node.keys, node.values)}
    if isinstance(node, ast.Name):
        if node.id in env:
            return env[node.id]
        if node.id in ('True', 'False', 'None'):
            return {'True': True, 'False': False, 'None': None}[node.id]
        if env.get('__mod__') is not None:
            # a module-level table / constant of the analysed file (a literal display)
            r = env['__mod__'].resolve_name(node.id)
            if isinstance(r, tuple) and r[0] == 'const':
                return ev(r[1], {'__mod__': r[2] if len(r) > 2 else env['__mod__']})
        raise Unsupported('free name %s' % node.id)
    if isinstance(node, ast.Attribute):
        key = ast.unparse(node)
        if key in env:
            return env[key]
        if isinstance(node.value, ast.Name) and node.value.id in ('self', 'cls') and env.get('__cls__') is not None:
            # a class-level table read through the instance (self.FORMATS): a literal display in the class body
            r = env['__cls__'].find_attr(node.attr)
            if r is not None:
                return ev(r[1], {'__funcs__': env.get('__funcs__')} if env.get('__funcs__') else {})
        if isinstance(node.value, ast.Name) and node.value.id not in env and env.get('__mod__') is not None:
            # a constant of a class of the analysed package used as a namespace (Encoding.CONSTRUCTED, Class.UNIVERSAL, Tag.SET)
            try:
                owner = env['__mod__'].resolve_name(node.value.id)
            except Exception:
                owner = None
            if owner is not None and hasattr(owner, 'find_attr'):
                r = owner.find_attr(node.attr)
                if r is not None:
                    return ev(r[1], {'__mod__': getattr(owner, 'mod', env['__mod__'])})
        if isinstance(node.value, ast.Name) and isinstance(env.get(node.value.id), Obj):
            # an object of the analysed program modelled by the rule as a record of attribute values
            o = env[node.value.id]
            if node.attr in o:
                return o[node.attr]
        raise Unsupported('free attribute %s' % key)
    if isinstance(node, ast.UnaryOp):
        v = ev(node.operand, env)
        if isinstance(node.op, ast.USub):
            return -v
        if isinstance(node.op, ast.UAdd):
            return +v
        if isinstance(node.op, ast.Not):
            return not v
        if isinstance(node.op, ast.Invert):
            return ~v
    if isinstance(node, ast.BinOp):
        a, b = ev(node.left, env), ev(node.right, env)
        op = node.op
        if isinstance(op, ast.Add):
            return a + b
        if isinstance(op, ast.Sub):
            return a - b
        if isinstance(op, ast.Mult):
            return a * b
        if isinstance(op, ast.FloorDiv):
            return a // b
        if isinstance(op, ast.Mod):
            return a % b
        if isinstance(op, ast.LShift):
            return a << b
        if isinstance(op, ast.RShift):
            return a >> b
        if isinstance(op, ast.BitAnd):
            return a & b
        if isinstance(op, ast.BitOr):
            return a | b
        if isinstance(op, ast.BitXor):
            return a ^ b
        if isinstance(op, ast.Pow):
            if isinstance(a, int) and isinstance(b, int) and -2048 <= b < 0 and a in (2, 8, 10, 16):
                return float(a) ** b          # a negative power of a small base: a float, as in Python
            if b < 0 or b > 4096:
                raise Unsupported('power')
            return a ** b
        raise Unsupported('operator %s' % type(op).__name__)
    if isinstance(node, ast.BoolOp):
        if isinstance(node.op, ast.And):
            r = True
            for v in node.values:
                r = ev(v, env)
                if not r:
                    return r
            return r
        r = False
        for v in node.values:
            r = ev(v, env)
            if r:
                return r
        return r
    if isinstance(node, ast.Compare):
        left = ev(node.left, env)
        for op, c in zip(node.ops, node.comparators):
            right = ev(c, env)
            if isinstance(op, ast.Lt):
                ok = left < right
            elif isinstance(op, ast.LtE):
                ok = left <= right
            elif isinstance(op, ast.Gt):
                ok = left > right
            elif isinstance(op, ast.GtE):
                ok = left >= right
            elif isinstance(op, ast.Eq):
                ok = left == right
            elif isinstance(op, ast.NotEq):
                ok = left != right
            elif isinstance(op, ast.Is):
                ok = left is right
            elif isinstance(op, ast.IsNot):
                ok = left is not right
            elif isinstance(op, (ast.In, ast.NotIn)) and isinstance(right, (dict, list, tuple, set, str, bytes, bytearray)):
                ok = (left in right) == isinstance(op, ast.In)
            else:
                raise Unsupported('comparison %s' % type(op).__name__)
            if not ok:
                return False
            left = right
        return True
    if isinstance(node, ast.IfExp):
        return ev(node.body, env) if ev(node.test, env) else ev(node.orelse, env)
    if isinstance(node, ast.Call) and isinstance(node.func, ast.Name) and isinstance(env.get(node.func.id), LocalFunction):
        # a function defined inside the evaluated function: interpreted with the variables of the enclosing invocation visible (read-only closure)
        lf = env[node.func.id]
        params = [a.arg for a in lf.node.args.args]
        args = [ev(a, env) for a in node.args]
        if len(args) != len(params) or node.keywords:
            raise Unsupported('arity of local function %s' % node.func.id)
        genv = dict(env)
        genv.update(zip(params, args))
        r, _ = run_function(lf.node, genv)
        return r
    if isinstance(node, ast.Call) and isinstance(node.func, ast.Name) and '__funcs__' in env and node.func.id not in ('len', 'int', 'bool', 'max', 'min', 'abs', 'divmod', 'bytes', 'bytearray'):
        # a module-level function of the analysed file, interpreted by run_function (decision-table code only)
        g = env['__funcs__'](node.func.id)
        if g is not None:
            params = [a.arg for a in g.args.args]
            args = [ev(a, env) for a in node.args]
            kw_ = {k.arg: ev(k.value, env) for k in node.keywords if k.arg}
            genv = dict(zip(params, args))
            genv.update(kw_)
            defaults_ = g.args.defaults
            for prm_, d_ in zip(params[len(params) - len(defaults_):], defaults_) if defaults_ else ():
                if prm_ not in genv:
                    genv[prm_] = ev(d_, {})
            if len(args) > len(params) or any(p_ not in genv for p_ in params):
                raise Unsupported('arity of %s' % node.func.id)
            genv['__funcs__'] = env['__funcs__']
            if getattr(g, '_mod', None) is not None:
                genv['__mod__'] = g._mod
            r, _ = run_function(g, genv)
            return r
    if isinstance(node, ast.Call) and isinstance(node.func, (ast.Name, ast.Attribute)) and env.get('__mod__') is not None:
        # construction of an exception object of the analysed package: a record of the constructor arguments with the class's MRO
        try:
            owner_ = env['__mod__'].resolve(node.func)
        except Exception:
            owner_ = None
        if owner_ is not None and hasattr(owner_, 'mro') and any(k.name.endswith(('Error', 'Exception')) for k in owner_.mro()):
            init_ = owner_.find_method('__init__')
            obj_ = Obj()
            if init_ is not None:
                ps_ = [a.arg for a in init_[1].args.args][1:]
                for pn_, a_ in list(zip(ps_, node.args)) + [(k_.arg, k_.value) for k_ in node.keywords if k_.arg]:
                    try:
                        obj_[pn_] = ev(a_, env)
                    except (Unsupported, KeyError, TypeError):
                        obj_[pn_] = UNKNOWN          # a message text and the like: not needed to follow the control flow
            return ExcValue(owner_.name, [k.name for k in owner_.mro()], obj_)
    if isinstance(node, ast.Call) and env.get('__stubs__') and ast.unparse(node.func) in env['__stubs__'] and not node.keywords:
        # an operation of the environment the extracted code runs in (e.g. the next octet of a given octet string), supplied by the rule
        return env['__stubs__'][ast.unparse(node.func)](*[ev(a, env) for a in node.args])
    if isinstance(node, ast.Call) and isinstance(node.func, ast.Attribute) and isinstance(node.func.value, ast.Name) and node.func.value.id == 'self' \
            and env.get('__cls__') is not None and not node.keywords:
        # a method of the same object (decision-table helper): interpreted on the same self.* bindings
        r = env['__cls__'].find_method(node.func.attr)
        if r is not None:
            g = r[1]
            params = [a.arg for a in g.args.args]
            if params and params[0] in ('self', 'cls'):
                params = params[1:]
            args = [ev(a, env) for a in node.args]
            if len(args) != len(params):
                raise Unsupported('arity of self.%s' % node.func.attr)
            genv = {k: v for k, v in env.items() if isinstance(k, str) and (k.startswith('self.') or (k.startswith('__') and k not in ('__mod__', '__funcs__')))}      # the method's own module resolves its free names
            genv.update(zip(params, args))
            rv, out = run_function(g, genv)
            for k, v in out.items():
                if isinstance(k, str) and k.startswith('self.'):
                    env[k] = v
            return rv
    if isinstance(node, ast.Call) and isinstance(node.func, ast.Name) and node.func.id == 'isinstance' and len(node.args) == 2 and not node.keywords:
        # a test of the interpreter's own values against built-in types
        BT = {'int': int, 'str': str, 'tuple': tuple, 'list': list, 'dict': dict, 'float': float, 'bool': bool, 'bytes': bytes, 'bytearray': bytearray, 'set': set, 'frozenset': frozenset}
        tnode = node.args[1]
        tnames = [e_ for e_ in (tnode.elts if isinstance(tnode, ast.Tuple) else [tnode])]
        if all(isinstance(e_, ast.Name) and e_.id in BT and e_.id not in env for e_ in tnames):
            v_ = ev(node.args[0], env)
            if isinstance(v_, (int, str, tuple, list, dict, float, bool, bytes, bytearray, set, frozenset)) or v_ is None:
                return isinstance(v_, tuple(BT[e_.id] for e_ in tnames))
        raise Unsupported('isinstance(%s)' % ast.unparse(node)[:60])
    if isinstance(node, ast.Call) and isinstance(node.func, ast.Name):
        args = [ev(a, env) for a in node.args]
        if node.func.id == 'divmod' and len(args) == 2:
            return divmod(*args)
        if node.func.id in ('max', 'min') and len(args) == 1 and isinstance(args[0], (list, tuple, set, frozenset, dict)):
            if len(args[0]) == 0:
                raise Raised()
            return (max if node.func.id == 'max' else min)(args[0])
        if node.func.id in ('max', 'min') and args:
            return (max if node.func.id == 'max' else min)(args)
        if node.func.id == 'abs' and len(args) == 1:
            return abs(args[0])
        if node.func.id == 'int' and len(args) == 1 and isinstance(args[0], (int, float)) and not isinstance(args[0], str):
            return int(args[0])
        if node.func.id in ('max', 'min') and len(args) == 1 and isinstance(args[0], (list, tuple, set, frozenset, dict)) and len(args[0]) > 0:
            return (max if node.func.id == 'max' else min)(args[0])
        if node.func.id == 'len' and len(args) == 1 and isinstance(args[0], (list, tuple, str, bytes, bytearray, set, frozenset, dict)):
            return len(args[0])
        if node.func.id == 'bool' and len(args) == 1:
            return bool(args[0])
        if node.func.id == 'float' and len(args) == 1 and not node.keywords and isinstance(args[0], (int, float)) and not isinstance(args[0], bool):
            try:
                return float(args[0])          # the interpreter's own numbers
            except OverflowError:
                raise PyRaise('OverflowError')
        if node.func.id == 'str' and len(args) == 1 and not node.keywords and isinstance(args[0], (int, str)) and not isinstance(args[0], bool):
            return str(args[0])          # decimal text of the interpreter's own integers
        if node.func.id == 'int' and len(args) == 1 and not node.keywords and isinstance(args[0], (int, str)) and not isinstance(args[0], bool):
            if isinstance(args[0], str):
                t_ = args[0].strip()
                if not (t_.lstrip('+-').isdigit() and len(t_) < 400):
                    raise PyRaise('ValueError')
                return int(t_)
            return int(args[0])
        if node.func.id in ('sorted', 'list', 'tuple', 'reversed') and len(args) == 1 and not node.keywords and isinstance(args[0], (list, tuple, dict, set, frozenset, range)):
            # containers of the interpreter's own values (class-/module-level literal tables)
            items = list(args[0])
            if node.func.id == 'sorted':
                try:
                    return sorted(items)
                except TypeError:
                    raise Unsupported('sorted() of incomparable items')
            if node.func.id == 'reversed':
                return items[::-1]
            return tuple(items) if node.func.id == 'tuple' else items
        if node.func.id == 'dict' and len(args) <= 1 and not node.keywords:
            if not args:
                return {}
            if isinstance(args[0], dict):
                return dict(args[0])
            if isinstance(args[0], (list, tuple)) and all(isinstance(x, (list, tuple)) and len(x) == 2 for x in args[0]):
                try:
                    return dict(args[0])
                except TypeError:
                    raise Unsupported('dict() of unhashable keys')
            raise Unsupported('dict(...) of %r' % (args[0],))
        if node.func.id == 'range' and 1 <= len(args) <= 3 and not node.keywords and all(isinstance(x, int) for x in args):
            r = range(*args)
            if len(r) > 100000:
                raise Unsupported('range too long')
            return list(r)
        if node.func.id == 'enumerate' and len(args) == 1 and isinstance(args[0], (list, tuple)):
            return [(i, x) for i, x in enumerate(args[0])]
        if node.func.id == 'zip' and args and all(isinstance(x, (list, tuple)) for x in args):
            return [tuple(t) for t in zip(*args)]
        if node.func.id in ('bytearray', 'bytes') and len(args) <= 1:
            mk = bytearray if node.func.id == 'bytearray' else bytes       # the interpreter's own byte strings
            if not args:
                return mk()
            if isinstance(args[0], (list, tuple)) and all(isinstance(x, int) and 0 <= x <= 255 for x in args[0]):
                return mk(args[0])
            if isinstance(args[0], (bytes, bytearray)):
                return mk(args[0])
            raise Unsupported('bytes(...) of %r' % (args[0],))
    if isinstance(node, ast.Call) and isinstance(node.func, ast.Attribute) and node.func.attr == 'bit_length' and not node.args:
        v = ev(node.func.value, env)
        if not isinstance(v, int):
            raise Unsupported('bit_length of %s' % type(v).__name__)
        return v.bit_length()
    if isinstance(node, ast.Call) and isinstance(node.func, ast.Attribute) and node.func.attr == 'format' and not node.keywords and isinstance(node.func.value, ast.Constant) \
            and isinstance(node.func.value.value, str):
        a_ = [ev(x, env) for x in node.args]
        if all(isinstance(x, (int, str)) and not isinstance(x, bool) for x in a_):
            try:
                return node.func.value.value.format(*a_)      # text formatting of the interpreter's own integers and strings
            except (IndexError, KeyError, ValueError):
                raise Unsupported('format')
        raise Unsupported('format of %r' % (a_,))
    if isinstance(node, ast.Call) and isinstance(node.func, ast.Attribute) and node.func.attr in ('split', 'join') and not node.keywords and len(node.args) == 1:
        b = ev(node.func.value, env)
        a0 = ev(node.args[0], env)
        if node.func.attr == 'split' and isinstance(b, str) and isinstance(a0, str) and a0:
            return b.split(a0)
        if node.func.attr == 'join' and isinstance(b, str) and isinstance(a0, (list, tuple)) and all(isinstance(x, str) for x in a0):
            return b.join(a0)
        if node.func.attr == 'join' and isinstance(b, (bytes, bytearray)) and isinstance(a0, (list, tuple)) and all(isinstance(x, (bytes, bytearray)) for x in a0):
            return b.join(a0)
        raise Unsupported('%s of %s' % (node.func.attr, type(b).__name__))
    if isinstance(node, ast.Call) and isinstance(node.func, ast.Attribute) and node.func.attr in ('rstrip', 'lstrip', 'strip') and not node.keywords and len(node.args) <= 1:
        b = ev(node.func.value, env)
        a_ = [ev(x, env) for x in node.args]
        if isinstance(b, (bytes, bytearray)) and (not a_ or isinstance(a_[0], (bytes, bytearray))):
            return getattr(b, node.func.attr)(*a_)        # on the interpreter's own byte strings / text
        if isinstance(b, str) and (not a_ or isinstance(a_[0], str)):
            return getattr(b, node.func.attr)(*a_)
        raise Unsupported('%s of %s' % (node.func.attr, type(b).__name__))
    if isinstance(node, ast.Call) and isinstance(node.func, ast.Attribute) and node.func.attr in ('items', 'keys', 'values', 'get') and not node.keywords:
        b = ev(node.func.value, env)
        if isinstance(b, dict):
            a_ = [ev(x, env) for x in node.args]
            if node.func.attr == 'get' and 1 <= len(a_) <= 2:
                return b.get(*a_)
            if not a_:
                return [tuple(x) if node.func.attr == 'items' else x for x in getattr(b, node.func.attr)()]
    if isinstance(node, ast.Call) and not node.keywords or isinstance(node, ast.Call) and ast.unparse(node.func) in ('int.from_bytes',):
        # pure conversions between the interpreter's own integers, byte strings and digit strings
        fn = ast.unparse(node.func)
        if fn in ('binascii.hexlify', 'hexlify', 'binascii.unhexlify', 'unhexlify', 'bin', 'hex', 'int.from_bytes') or (fn == 'int' and len(node.args) == 2):
            import binascii as _b
            a_ = [ev(x, env) for x in node.args]
            kw_ = {k.arg: ev(k.value, env) for k in node.keywords}
            try:
                if fn.endswith('unhexlify') and len(a_) == 1 and isinstance(a_[0], (bytes, bytearray, str)):
                    return _b.unhexlify(a_[0])
                if fn.endswith('hexlify') and len(a_) == 1 and isinstance(a_[0], (bytes, bytearray)):
                    return _b.hexlify(bytes(a_[0]))
                if fn == 'bin' and len(a_) == 1 and isinstance(a_[0], int):
                    return bin(a_[0])
                if fn == 'hex' and len(a_) == 1 and isinstance(a_[0], int):
                    return hex(a_[0])
                if fn == 'int' and isinstance(a_[0], (bytes, bytearray, str)) and a_[1] in (2, 8, 10, 16):
                    return int(a_[0], a_[1])
                if fn == 'int.from_bytes' and isinstance(a_[0], (bytes, bytearray)):
                    bo = a_[1] if len(a_) > 1 else kw_.get('byteorder', 'big')
                    if bo in ('big', 'little'):
                        return int.from_bytes(bytes(a_[0]), bo, signed=bool(kw_.get('signed', False)))
            except ValueError as e:
                raise Unsupported('conversion raises: %s' % e)
            raise Unsupported('conversion %s of %s' % (fn, [type(x).__name__ for x in a_]))
    if isinstance(node, ast.Call) and isinstance(node.func, ast.Attribute) and node.func.attr == 'to_bytes':
        v = ev(node.func.value, env)
        a_ = [ev(x, env) for x in node.args]
        kw_ = {k.arg: ev(k.value, env) for k in node.keywords}
        if isinstance(v, int) and not isinstance(v, bool):
            length = a_[0] if a_ else kw_.get('length')
            bo = a_[1] if len(a_) > 1 else kw_.get('byteorder', 'big')
            if isinstance(length, int) and 0 <= length <= 4096 and bo in ('big', 'little'):
                try:
                    return v.to_bytes(length, bo, signed=bool(kw_.get('signed', False)))
                except OverflowError:
                    raise Raised()       # the repository code would raise OverflowError here
        raise Unsupported('to_bytes of %s' % type(v).__name__)
    if isinstance(node, ast.Subscript) and isinstance(node.slice, ast.Slice):
        b = ev(node.value, env)
        if isinstance(b, (list, tuple, bytes, bytearray, str)):
            lo = ev(node.slice.lower, env) if node.slice.lower is not None else None
            hi = ev(node.slice.upper, env) if node.slice.upper is not None else None
            st = ev(node.slice.step, env) if node.slice.step is not None else None
            if all(x is None or isinstance(x, int) for x in (lo, hi, st)):
                return b[lo:hi:st]
    if isinstance(node, (ast.ListComp, ast.SetComp, ast.GeneratorExp, ast.DictComp)):
        # comprehensions over the interpreter's own containers (bounded)
        out_ = []

        def gen(k, env_):
            if k == len(node.generators):
                if isinstance(node, ast.DictComp):
                    out_.append((ev(node.key, env_), ev(node.value, env_)))
                else:
                    out_.append(ev(node.elt, env_))
                return
            g_ = node.generators[k]
            it_ = ev(g_.iter, env_)
            if isinstance(it_, dict):
                it_ = list(it_)
            if not isinstance(it_, (list, tuple, set, frozenset, range, bytes, bytearray)):
                raise Unsupported('comprehension over %s' % type(it_).__name__)
            if len(it_) > 10000:
                raise Unsupported('comprehension too long')
            for item in it_:
                e2 = dict(env_)
                if isinstance(g_.target, ast.Name):
                    e2[g_.target.id] = item
                elif isinstance(g_.target, (ast.Tuple, ast.List)) and all(isinstance(x, ast.Name) for x in g_.target.elts) and len(g_.target.elts) == len(item):
                    for x, v_ in zip(g_.target.elts, item):
                        e2[x.id] = v_
                else:
                    raise Unsupported('comprehension target')
                if all(ev(c_, e2) for c_ in g_.ifs):
                    gen(k + 1, e2)
        gen(0, env)
        if isinstance(node, ast.SetComp):
            return set(out_)
        if isinstance(node, ast.DictComp):
            return dict(out_)
        return out_
    if isinstance(node, ast.Call) and isinstance(node.func, ast.Name) and node.func.id in ('set', 'frozenset', 'sum', 'any', 'all') and len(node.args) == 1 and not node.keywords:
        a0 = ev(node.args[0], env)
        if isinstance(a0, (list, tuple, set, frozenset, dict)):
            if node.func.id in ('set', 'frozenset'):
                return set(a0)
            if node.func.id == 'sum' and all(isinstance(x, int) for x in a0):
                return sum(a0)
            if node.func.id in ('any', 'all'):
                return (any if node.func.id == 'any' else all)(a0)
    if isinstance(node, ast.Tuple):
        return tuple(ev(e, env) for e in node.elts)
    if isinstance(node, ast.Subscript) and not isinstance(node.slice, ast.Slice):
        b = ev(node.value, env)
        i = ev(node.slice, env)
        if isinstance(b, (list, tuple, bytes, bytearray)) and isinstance(i, int) and -len(b) <= i < len(b):
            return b[i]
        if isinstance(b, (list, tuple, bytes, bytearray, str)) and isinstance(i, int):
            if isinstance(b, str) and -len(b) <= i < len(b):
                return b[i]
            raise PyRaise('IndexError')          # inside a try the handlers see it; outside it leaves the function as it would in Python
        if isinstance(b, dict):
            if i not in b and env.get('__try__'):
                raise PyRaise('KeyError')
            return b[i]       # KeyError propagates: the caller decides what a missing key means
    raise Unsupported(ast.dump(node)[:80])


class Ret(Exception):
    def __init__(self, v):
        self.v = v


class Raised(Exception):
    """the evaluated function raises; .name is the class named in the raise statement (or the built-in exception), '' when unknown; .mro the names of
    that class and its bases when it is a class of the analysed package; .obj a record of the constructor arguments by parameter name (e.offset, ...)"""
    def __init__(self, name='', mro=None, obj=None):
        Exception.__init__(self, name)
        self.name = name
        self.mro = mro or [name]
        self.obj = obj


class _Unknown(object):
    """value of something the evaluator could not compute (tolerant mode); any use of it is Unsupported"""
    def __repr__(self):
        return '<unknown>'


UNKNOWN = _Unknown()


def run_function(f, env, max_steps=10000, skip_calls=False, tolerant=False, skip_super=False):
    """Interpret a *decision-table* function: if/elif chains of comparisons that assign or return
    constants / simple arithmetic.  Supports Assign, AugAssign, If, Return, Raise, Pass, Expr(docstring),
    While loops with integer arithmetic (bounded).  Returns the returned value; raises Raised on raise."""
    env = dict(env)
    steps = [0]
    if isinstance(f, ast.FunctionDef):
        if '__cls__' not in env and getattr(f, '_cls', None) is not None:
            env['__cls__'] = f._cls
        if '__mod__' not in env and getattr(f, '_mod', None) is not None:
            env['__mod__'] = f._mod
        if '__funcs__' not in env and getattr(f, '_mod', None) is not None:
            mod_ = f._mod
            env['__funcs__'] = lambda name: (lambda r: r if isinstance(r, ast.FunctionDef) else None)(mod_.resolve_name(name))

    class _Break(Exception):
        pass

    class _Continue(Exception):
        pass

    def bind(t, v):
        if isinstance(t, ast.Name):
            env[t.id] = v
        elif isinstance(t, (ast.Tuple, ast.List)):
            v = list(v)
            if len(v) != len(t.elts):
                raise Unsupported('unpacking')
            for tt, vv in zip(t.elts, v):
                bind(tt, vv)
        elif isinstance(t, ast.Subscript) and not isinstance(t.slice, ast.Slice):
            base = ev(t.value, env)
            idx = ev(t.slice, env)
            if isinstance(base, (dict, list, bytearray)):
                try:
                    base[idx] = v              # a container of the interpreter's own values (a descriptor handed in by the rule, a local list)
                except (IndexError, TypeError):
                    raise Unsupported('subscript store')
            else:
                raise Unsupported('subscript store on %s' % type(base).__name__)
        elif isinstance(t, ast.Attribute) and isinstance(t.value, ast.Name) and isinstance(env.get(t.value.id), Inst):
            env[t.value.id].attrs[t.attr] = v
        elif isinstance(t, ast.Attribute):
            env[ast.unparse(t)] = v
        else:
            raise Unsupported('assignment target')

    def block(stmts):
        for s in stmts:
            steps[0] += 1
            if steps[0] > max_steps:
                raise Unsupported('step limit')
            if isinstance(s, ast.Return):
                raise Ret(ev(s.value, env) if s.value is not None else None)
            elif isinstance(s, ast.Raise):
                exc = s.exc.func if isinstance(s.exc, ast.Call) else s.exc
                if isinstance(s.exc, ast.Name) and isinstance(env.get('__caught__' + s.exc.id), (Raised, PyRaise)):
                    raise env['__caught__' + s.exc.id]           # `raise e` of a caught exception
                if s.exc is None and any(isinstance(k, str) and k.startswith('__caught__') for k in env):
                    raise [v for k, v in env.items() if isinstance(k, str) and k.startswith('__caught__')][-1]
                if s.exc is not None:
                    # `raise helper(..)` / `raise error`: the value may be an exception object built elsewhere
                    try:
                        val_ = ev(s.exc, env)
                    except (Unsupported, KeyError, TypeError):
                        val_ = None
                    if isinstance(val_, ExcValue):
                        raise Raised(val_.name, val_.mro, val_.obj)
                name_ = ast.unparse(exc).split('.')[-1] if exc is not None else ''
                mro_, obj_ = None, None
                if exc is not None and env.get('__mod__') is not None and isinstance(exc, (ast.Name, ast.Attribute)):
                    try:
                        owner = env['__mod__'].resolve(exc)
                    except Exception:
                        owner = None
                    if owner is not None and hasattr(owner, 'mro'):
                        mro_ = [k.name for k in owner.mro()]
                        if isinstance(s.exc, ast.Call):
                            init_ = owner.find_method('__init__')
                            if init_ is not None:
                                ps_ = [a.arg for a in init_[1].args.args][1:]
                                obj_ = Obj()
                                try:
                                    for pn_, a_ in zip(ps_, s.exc.args):
                                        obj_[pn_] = ev(a_, env)
                                    for k_ in s.exc.keywords:
                                        if k_.arg:
                                            obj_[k_.arg] = ev(k_.value, env)
                                except (Unsupported, KeyError, TypeError):
                                    obj_ = None
                raise Raised(name_, mro_, obj_)
            elif isinstance(s, ast.If):
                try:
                    tv = ev(s.test, env)
                except TypeError as e:
                    raise Unsupported('test on an unknown value: %s' % e)
                if tv is UNKNOWN:
                    raise Unsupported('test on an unknown value')
                block(s.body if tv else s.orelse)
            elif isinstance(s, ast.Assign):
                try:
                    v = ev(s.value, env)
                except (Unsupported, TypeError, KeyError, AttributeError) as e:
                    if not tolerant or isinstance(e, Raised):
                        raise
                    # tolerant mode: what cannot be computed is unknown; statements that only use known values still evaluate
                    for t in s.targets:
                        for x in ast.walk(t):
                            if isinstance(x, ast.Name) and isinstance(x.ctx, ast.Store):
                                env[x.id] = UNKNOWN
                            elif isinstance(x, ast.Attribute) and isinstance(x.ctx, ast.Store):
                                env[ast.unparse(x)] = UNKNOWN
                    continue
                for t in s.targets:
                    bind(t, v)
            elif isinstance(s, ast.AugAssign) and isinstance(s.target, ast.Subscript) and not isinstance(s.target.slice, ast.Slice):
                box = ev(s.target.value, env)
                if not isinstance(box, (list, bytearray, dict)):
                    raise Unsupported('item update of %s' % type(box).__name__)
                box[ev(s.target.slice, env)] = ev(ast.BinOp(left=s.target, op=s.op, right=s.value), env)
            elif isinstance(s, ast.AugAssign):
                key = s.target.id if isinstance(s.target, ast.Name) else ast.unparse(s.target)
                env[key] = ev(ast.BinOp(left=s.target, op=s.op, right=s.value), env)
            elif isinstance(s, ast.Expr) and isinstance(s.value, ast.Call) and isinstance(s.value.func, ast.Attribute) \
                    and s.value.func.attr in ('append', 'extend', 'reverse', 'insert', 'sort') and isinstance(s.value.func.value, ast.Name) \
                    and isinstance(env.get(s.value.func.value.id), (list, bytearray)):
                # the interpreter's own lists / byte strings are mutable values
                box = env[s.value.func.value.id]
                a_ = [ev(x, env) for x in s.value.args]
                getattr(box, s.value.func.attr)(*a_)
            elif isinstance(s, ast.While):
                while ev(s.test, env):
                    steps[0] += 1
                    if steps[0] > max_steps:
                        raise Unsupported('step limit')
                    try:
                        block(s.body)
                    except _Break:
                        break
                    except _Continue:
                        continue
                else:
                    block(s.orelse)
            elif isinstance(s, ast.For):
                it = ev(s.iter, env)
                if not isinstance(it, (list, tuple)):
                    raise Unsupported('for over %s' % type(it).__name__)
                for item in it:
                    steps[0] += 1
                    if steps[0] > max_steps:
                        raise Unsupported('step limit')
                    bind(s.target, item)
                    try:
                        block(s.body)
                    except _Break:
                        break
                    except _Continue:
                        continue
                else:
                    block(s.orelse)
            elif isinstance(s, ast.Try) and not s.finalbody:
                depth_ = env.get('__try__', 0)
                env['__try__'] = depth_ + 1
                try:
                    try:
                        block(s.body)
                    finally:
                        env['__try__'] = depth_
                except (PyRaise, Raised) as e:
                    e_names = [e.name] if isinstance(e, PyRaise) else list(e.mro)
                    for h in s.handlers:
                        names_ = []
                        if h.type is None:
                            names_ = [e.name]
                        elif isinstance(h.type, ast.Name):
                            names_ = [h.type.id]
                        elif isinstance(h.type, ast.Tuple):
                            names_ = [x.id for x in h.type.elts if isinstance(x, ast.Name)]
                        if h.type is None:
                            names_ = e_names
                        if any(n_ in names_ for n_ in e_names) or 'Exception' in names_ or (e.name in ('IndexError', 'KeyError') and 'LookupError' in names_):
                            if h.name:
                                env[h.name] = e.obj if isinstance(e, Raised) and e.obj is not None else UNKNOWN
                                env['__caught__' + h.name] = e
                            block(h.body)
                            break
                    else:
                        raise
                else:
                    block(s.orelse)
            elif isinstance(s, ast.Break):
                raise _Break()
            elif isinstance(s, ast.Continue):
                raise _Continue()
            elif isinstance(s, ast.Pass):
                pass
            elif isinstance(s, ast.Expr) and isinstance(s.value, ast.Constant):
                pass
            elif skip_calls and isinstance(s, ast.Expr) and isinstance(s.value, ast.Call):
                pass
            elif skip_super and isinstance(s, ast.Expr) and isinstance(s.value, ast.Call) and isinstance(s.value.func, ast.Attribute) and isinstance(s.value.func.value, ast.Call) \
                    and isinstance(s.value.func.value.func, ast.Name) and s.value.func.value.func.id == 'super':
                pass          # the base class's part of the construction is not what is being evaluated
            elif isinstance(s, ast.Expr) and isinstance(s.value, ast.Call):
                ev(s.value, env)      # a checking helper of the same module / object: interpreted (it may raise)
            elif isinstance(s, ast.FunctionDef) and not s.decorator_list:
                env[s.name] = LocalFunction(s)
            else:
                raise Unsupported('statement %s' % type(s).__name__)
    try:
        block(f.body if isinstance(f, ast.FunctionDef) else f)
    except Ret as r:
        return r.v, env
    except PyRaise as e:
        raise Raised(e.name)
    return None, env


def boundaries(node):
    """Integer constants that a comparison in `node` cuts the integers at (the first value on the
    other side): x <= c -> c+1 ; x < c -> c ; x > c -> c+1 ; x >= c -> c ; x == c -> c, c+1."""
    out = set()
    for n in ast.walk(node):
        if isinstance(n, ast.Compare):
            terms = [n.left] + list(n.comparators)
            for i, op in enumerate(n.ops):
                for side, other in ((terms[i], terms[i + 1]), (terms[i + 1], terms[i])):
                    c = const_int(other)
                    if c is None:
                        continue
                    out.update({c - 1, c, c + 1})
    return out


def const_int(n):
    try:
        v = ev(n, {})
    except Exception:
        return None
    if isinstance(v, int) and not isinstance(v, bool):
        return v
    return None
