"""DEFAULT elision / restoration facts decided from path summaries (sem), independent of which
method or helper of the members class holds the code.

encode side: every call `<member>.encode(..)` executed by a method of the SEQUENCE class family (directly, or by a
helper that receives the member as a parameter) is preceded, on every path, by a condition that excludes
"the member has a DEFAULT and the value equals it".
decode side: some path of the family stores `<member>.default` / `<member>.get_default()` into the result
under the condition that the member has a default.
"""
import ast

from .model import Model
from . import sem


def family(cls, stop=('Type',)):
    """The classes of cls's MRO that are defined in a codec module and are not the common base."""
    return [c for c in cls.mro() if c.name not in stop]


def methods_of(cls):
    seen = {}
    for c in family(cls):
        for n, f in c.methods.items():
            seen.setdefault(n, (c, f))
    return seen


def call_events(ps):
    """(path, conds before, call node, substituted call) for every call event, loop bodies included."""
    out = []
    for p in sem.with_loop_bodies(ps):
        n = 0
        for ev in p.events:
            if ev[0] == 'stmt':
                n = ev[1]
            elif ev[0] == 'call' and len(ev) > 3:      # in-loop events are met again on the body paths, with their own conditions
                out.append((p, p.conds[:n], ev[2], ev[3]))
    return out


def store_events(ps):
    out = []
    for p in sem.with_loop_bodies(ps):
        for ev in p.events:
            if ev[0] == 'store' and len(ev) > 4:
                out.append((p, p.conds[:ev[4]], ev))
    return out


def _recv_text(sx):
    return sem.ctext(sx.func.value) if isinstance(sx.func, ast.Attribute) else None


def elided(recv, conds, flags=()):
    """does the condition list exclude `recv has a default and the value equals it`?  -> reason or None"""
    for c in conds:
        t, pol = c[0], c[1]
        if t == '%s.default is None' % recv and pol:
            return 'default is None'
        if t == '%s.has_default()' % recv and not pol:
            return 'not has_default()'
        if t.startswith('%s.is_default(' % recv) and not pol:
            return 'not is_default(value)'
        if t.startswith('isinstance(%s, ' % recv) and 'AnyDefinedBy' in t and pol:
            return 'ANY DEFINED BY member'
        if t in flags and pol:
            return 'mode flag %s' % t
    return None


class EncodeSites(object):
    """All `<member>.encode(..)` executions of a class family, with helper delegation resolved."""

    def __init__(self, cls, method='encode'):
        self.cls = cls
        self.method = method
        self.resolver = sem.class_resolver(cls)
        self.sites = []        # (function, call node, receiver text, reason or None)
        self.undecided = []
        self._deleg = {}
        for name, (c, f) in sorted(methods_of(cls).items()):
            self.scan(f, top=True)

    def flags(self, f):
        """boolean mode parameters of f that default to False (`encode_default=False`)"""
        a = f.args
        out = []
        for p, d in zip(a.args[len(a.args) - len(a.defaults):], a.defaults):
            if isinstance(d, ast.Constant) and d.value is False:
                out.append(p.arg)
        return out

    def delegations(self, g, depth=0):
        """parameters of g on which g calls .<method>() without elision (g hands the decision to its callers)"""
        if g in self._deleg:
            return self._deleg[g]
        self._deleg[g] = set()
        if depth > 3:
            return set()
        out = set()
        ps = sem.paths(g, resolver=self.resolver)
        if ps is None:
            self.undecided.append((g, 'too many paths'))
            return out
        params = [a.arg for a in g.args.args]
        for p, conds, node, sx in call_events(ps):
            for recv, _how in self.member_calls(g, node, sx, depth):
                if recv in params and elided(recv, conds, self.flags(g)) is None:
                    out.add(recv)
        self._deleg[g] = out
        return out

    def member_calls(self, f, node, sx, depth=0):
        """receivers this call event encodes: the direct receiver of .<method>(), or the arguments bound to delegating
        parameters of a resolved helper"""
        out = []
        fn = sx.func
        if isinstance(fn, ast.Attribute) and fn.attr == self.method:
            r = _recv_text(sx)
            if r is not None and r != 'self' and not r.startswith('super('):
                out.append((r, 'direct'))
            return out
        g = self.resolver(node)
        if g is None or g is f:
            return out
        dl = self.delegations(g, depth + 1)
        if not dl:
            return out
        params = [a.arg for a in g.args.args]
        if params and params[0] in ('self', 'cls') and isinstance(node.func, ast.Attribute):
            params = params[1:]
        for pn, a in zip(params, sx.args):
            if pn in dl:
                out.append((sem.ctext(a), 'via %s(%s)' % (g.name, pn)))
        for k in sx.keywords:
            if k.arg in dl:
                out.append((sem.ctext(k.value), 'via %s(%s)' % (g.name, k.arg)))
        return out

    def scan(self, f, top=False):
        ps = sem.paths(f, resolver=self.resolver)
        if ps is None:
            self.undecided.append((f, 'too many paths'))
            return
        params = [a.arg for a in f.args.args]
        dl = self.delegations(f)
        seen = set()
        for p, conds, node, sx in call_events(ps):
            for recv, how in self.member_calls(f, node, sx):
                why = elided(recv, conds, self.flags(f))
                if why is None and recv in params and recv in dl:
                    # decided at the call sites of f (f delegates); if nothing in the family calls f with a member, there is
                    # nothing to decide
                    continue
                key = (id(node), recv, why is None)
                if key in seen:
                    continue
                seen.add(key)
                self.sites.append((f, node, recv, why, how, conds))


def restoration_sites(cls):
    """stores of `<m>.default` / `<m>.get_default()` into a subscripted result by the class family:
    [(function, stmt, receiver, guarded?)]"""
    out = []
    res = sem.class_resolver(cls)
    for name, (c, f) in sorted(methods_of(cls).items()):
        ps = sem.paths(f, resolver=res)
        if ps is None:
            continue
        seen = set()
        for p, conds, ev in store_events(ps):
            val = ev[3]
            tgt = ev[5] if len(ev) > 5 else None
            if val is None or not isinstance(tgt, ast.Subscript):
                continue
            recv = None
            if isinstance(val, ast.Attribute) and val.attr == 'default':
                recv = sem.ctext(val.value)
            elif isinstance(val, ast.Call) and isinstance(val.func, ast.Attribute) and val.func.attr == 'get_default' and not val.args:
                recv = sem.ctext(val.func.value)
            if recv is None:
                continue
            ok = any((c_[0] == '%s.has_default()' % recv and c_[1]) or (c_[0] == '%s.default is None' % recv and not c_[1]) for c_ in conds)
            key = (id(ev[2]), ok)
            if key in seen:
                continue
            seen.add(key)
            out.append((f, ev[2], recv, ok))
    return out


def presence_bit_values(cls, bit_call='append_bit', depth=2):
    """candidate value expressions written as presence bits by the class family: the argument of <stream>.append_bit(..),
    and when that is a call of a family helper, the helper's return expressions.  [(function, node, expr)]"""
    res = sem.class_resolver(cls)
    out = []

    def expand(f, e, d):
        out.append((f, e))
        if isinstance(e, ast.Call) and d > 0:
            g = res(e)
            if g is not None:
                for n in ast.walk(g):
                    if isinstance(n, ast.Return) and n.value is not None:
                        expand(g, n.value, d - 1)
        if isinstance(e, ast.IfExp):
            expand(f, e.body, d)
            expand(f, e.orelse, d)
        if isinstance(e, ast.Name):
            for n in ast.walk(f):
                if isinstance(n, ast.Assign) and any(isinstance(t, ast.Name) and t.id == e.id for t in n.targets):
                    expand(f, n.value, d - 1) if d > 0 else None
                # the bits come from a generator of the family:  for bit in self.presence_bits(data): stream.append_bit(bit)
                if isinstance(n, (ast.For, ast.comprehension)) and isinstance(n.target, ast.Name) and n.target.id == e.id and isinstance(n.iter, ast.Call) and d > 0:
                    g = res(n.iter)
                    if g is not None:
                        for y in ast.walk(g):
                            if isinstance(y, ast.Yield) and y.value is not None:
                                expand(g, y.value, d - 1)
                            elif isinstance(y, ast.Return) and isinstance(y.value, (ast.List, ast.Tuple)):
                                for el in y.value.elts:
                                    expand(g, el, d - 1)
    for name, (c, f) in sorted(methods_of(cls).items()):
        for n in ast.walk(f):
            if isinstance(n, ast.Call) and isinstance(n.func, ast.Attribute) and n.func.attr == bit_call and len(n.args) == 1:
                expand(f, n.args[0], depth)
    return out
