"""E2 -- effect analysis: which objects a function may write, with interprocedural summaries.

Roots of a value:  'fresh' (allocated in this call), 'self', 'param:<name>', 'global:<name>',
'unknown'.  A function's summary says which of *its own* roots it may mutate (directly, or by
passing them to a callee that does): {'self': bool, 'params': {names}, 'globals': {names}} and
whether everything it returns is fresh.

Used by C18.R1 (runtime purity), C08.R4 and C18.R4 (input untouched)."""
import ast

from .model import Model, ClassInfo, Module, walk_no_nested
from . import flow

MUTATORS = {'append', 'extend', 'insert', 'pop', 'remove', 'clear', 'update', 'setdefault', 'sort', 'reverse',
            'add', 'discard', 'popitem', 'write', 'appendleft', 'extendleft', 'set'}
ACCESSORS = {'get', 'pop', 'setdefault', 'items', 'values', 'keys', 'popitem', '__getitem__', 'iter', 'find', 'findall', 'getchildren'}
FRESH_BUILTINS = {'bytearray', 'bytes', 'dict', 'list', 'set', 'tuple', 'frozenset', 'int', 'str', 'float', 'bool', 'sorted',
                  'len', 'range', 'enumerate', 'zip', 'map', 'filter', 'min', 'max', 'sum', 'abs', 'round', 'divmod', 'ord', 'chr',
                  'hex', 'bin', 'repr', 'format', 'isinstance', 'issubclass', 'hasattr', 'type', 'id', 'any', 'all', 'copy', 'deepcopy',
                  'reversed', 'pow', 'iter', 'next', 'object', 'super', 'print', 'memoryview', 'callable', 'vars', 'open'}
SCRATCH_CLASS_NAMES = {'Encoder', 'Decoder'}


def is_exception_class(ci):
    for c in ci.mro():
        for b in c.node.bases:
            n = b.id if isinstance(b, ast.Name) else (b.attr if isinstance(b, ast.Attribute) else None)
            if n in ('Exception', 'BaseException', 'ValueError', 'RuntimeError', 'TypeError', 'KeyError'):
                return True
    return False


class Purity(object):

    def __init__(self, model, cg):
        self.model = model
        self.cg = cg
        self._local = {}
        self.summary = {}
        self.ret_fresh = {}
        self.funcs = [f for f in model.all_functions()]
        for f in self.funcs:
            self.summary[f] = {'self': False, 'params': set(), 'globals': set(), 'why': {}}
            self.ret_fresh[f] = True
        self._direct = {}
        self._solve()

    # ------------------------------------------------------------ classes
    def is_scratch_method(self, f):
        ci = getattr(f, '_cls', None)
        if ci is None:
            return False
        return ci.name in SCRATCH_CLASS_NAMES or is_exception_class(ci)

    # ------------------------------------------------------------ local roots
    def bindings(self, f):
        """name -> list of binding expressions / markers in f (flow-insensitive)."""
        if f in self._local:
            return self._local[f]
        b = {}

        def add(n, e):
            b.setdefault(n, []).append(e)

        def bind_target(t, value):
            if isinstance(t, ast.Name):
                add(t.id, value)
            elif isinstance(t, (ast.Tuple, ast.List)):
                # element of value: if value is a display of same length pair up, else element-of
                if isinstance(value, (ast.Tuple, ast.List)) and len(value.elts) == len(t.elts):
                    for tt, vv in zip(t.elts, value.elts):
                        bind_target(tt, vv)
                else:
                    for tt in t.elts:
                        bind_target(tt, ('elem', value))
            elif isinstance(t, ast.Starred):
                bind_target(t.value, ('elem', value))

        for n in walk_no_nested(f):
            if isinstance(n, ast.Assign):
                for t in n.targets:
                    bind_target(t, n.value)
            elif isinstance(n, ast.AnnAssign) and n.value is not None:
                bind_target(n.target, n.value)
            elif isinstance(n, ast.AugAssign) and isinstance(n.target, ast.Name):
                add(n.target.id, ('aug', n.value))
            elif isinstance(n, (ast.For, ast.comprehension)):
                bind_target(n.target, ('elem', n.iter))
            elif isinstance(n, ast.With):
                for it in n.items:
                    if it.optional_vars is not None:
                        bind_target(it.optional_vars, it.context_expr)
            elif isinstance(n, ast.ExceptHandler) and n.name:
                add(n.name, ('freshmark',))
            elif isinstance(n, ast.NamedExpr):
                bind_target(n.target, n.value)
            elif isinstance(n, (ast.Import, ast.ImportFrom)):
                for a in n.names:
                    add((a.asname or a.name).split('.')[0], ('freshmark',))
        self._local[f] = b
        return b

    def _dominating_rebind(self, name, f, at):
        """The last plain assignment `name = e` that dominates node `at` in f (a direct child of
        a block that encloses `at` and that precedes the child containing `at`), or None."""
        if at is None:
            return None
        best = None
        child = at
        p = getattr(at, '_parent', None)
        while p is not None:
            for field in ('body', 'orelse', 'finalbody'):
                seq = getattr(p, field, None)
                if isinstance(seq, list) and child in seq:
                    if isinstance(p, ast.Try) and field == 'body':
                        pass
                    for st in seq[:seq.index(child)]:
                        if isinstance(st, ast.Assign) and any(isinstance(t, ast.Name) and t.id == name for t in st.targets):
                            if best is None or (st.lineno, st.col_offset) > (best.lineno, best.col_offset):
                                best = st
            if p is f:
                break
            # a loop body: a later binding in the same loop may reach `at` on the next iteration;
            # handled by the caller (bindings after the dominating one are kept)
            child = p
            p = getattr(p, '_parent', None)
        return best

    def roots(self, expr, f, _depth=0, _seen=None, at=None):
        """Set of roots the value of expr may alias (at program point `at`, when given)."""
        _seen = _seen if _seen is not None else set()
        if isinstance(expr, tuple):
            kind = expr[0]
            if kind == 'freshmark':
                return {'fresh'}
            if kind == 'elem':
                r = self.roots(expr[1], f, _depth + 1, _seen, at=Model.enclosing_stmt(expr[1]) if isinstance(expr[1], ast.AST) else None)
                # iterating a call result that yields fresh things (range, enumerate of fresh...)
                return r
            if kind == 'aug':
                return {'fresh'}    # x += y on a name: in-place for lists handled as mutation separately
        if _depth > 12:
            return {'unknown'}
        if isinstance(expr, (ast.Constant, ast.JoinedStr, ast.ListComp, ast.DictComp, ast.SetComp, ast.GeneratorExp,
                             ast.Compare, ast.Lambda, ast.FormattedValue)):
            return {'fresh'}
        if isinstance(expr, (ast.List, ast.Tuple, ast.Set, ast.Dict)):
            return {'fresh'}
        if isinstance(expr, (ast.BinOp, ast.UnaryOp)):
            return {'fresh'}
        if isinstance(expr, ast.BoolOp):
            out = set()
            for v in expr.values:
                out |= self.roots(v, f, _depth + 1, _seen, at=at)
            return out
        if isinstance(expr, ast.IfExp):
            return self.roots(expr.body, f, _depth + 1, _seen, at=at) | self.roots(expr.orelse, f, _depth + 1, _seen, at=at)
        if isinstance(expr, ast.Starred):
            return self.roots(expr.value, f, _depth + 1, _seen, at=at)
        if isinstance(expr, ast.Subscript):
            if isinstance(expr.slice, ast.Slice):
                return {'fresh'}      # slicing copies (list, bytes, bytearray, str)
            return self.roots(expr.value, f, _depth + 1, _seen, at=at)
        if isinstance(expr, ast.Attribute):
            return self.roots(expr.value, f, _depth + 1, _seen, at=at)
        if isinstance(expr, ast.Await):
            return {'unknown'}
        if isinstance(expr, ast.Name):
            nm = expr.id
            if nm in ('self', 'cls') and getattr(f, '_cls', None) is not None:
                return {'self'}
            b = self.bindings(f)
            params = flow.param_names(f)
            out = set()
            dom = self._dominating_rebind(nm, f, at) if (at is not None and nm in b) else None
            if nm in params and dom is None:
                out.add('param:' + nm)
            if nm in b:
                key = (id(f), nm, id(dom))
                if key in _seen:
                    return out or {'fresh'}
                _seen.add(key)
                for e in b[nm]:
                    if dom is not None:
                        ln = getattr(e, 'lineno', None) if not isinstance(e, tuple) else getattr(e[1], 'lineno', None) if len(e) > 1 else None
                        if e is not dom.value and ln is not None and ln < dom.lineno:
                            continue      # killed by the dominating re-binding
                    out |= self.roots(e, f, _depth + 1, _seen, at=(Model.enclosing_stmt(e) if isinstance(e, ast.AST) else None))
                return out or {'fresh'}
            if out:
                return out
            r = f._mod.resolve_name(nm)
            if r is None:
                import builtins
                if hasattr(builtins, nm) or nm in f._mod.imports:
                    return {'fresh'}    # builtin / external module name (None, True, len ...)
                return {'global:' + nm}  # free variable that is neither a builtin nor an import
            if isinstance(r, (ast.FunctionDef, ClassInfo, Module)):
                return {'global:' + nm}
            return {'global:' + nm}
        if isinstance(expr, ast.Call):
            fn = expr.func
            if isinstance(fn, ast.Name):
                if fn.id in FRESH_BUILTINS and f._mod.resolve_name(fn.id) is None:
                    return {'fresh'}
                r = f._mod.resolve_name(fn.id)
                if isinstance(r, ClassInfo) or r is None:
                    return {'fresh'}            # constructor / external function
                if isinstance(r, ast.FunctionDef):
                    return {'fresh'} if self.ret_fresh.get(r, True) else self._ret_roots(r, expr, f, _depth, _seen)
                if isinstance(r, tuple):
                    return {'unknown'}
                return {'fresh'}
            if isinstance(fn, ast.Attribute):
                ts = self.cg.resolve_call(f, expr)
                ts = [t for t in ts if self._arity_ok(t, expr)]
                if ts:
                    out = set()
                    for t in ts:
                        if getattr(t, 'name', '') == '__init__':
                            out.add('fresh')
                        elif self.ret_fresh.get(t, True):
                            out.add('fresh')
                        else:
                            out |= self._ret_roots(t, expr, f, _depth, _seen)
                    return out
                # unresolved method of a builtin/external object
                if fn.attr in ACCESSORS:
                    return self.roots(fn.value, f, _depth + 1, _seen, at=at)
                if fn.attr in ('copy', 'deepcopy'):
                    return {'fresh'}
                r = f._mod.resolve(fn.value) if isinstance(fn.value, (ast.Name, ast.Attribute)) else None
                return {'fresh'}
            return {'fresh'}
        return {'unknown'}

    def _ret_roots(self, callee, call, f, _depth, _seen, at=None):
        at = at or Model.enclosing_stmt(call)
        """Callee may return an alias of self/params: map back to the call's receiver/args."""
        out = set()
        rr = self._callee_return_roots(callee)
        for r in rr:
            if r == 'fresh':
                out.add('fresh')
            elif r == 'self':
                if isinstance(call.func, ast.Attribute):
                    out |= self.roots(call.func.value, f, _depth + 1, _seen, at=at)
                else:
                    out.add('unknown')
            elif r.startswith('param:'):
                a = self._arg_for(callee, call, r[6:])
                if a is not None:
                    out |= self.roots(a, f, _depth + 1, _seen, at=at)
                else:
                    out.add('fresh')
            else:
                out.add(r)
        return out

    _rr_cache = None

    def _callee_return_roots(self, g):
        if self._rr_cache is None:
            self._rr_cache = {}
        if g in self._rr_cache:
            return self._rr_cache[g]
        self._rr_cache[g] = {'fresh'}     # recursion guard
        out = set()
        for n in walk_no_nested(g):
            if isinstance(n, ast.Return) and n.value is not None:
                out |= self.roots(n.value, g)
            elif isinstance(n, (ast.Yield, ast.YieldFrom)) and n.value is not None:
                out |= self.roots(n.value, g)
        self._rr_cache[g] = out or {'fresh'}
        return self._rr_cache[g]

    def _arity_ok(self, t, call):
        a = t.args
        n_pos = len(a.posonlyargs) + len(a.args)
        is_method = getattr(t, '_cls', None) is not None and not any(
            isinstance(d, ast.Name) and d.id == 'staticmethod' for d in t.decorator_list)
        if is_method:
            n_pos -= 1
        given = len([x for x in call.args if not isinstance(x, ast.Starred)])
        has_star = any(isinstance(x, ast.Starred) for x in call.args) or any(k.arg is None for k in call.keywords)
        if a.vararg is None and given > n_pos:
            return False
        required = n_pos - len(a.defaults)
        if not has_star and given + len(call.keywords) < required:
            return False
        return True

    def _arg_for(self, callee, call, pname):
        a = callee.args
        names = [x.arg for x in a.posonlyargs + a.args]
        is_method = getattr(callee, '_cls', None) is not None and not any(
            isinstance(d, ast.Name) and d.id == 'staticmethod' for d in callee.decorator_list)
        if is_method and names:
            names = names[1:]
        for k in call.keywords:
            if k.arg == pname:
                return k.value
        if pname in names:
            i = names.index(pname)
            if i < len(call.args) and not any(isinstance(x, ast.Starred) for x in call.args[:i + 1]):
                return call.args[i]
        return None

    # ------------------------------------------------------------ direct effects
    def direct_effects(self, f):
        """[(node, roots, description)] for stores and mutator calls written in f itself,
        and call sites [(call, targets)]."""
        if f in self._direct:
            return self._direct[f]
        eff = []
        for n in walk_no_nested(f):
            targets = []
            if isinstance(n, ast.Assign):
                targets = n.targets
            elif isinstance(n, (ast.AugAssign, ast.AnnAssign)):
                targets = [n.target]
            elif isinstance(n, ast.Delete):
                targets = n.targets
            elif isinstance(n, (ast.For,)):
                targets = [n.target]
            for t in targets:
                for tt in ([t] if not isinstance(t, (ast.Tuple, ast.List)) else t.elts):
                    if isinstance(tt, (ast.Attribute, ast.Subscript)):
                        eff.append((n, tt.value, 'store to %s' % ast.unparse(tt)))
                    elif isinstance(tt, ast.Name) and isinstance(n, ast.AugAssign) and self._evidently_container(n.value, f):
                        # x += y on a list/bytearray/Encoder mutates in place; on numbers/bytes/str it re-binds
                        eff.append((n, ('augname', tt), 'in-place %s' % ast.unparse(n)))
            if isinstance(n, ast.Global) or isinstance(n, ast.Nonlocal):
                eff.append((n, ('global', n.names), 'global/nonlocal declaration'))
            if isinstance(n, ast.Call) and isinstance(n.func, ast.Attribute) and n.func.attr in MUTATORS:
                ts = [t for t in self.cg.resolve_call(f, n) if self._arity_ok(t, n)]
                if not ts:
                    eff.append((n, n.func.value, 'mutator call %s' % ast.unparse(n.func)))
        self._direct[f] = eff
        return eff

    def _evidently_container(self, v, f, _d=0):
        """Is the right-hand side of `name op= v` evidently a mutable container (so that the
        operation mutates `name` in place)?  Numbers, bytes and str re-bind instead."""
        if isinstance(v, (ast.List, ast.ListComp, ast.Set, ast.SetComp, ast.Dict, ast.DictComp)):
            return True
        if isinstance(v, ast.Call):
            fn = v.func
            if isinstance(fn, ast.Name):
                if fn.id in ('list', 'bytearray', 'set', 'dict', 'deque'):
                    return True
                r = f._mod.resolve_name(fn.id)
                if isinstance(r, ClassInfo):
                    return True
                if isinstance(r, ast.FunctionDef) and _d < 3:
                    return any(isinstance(x, ast.Return) and x.value is not None and self._evidently_container(x.value, r, _d + 1)
                               for x in walk_no_nested(r))
            if isinstance(fn, ast.Attribute) and ast.unparse(fn).endswith('.__class__'):
                return True
            return False
        if isinstance(v, ast.Name) and _d < 3:
            b = self.bindings(f).get(v.id, [])
            return any(not isinstance(e, tuple) and self._evidently_container(e, f, _d + 1) for e in b)
        return False

    def _effect_roots(self, f, target, at=None):
        if isinstance(target, tuple) and target[0] == 'global':
            return {'global:' + x for x in target[1]}
        if isinstance(target, tuple) and target[0] == 'augname':
            nm = target[1]
            r = self.roots(nm, f, at=at)
            # a name that is only ever bound to fresh values: in-place on a fresh object
            return r
        return self.roots(target, f, at=at)

    # ------------------------------------------------------------ fixpoint
    def _solve(self):
        # return-freshness: greatest fixpoint
        changed = True
        rounds = 0
        while changed and rounds < 30:
            changed = False
            rounds += 1
            self._rr_cache = None
            for f in self.funcs:
                if not self.ret_fresh[f]:
                    continue
                rr = self._callee_return_roots(f)
                if rr - {'fresh'}:
                    self.ret_fresh[f] = False
                    changed = True
        self._rr_cache = None
        # mutation summaries: least fixpoint
        changed = True
        rounds = 0
        while changed and rounds < 60:
            changed = False
            rounds += 1
            for f in self.funcs:
                s = self.summary[f]
                before = (s['self'], len(s['params']), len(s['globals']))
                for node, target, _d in self.direct_effects(f):
                    for r in self._effect_roots(f, target, at=Model.enclosing_stmt(node)):
                        self._add(s, r, '%s:%d %s' % (f._mod.rel, node.lineno, _d))
                for call, ts in self.cg.sites.get(f, []):
                    for t in ts:
                        if not self._arity_ok(t, call):
                            continue
                        ts_sum = self.summary.get(t)
                        if ts_sum is None:
                            continue
                        if ts_sum['self'] and t.name != '__init__' and isinstance(call.func, ast.Attribute):
                            recv = call.func.value
                            if isinstance(recv, ast.Call) and isinstance(recv.func, ast.Name) and recv.func.id == 'super':
                                self._add(s, 'self', 'via ' + Model.qual(t))
                            else:
                                for r in self.roots(recv, f, at=Model.enclosing_stmt(call)):
                                    self._add(s, r, 'via ' + Model.qual(t))
                        for p in ts_sum['params']:
                            a = self._arg_for(t, call, p)
                            if a is not None:
                                for r in self.roots(a, f, at=Model.enclosing_stmt(call)):
                                    self._add(s, r, 'via %s param %s' % (Model.qual(t), p))
                        for g in ts_sum['globals']:
                            s['globals'].add(g)
                if (s['self'], len(s['params']), len(s['globals'])) != before:
                    changed = True

    @staticmethod
    def _add(s, r, why=''):
        s['why'].setdefault(r, why)
        if r == 'self':
            s['self'] = True
        elif r.startswith('param:'):
            s['params'].add(r[6:])
        elif r.startswith('global:'):
            s['globals'].add(r[7:])

    # ------------------------------------------------------------ queries
    def had_stores(self, f):
        return bool(self.direct_effects(f)) or bool(self.cg.sites.get(f))

    def check_function(self, f, input_params=()):
        """Violations in a runtime-reachable function: writes to self (unless a scratch
        class), to module-level objects, or -- at entry points -- to `input_params`.
        Returns [(node, why)]."""
        out = []
        scratch = self.is_scratch_method(f)
        is_init = f.name == '__init__'

        def bad(r):
            if r == 'self':
                return not scratch and not is_init and getattr(f, '_cls', None) is not None
            if r.startswith('global:'):
                return True
            if r.startswith('param:') and r[6:] in input_params:
                return True
            return False

        for node, target, desc in self.direct_effects(f):
            for r in sorted(self._effect_roots(f, target, at=Model.enclosing_stmt(node))):
                if bad(r):
                    out.append((node, '%s writes %s (%s)' % (Model.qual(f), _rname(r), desc)))
        for call, ts in self.cg.sites.get(f, []):
            for t in ts:
                if not self._arity_ok(t, call):
                    continue
                ts_sum = self.summary.get(t)
                if ts_sum is None:
                    continue
                if ts_sum['self'] and t.name != '__init__' and isinstance(call.func, ast.Attribute):
                    recv = call.func.value
                    if isinstance(recv, ast.Call) and isinstance(recv.func, ast.Name) and recv.func.id == 'super':
                        rs = {'self'}
                    else:
                        rs = self.roots(recv, f, at=Model.enclosing_stmt(call))
                    for r in sorted(rs):
                        if bad(r):
                            out.append((call, '%s calls %s, which mutates its receiver, on %s' % (Model.qual(f), Model.qual(t), _rname(r))))
                for p in sorted(ts_sum['params']):
                    a = self._arg_for(t, call, p)
                    if a is None:
                        continue
                    for r in sorted(self.roots(a, f, at=Model.enclosing_stmt(call))):
                        if bad(r):
                            out.append((call, '%s passes %s (%s) to %s, which mutates parameter %s'
                                        % (Model.qual(f), ast.unparse(a), _rname(r), Model.qual(t), p)))
                for g in sorted(ts_sum['globals']):
                    pass   # reported inside the callee itself when it is reachable
        # de-duplicate by node
        seen = set()
        res = []
        for node, why in out:
            k = (id(node), why)
            if k not in seen:
                seen.add(k)
                res.append((node, why))
        return res


def _rname(r):
    if r == 'self':
        return 'an attribute of self (state shared by all calls)'
    if r.startswith('global:'):
        return 'module-level object %s' % r[7:]
    if r.startswith('param:'):
        return 'the caller-supplied input %s' % r[6:]
    return r
