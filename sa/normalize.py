"""Canonicalisation of a parsed module before any rule reads it.

The rules read statement shapes (`return f(x)`, `return CompiledType(...)`, `return value, offset + n`).  A function that binds the same
expression to a local first and returns the local on the next line (`result = f(x)` / `return result`) has the same behaviour; instead of
teaching every rule the second spelling, the tree is folded to the first one when a module is loaded:

    T = <expr>            ->        return <expr>
    return T

only when T is a plain local name (not declared global / nonlocal in the enclosing function) and the two statements are adjacent in one
statement list.  Nothing runs between the two statements, and nothing after the return can read T, so the fold cannot change behaviour.
The folded `return` keeps the position of the assignment (reports point at the line that computes the value).
"""
import ast


def _declared_nonlocal(func):
    out = set()
    if func is None:
        return out
    for n in ast.walk(func):
        if isinstance(n, (ast.Global, ast.Nonlocal)):
            out.update(n.names)
    return out


def fold_return_temps(tree):
    """In place; returns the number of folds."""
    n_folds = 0

    def visit(node, func):
        nonlocal n_folds
        if isinstance(node, (ast.FunctionDef, ast.AsyncFunctionDef)):
            func = node
        for field in ('body', 'orelse', 'finalbody'):
            seq = getattr(node, field, None)
            if not (isinstance(seq, list) and seq and isinstance(seq[0], ast.stmt)):
                continue
            if func is not None:
                out = []
                i = 0
                while i < len(seq):
                    s = seq[i]
                    nxt = seq[i + 1] if i + 1 < len(seq) else None
                    if isinstance(s, ast.Assign) and len(s.targets) == 1 and isinstance(s.targets[0], ast.Name) \
                            and isinstance(nxt, ast.Return) and isinstance(nxt.value, ast.Name) and nxt.value.id == s.targets[0].id \
                            and s.targets[0].id not in _declared_nonlocal(func):
                        r = ast.Return(value=s.value)
                        ast.copy_location(r, s)
                        r.end_lineno = getattr(s, 'end_lineno', None)
                        r.end_col_offset = getattr(s, 'end_col_offset', None)
                        out.append(r)
                        n_folds += 1
                        i += 2
                        continue
                    out.append(s)
                    i += 1
                seq[:] = out
            for s in seq:
                visit(s, func)
        for h in getattr(node, 'handlers', []) or []:
            visit(h, func)
        for c in getattr(node, 'cases', []) or []:
            visit(c, func)
    visit(tree, None)
    return n_folds
