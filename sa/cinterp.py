"""E9c -- the checker's own interpreter for the C helper functions the generators emit (the string constants of
source/c/*_functions.py), over the pycparser syntax tree.  Nothing of /repo is compiled or run: the helper text is parsed and
*interpreted here* on concrete small arguments (bounded evaluation), with the integer semantics of C that matter for these
helpers made explicit:

  * every value carries its C type; operands narrower than int are promoted to int (32 bit), the usual arithmetic
    conversions pick the common type (int < unsigned int < long long < unsigned long long), unsigned arithmetic wraps,
    a cast converts modulo 2^n (two's complement for signed targets), signed overflow is *undecided* (undefined in C);
  * memory is a set of byte arrays; a pointer is (array, offset); `&x` of a one-octet scalar is a one-octet array bound to x;
    reads and writes outside an array are *undecided* (memory safety is the business of C09/C10.R1, not of this engine);
  * struct encoder_t / decoder_t objects are dictionaries of typed fields.

Anything outside this fragment (floats, function pointers, multi-octet scalars accessed through pointers) raises
Undecided -- the calling rule records the case as undecided, never as a violation.
"""
from .model import AnalysisError


class Undecided(Exception):
    pass


class _Return(Exception):
    def __init__(self, v):
        self.v = v


class _Break(Exception):
    pass


class _Continue(Exception):
    pass


# (bits, signed)
TYPES = {
    'uint8_t': (8, False), 'int8_t': (8, True), 'uint16_t': (16, False), 'int16_t': (16, True), 'uint32_t': (32, False), 'int32_t': (32, True),
    'uint64_t': (64, False), 'int64_t': (64, True), 'size_t': (64, False), 'ssize_t': (64, True), 'bool': (8, False), '_Bool': (8, False),
    'int': (32, True), 'unsigned int': (32, False), 'unsigned': (32, False), 'long': (64, True), 'unsigned long': (64, False),
    'long long': (64, True), 'unsigned long long': (64, False), 'char': (8, True), 'unsigned char': (8, False), 'signed char': (8, True),
    'short': (16, True), 'unsigned short': (16, False), 'long int': (64, True), 'long long int': (64, True),
    'unsigned long int': (64, False), 'unsigned long long int': (64, False),
}
INT = (32, True)


def wrap(v, t):
    """conversion of the mathematical value v to the integer type t (C11 6.3.1.3; implementation-defined case = two's complement)"""
    bits, signed = t
    if t == (8, False) and False:
        pass
    v &= (1 << bits) - 1
    if signed and v >= (1 << (bits - 1)):
        v -= (1 << bits)
    return v


class Val(object):
    __slots__ = ('v', 't')

    def __init__(self, v, t):
        self.v = v
        self.t = t

    def __repr__(self):
        return 'Val(%r, %r)' % (self.v, self.t)


class Ptr(object):
    __slots__ = ('mem', 'off', 'elem')

    def __init__(self, mem, off=0, elem=(8, False)):
        self.mem = mem      # bytearray
        self.off = off
        self.elem = elem


class VarRef(object):
    """&x of a one-octet scalar variable"""
    __slots__ = ('env', 'name', 't')

    def __init__(self, env, name, t):
        self.env, self.name, self.t = env, name, t


def promote(t):
    return INT if t[0] < 32 else t


def common(a, b):
    a, b = promote(a), promote(b)
    if a == b:
        return a
    if a[0] == b[0]:
        return (a[0], False)            # same rank: the unsigned one
    big, small = (a, b) if a[0] > b[0] else (b, a)
    return big                           # the wider type represents all values of the narrower one


class Interp(object):

    def __init__(self, fdefs, max_steps=200000):
        self.funcs = {fd.decl.name: fd for fd in fdefs}
        self.max_steps = max_steps
        self.steps = 0

    # ------------------------------------------------------------------ types
    def type_of_decl(self, ty):
        from pycparser import c_ast
        if isinstance(ty, c_ast.TypeDecl):
            return self.type_of_decl(ty.type)
        if isinstance(ty, c_ast.IdentifierType):
            name = ' '.join(ty.names)
            if name in TYPES:
                return TYPES[name]
            if name in ('void',):
                return None
            raise Undecided('type %s' % name)
        if isinstance(ty, c_ast.Typename):
            return self.type_of_decl(ty.type)
        if isinstance(ty, c_ast.PtrDecl):
            return 'ptr'
        if isinstance(ty, c_ast.Struct):
            return 'struct'
        raise Undecided('type node %s' % type(ty).__name__)

    # ------------------------------------------------------------------ calls
    def call(self, name, args):
        """args: Val / Ptr / dict (struct pointer) / VarRef"""
        if name == 'memcpy':
            dst, src, n = args
            n = n.v
            data = bytes(self.load(src, i) for i in range(n))
            for i in range(n):
                self.store(dst, i, data[i])
            return dst
        if name == 'memset':
            dst, c, n = args
            for i in range(n.v):
                self.store(dst, i, c.v & 0xff)
            return dst
        fd = self.funcs.get(name)
        if fd is None:
            raise Undecided('call of %s (not a helper of this library)' % name)
        env = {}
        params = fd.decl.type.args.params if fd.decl.type.args is not None else []
        from pycparser import c_ast
        params = [p for p in params if not (isinstance(p, c_ast.Typename))]
        if len(params) != len(args):
            raise Undecided('arity of %s' % name)
        for p, a in zip(params, args):
            t = self.type_of_decl(p.type)
            if t == 'ptr' or t == 'struct':
                env[p.name] = a
                env[('type', p.name)] = 'ptr'
            else:
                if not isinstance(a, Val):
                    raise Undecided('argument of %s' % name)
                env[p.name] = Val(wrap(a.v, t), t)
                env[('type', p.name)] = t
        rt = self.type_of_decl(fd.decl.type.type)
        try:
            self.block(fd.body, env)
        except _Return as r:
            if r.v is None or rt is None:
                return None
            if isinstance(r.v, Val) and rt not in ('ptr', 'struct'):
                return Val(wrap(r.v.v, rt), rt)
            return r.v
        return None

    # ------------------------------------------------------------------ memory
    def load(self, p, i):
        if isinstance(p, VarRef):
            if i != 0 or p.t[0] != 8:
                raise Undecided('access to a multi-octet scalar through a pointer')
            return p.env[p.name].v & 0xff
        if not isinstance(p, Ptr):
            raise Undecided('load through %r' % (p,))
        k = p.off + i
        if not 0 <= k < len(p.mem):
            raise Undecided('access outside an array (index %d of %d)' % (k, len(p.mem)))
        return p.mem[k]

    def store(self, p, i, byte):
        if isinstance(p, VarRef):
            if i != 0 or p.t[0] != 8:
                raise Undecided('access to a multi-octet scalar through a pointer')
            p.env[p.name] = Val(wrap(byte, p.t), p.t)
            return
        if not isinstance(p, Ptr):
            raise Undecided('store through %r' % (p,))
        k = p.off + i
        if not 0 <= k < len(p.mem):
            raise Undecided('access outside an array (index %d of %d)' % (k, len(p.mem)))
        p.mem[k] = byte & 0xff

    # ------------------------------------------------------------------ lvalues
    def lvalue(self, node, env):
        """-> (getter, setter, type)"""
        from pycparser import c_ast
        if isinstance(node, c_ast.ID):
            name = node.name
            if name not in env:
                raise Undecided('unbound %s' % name)
            t = env.get(('type', name))
            def get():
                return env[name]
            def set_(v):
                if t in ('ptr', 'struct', 'array'):
                    env[name] = v
                else:
                    env[name] = Val(wrap(v.v, t), t)
            return get, set_, t
        if isinstance(node, c_ast.StructRef):
            base = self.rvalue(node.name, env)
            if not isinstance(base, dict):
                raise Undecided('struct reference on %r' % (base,))
            f = node.field.name
            if f not in base:
                raise Undecided('field %s' % f)
            t = base[('type', f)]
            def get():
                return base[f]
            def set_(v):
                base[f] = v if t == 'ptr' else Val(wrap(v.v, t), t)
            return get, set_, t
        if isinstance(node, c_ast.ArrayRef):
            p = self.rvalue(node.name, env)
            i = self.rvalue(node.subscript, env)
            if not isinstance(i, Val):
                raise Undecided('subscript')
            def get():
                return Val(self.load(p, i.v), (8, False))
            def set_(v):
                self.store(p, i.v, v.v)
            return get, set_, (8, False)
        if isinstance(node, c_ast.UnaryOp) and node.op == '*':
            p = self.rvalue(node.expr, env)
            def get():
                return Val(self.load(p, 0), (8, False))
            def set_(v):
                self.store(p, 0, v.v)
            return get, set_, (8, False)
        if isinstance(node, c_ast.Cast):
            return self.lvalue(node.expr, env)
        raise Undecided('lvalue %s' % type(node).__name__)

    # ------------------------------------------------------------------ expressions
    def arith(self, op, a, b):
        if op in ('<<', '>>'):
            t = promote(a.t)
            x = wrap(a.v, t)
            n = b.v
            if n < 0 or n >= t[0]:
                raise Undecided('shift by %d in a %d-bit type' % (n, t[0]))
            if op == '<<':
                r = x << n
                if t[1] and (x < 0 or r >= (1 << (t[0] - 1))):
                    raise Undecided('left shift of a signed value overflows')
                return Val(wrap(r, t), t)
            return Val(x >> n, t)           # arithmetic shift for negative signed values (what the supported compilers do)
        t = common(a.t, b.t)
        x, y = wrap(a.v, t), wrap(b.v, t)
        if op in ('==', '!=', '<', '<=', '>', '>='):
            r = {'==': x == y, '!=': x != y, '<': x < y, '<=': x <= y, '>': x > y, '>=': x >= y}[op]
            return Val(int(r), INT)
        if op == '+':
            r = x + y
        elif op == '-':
            r = x - y
        elif op == '*':
            r = x * y
        elif op == '/':
            if y == 0:
                raise Undecided('division by zero')
            r = abs(x) // abs(y) * (1 if (x < 0) == (y < 0) else -1)
        elif op == '%':
            if y == 0:
                raise Undecided('division by zero')
            q = abs(x) // abs(y) * (1 if (x < 0) == (y < 0) else -1)
            r = x - q * y
        elif op == '&':
            r = x & y
        elif op == '|':
            r = x | y
        elif op == '^':
            r = x ^ y
        else:
            raise Undecided('operator %s' % op)
        if t[1] and not (-(1 << (t[0] - 1)) <= r < (1 << (t[0] - 1))):
            raise Undecided('signed overflow in %s' % op)
        return Val(wrap(r, t), t)

    def rvalue(self, node, env):
        from pycparser import c_ast
        self.steps += 1
        if self.steps > self.max_steps:
            raise Undecided('step limit')
        if isinstance(node, c_ast.Constant):
            s = node.value
            if node.type in ('char',):
                raise Undecided('char constant')
            if '.' in s or node.type in ('float', 'double'):
                raise Undecided('floating constant')
            unsigned = 'u' in s.lower()
            long_ = s.lower().count('l')
            v = int(s.rstrip('uUlL'), 0)
            if long_ or v >= (1 << 32) or (not unsigned and v >= (1 << 31) and not s.lower().startswith('0x')):
                t = (64, not unsigned)
            elif unsigned or (v >= (1 << 31)):
                t = (32, False)
            else:
                t = INT
            return Val(v, t)
        if isinstance(node, c_ast.ID):
            if node.name not in env:
                raise Undecided('unbound %s' % node.name)
            return env[node.name]
        if isinstance(node, c_ast.Cast):
            t = self.type_of_decl(node.to_type.type)
            v = self.rvalue(node.expr, env)
            if t is None:
                return None                 # (void)expr
            if t in ('ptr', 'struct'):
                return v
            if not isinstance(v, Val):
                raise Undecided('cast of a pointer to an integer')
            return Val(wrap(v.v, t), t)
        if isinstance(node, (c_ast.StructRef, c_ast.ArrayRef)):
            return self.lvalue(node, env)[0]()
        if isinstance(node, c_ast.UnaryOp):
            op = node.op
            if op == '&':
                e = node.expr
                if isinstance(e, c_ast.ArrayRef):
                    p = self.rvalue(e.name, env)
                    i = self.rvalue(e.subscript, env)
                    if isinstance(p, Ptr) and isinstance(i, Val):
                        return Ptr(p.mem, p.off + i.v, p.elem)
                    raise Undecided('address of an element of %r' % (p,))
                if isinstance(e, c_ast.ID):
                    t = env.get(('type', e.name))
                    if t in ('array',):
                        return env[e.name]
                    if isinstance(t, tuple):
                        return VarRef(env, e.name, t)
                raise Undecided('address-of')
            if op == 'sizeof':
                e = node.expr
                if isinstance(e, c_ast.ID):
                    t = env.get(('type', e.name))
                    if t == 'array':
                        return Val(len(env[e.name].mem), (64, False))
                    if isinstance(t, tuple):
                        return Val(t[0] // 8, (64, False))
                if isinstance(e, c_ast.Typename):
                    t = self.type_of_decl(e.type)
                    if isinstance(t, tuple):
                        return Val(t[0] // 8, (64, False))
                raise Undecided('sizeof')
            if op in ('p++', 'p--', '++', '--'):
                get, set_, t = self.lvalue(node.expr, env)
                old = get()
                if isinstance(old, Ptr):
                    new = Ptr(old.mem, old.off + (1 if '+' in op else -1), old.elem)
                else:
                    new = self.arith('+' if '+' in op else '-', old, Val(1, INT))
                set_(new)
                return old if op.startswith('p') else get()
            v = self.rvalue(node.expr, env)
            if op == '*':
                return Val(self.load(v, 0), (8, False))
            if not isinstance(v, Val):
                raise Undecided('unary %s on a pointer' % op)
            if op == '-':
                t = promote(v.t)
                r = -wrap(v.v, t)
                if t[1] and r >= (1 << (t[0] - 1)):
                    raise Undecided('signed overflow in negation')
                return Val(wrap(r, t), t)
            if op == '+':
                return Val(v.v, promote(v.t))
            if op == '~':
                t = promote(v.t)
                return Val(wrap(~wrap(v.v, t), t), t)
            if op == '!':
                return Val(int(v.v == 0), INT)
            raise Undecided('unary %s' % op)
        if isinstance(node, c_ast.BinaryOp):
            op = node.op
            if op == '&&':
                a = self.rvalue(node.left, env)
                if not self.truth(a):
                    return Val(0, INT)
                return Val(int(self.truth(self.rvalue(node.right, env))), INT)
            if op == '||':
                a = self.rvalue(node.left, env)
                if self.truth(a):
                    return Val(1, INT)
                return Val(int(self.truth(self.rvalue(node.right, env))), INT)
            a = self.rvalue(node.left, env)
            b = self.rvalue(node.right, env)
            if isinstance(a, Ptr) and isinstance(b, Val) and op in ('+', '-'):
                return Ptr(a.mem, a.off + (b.v if op == '+' else -b.v), a.elem)
            if not (isinstance(a, Val) and isinstance(b, Val)):
                raise Undecided('pointer arithmetic %s' % op)
            return self.arith(op, a, b)
        if isinstance(node, c_ast.TernaryOp):
            return self.rvalue(node.iftrue if self.truth(self.rvalue(node.cond, env)) else node.iffalse, env)
        if isinstance(node, c_ast.Assignment):
            get, set_, t = self.lvalue(node.lvalue, env)
            r = self.rvalue(node.rvalue, env)
            if node.op != '=':
                r = self.arith(node.op[:-1], get(), r)
            set_(r)
            return get()
        if isinstance(node, c_ast.FuncCall):
            name = node.name.name if isinstance(node.name, c_ast.ID) else None
            if name is None:
                raise Undecided('indirect call')
            args = [self.rvalue(a, env) for a in (node.args.exprs if node.args is not None else [])]
            return self.call(name, args)
        if isinstance(node, c_ast.ExprList):
            r = None
            for e in node.exprs:
                r = self.rvalue(e, env)
            return r
        raise Undecided('expression %s' % type(node).__name__)

    @staticmethod
    def truth(v):
        if isinstance(v, Val):
            return v.v != 0
        return v is not None

    # ------------------------------------------------------------------ statements
    def block(self, node, env):
        from pycparser import c_ast
        self.steps += 1
        if self.steps > self.max_steps:
            raise Undecided('step limit')
        if node is None or isinstance(node, c_ast.EmptyStatement):
            return
        if isinstance(node, c_ast.Compound):
            for s in node.block_items or []:
                self.block(s, env)
            return
        if isinstance(node, c_ast.DeclList):
            for d in node.decls:
                self.block(d, env)
            return
        if isinstance(node, c_ast.Decl):
            ty = node.type
            if isinstance(ty, c_ast.ArrayDecl):
                et = self.type_of_decl(ty.type)
                if et != (8, False) and et != (8, True):
                    raise Undecided('array of %r' % (et,))
                n = self.rvalue(ty.dim, env)
                env[node.name] = Ptr(bytearray(n.v), 0, et)
                env[('type', node.name)] = 'array'
                if node.init is not None:
                    raise Undecided('array initialiser')
                return
            t = self.type_of_decl(ty)
            env[('type', node.name)] = t
            if node.init is not None:
                v = self.rvalue(node.init, env)
                env[node.name] = v if t in ('ptr', 'struct') else Val(wrap(v.v, t), t)
            else:
                env[node.name] = None if t in ('ptr', 'struct') else Val(0, t)      # indeterminate in C; the helpers assign before use
            return
        if isinstance(node, c_ast.If):
            self.block(node.iftrue if self.truth(self.rvalue(node.cond, env)) else node.iffalse, env)
            return
        if isinstance(node, c_ast.Return):
            raise _Return(self.rvalue(node.expr, env) if node.expr is not None else None)
        if isinstance(node, c_ast.Break):
            raise _Break()
        if isinstance(node, c_ast.Continue):
            raise _Continue()
        if isinstance(node, c_ast.For):
            if node.init is not None:
                self.block(node.init, env) if isinstance(node.init, (c_ast.DeclList, c_ast.Decl)) else self.rvalue(node.init, env)
            while node.cond is None or self.truth(self.rvalue(node.cond, env)):
                try:
                    self.block(node.stmt, env)
                except _Break:
                    break
                except _Continue:
                    pass
                if node.next is not None:
                    self.rvalue(node.next, env)
            return
        if isinstance(node, c_ast.While):
            while self.truth(self.rvalue(node.cond, env)):
                try:
                    self.block(node.stmt, env)
                except _Break:
                    break
                except _Continue:
                    pass
            return
        if isinstance(node, c_ast.DoWhile):
            while True:
                try:
                    self.block(node.stmt, env)
                except _Break:
                    break
                except _Continue:
                    pass
                if not self.truth(self.rvalue(node.cond, env)):
                    break
            return
        if isinstance(node, c_ast.Switch):
            v = self.rvalue(node.cond, env)
            items = node.stmt.block_items or []
            start = None
            for i, it in enumerate(items):
                if isinstance(it, c_ast.Case) and self.rvalue(it.expr, env).v == v.v:
                    start = i
                    break
            if start is None:
                for i, it in enumerate(items):
                    if isinstance(it, c_ast.Default):
                        start = i
                        break
            if start is None:
                return
            try:
                for it in items[start:]:
                    for s in (it.stmts or []) if isinstance(it, (c_ast.Case, c_ast.Default)) else [it]:
                        self.block(s, env)
            except _Break:
                pass
            return
        # expression statement
        self.rvalue(node, env)


# ---------------------------------------------------------------------- objects of the helper libraries
def new_encoder(size_bytes):
    mem = bytearray(size_bytes)
    return {'buf_p': Ptr(mem, 0), ('type', 'buf_p'): 'ptr', 'size': Val(size_bytes, (64, True)), ('type', 'size'): (64, True),
            'pos': Val(0, (64, True)), ('type', 'pos'): (64, True)}, mem


def new_decoder(data):
    mem = bytearray(data)
    return {'buf_p': Ptr(mem, 0), ('type', 'buf_p'): 'ptr', 'size': Val(len(mem), (64, True)), ('type', 'size'): (64, True),
            'pos': Val(0, (64, True)), ('type', 'pos'): (64, True)}, mem


def library(model, rel):
    """Interp over all helper functions of a *_functions.py module (parsed together)"""
    from . import chelpers
    hs, st = chelpers.load_helpers(model, rel)
    text = '\n'.join(t for _p, _n, t in hs)
    try:
        tree = chelpers.parse_c(text, st)
    except AnalysisError as e:
        raise Undecided(str(e))
    return Interp(chelpers.func_defs(tree))
