"""E1 -- stream-protocol conformance of encode/decode pairs (PER / UPER / OER type classes).

For every assignment of truth values to the CONFIG atoms of a class (conditions built only from
self.* attributes and constants) the engine enumerates the token paths of encode and of decode
over the Encoder/Decoder vocabulary and requires  Paths(encode) <= Paths(decode).
See DESIGN.md section 3 (E1).  Nothing of the repository is executed."""
import ast
import itertools

from .model import AnalysisError, Model


def find_method(cls, name):
    r = cls.find_method(name)
    if r is None:
        return None
    return r[0], r[1]


def align_is_noop(cls, model):
    """Is stream.align() a no-op for classes of this codec module (uper.Encoder/Decoder.align: pass)?"""
    m = cls.mod
    out = {}
    for side in ('Encoder', 'Decoder'):
        c = m.classes.get(side)
        if c is None:
            return False
        r = c.find_method('align')
        if r is None:
            return False
        f = r[1]
        body = [s for s in f.body if not (isinstance(s, ast.Expr) and isinstance(s.value, ast.Constant))]
        out[side] = all(isinstance(s, ast.Pass) for s in body)
    return all(out.values())


# ---------------------------------------------------------------- tokens
ENC = {
    'append_bit': 'BIT', 'append_bits': 'FIELD', 'append_bytes': 'FIELDB', 'append_u8': 'FIELD8',
    'append_non_negative_binary_integer': 'FIELD', 'append_length_determinant': 'LENDET',
    'append_normally_small_non_negative_whole_number': 'NSNNWN', 'append_normally_small_length': 'NSL',
    'append_constrained_whole_number': 'CWN', 'append_unconstrained_whole_number': 'UWN',
    'append_integer': 'INT', 'append_unsigned_integer': 'UINT', 'align': 'ALIGN', 'align_always': 'ALIGN!',
}
DEC = {
    'read_bit': 'BIT', 'read_bits': 'FIELD', 'read_bytes': 'FIELDB', 'read_byte': 'FIELD8',
    'read_non_negative_binary_integer': 'FIELD', 'read_length_determinant': 'LENDET',
    'read_normally_small_non_negative_whole_number': 'NSNNWN', 'read_normally_small_length': 'NSL',
    'read_constrained_whole_number': 'CWN', 'read_unconstrained_whole_number': 'UWN',
    'read_integer': 'INT', 'read_unsigned_integer': 'UINT', 'align': 'ALIGN', 'align_always': 'ALIGN!',
    'read_tag': 'TAG', 'skip_bits': 'SKIP',
}
ZERO = {'offset', 'set_bit', 'reset', 'are_all_bits_zero', 'number_of_bytes', 'as_bytearray',
        'peek_bit', 'clear_bit', 'number_of_read_bits'}

def u(n):
    return ast.unparse(n)

def is_cfg_expr(e, env):
    """True if expr mentions only self.* attrs / constants / cfg locals."""
    for n in ast.walk(e):
        if isinstance(n, ast.Name):
            if n.id in ('self', 'None', 'True', 'False', 'len', 'isinstance', 'AdditionGroup', 'int', 'max', 'min'):
                continue
            k = env.get(n.id)
            if isinstance(k, tuple) and k[0] == 'const':
                continue
            if k == 'cfg':
                continue
            return False
        if isinstance(n, ast.Call):
            f = n.func
            if isinstance(f, ast.Name) and f.id in ('len', 'isinstance', 'int', 'max', 'min'):
                continue
            return False
    return True

def width_text(e, env, mult=1):
    if e is None:
        return '*'
    if is_cfg_expr(e, env):
        t = u(e)
        if isinstance(e, ast.Name) and ('~txt~' + e.id) in env:
            t = env['~txt~' + e.id]      # a local alias of a configuration expression
        if mult != 1:
            return '%d*(%s)' % (mult, t)
        return t
    return '*'

# formula: ('atom', text) | ('not', f) | ('and', [f]) | ('or', [f]) | ('nondet',) | ('const', bool)
def formula(e, env):
    if isinstance(e, ast.BoolOp):
        parts = [formula(v, env) for v in e.values]
        return ('and' if isinstance(e.op, ast.And) else 'or', parts)
    if isinstance(e, ast.UnaryOp) and isinstance(e.op, ast.Not):
        return ('not', formula(e.operand, env))
    if isinstance(e, ast.Constant):
        return ('const', bool(e.value))
    if isinstance(e, ast.Name) and isinstance(env.get(e.id), tuple) and env[e.id][0] == 'const':
        return ('const', bool(env[e.id][1]))
    if isinstance(e, ast.Name) and isinstance(env.get(e.id), tuple) and env[e.id][0] == 'bitvar':
        return ('bitvar', env[e.id][1])
    if isinstance(e, ast.Compare) and len(e.ops) == 1 and isinstance(e.ops[0], (ast.Is, ast.IsNot, ast.Eq, ast.NotEq)) \
            and isinstance(e.left, ast.Name) and isinstance(e.comparators[0], ast.Constant):
        k = env.get(e.left.id)
        cv = e.comparators[0].value
        res = None
        if isinstance(k, tuple) and k[0] == 'const':
            if isinstance(e.ops[0], (ast.Is, ast.IsNot)):
                res = (k[1] is cv)
            else:
                res = (k[1] == cv)
        elif cv is None and (k in ('read', 'data') or (isinstance(k, tuple) and k[0] == 'bitvar')) and isinstance(e.ops[0], (ast.Is, ast.IsNot)):
            res = False
        if res is not None:
            return ('const', res if isinstance(e.ops[0], (ast.Is, ast.Eq)) else (not res))
    if not is_cfg_expr(e, env):
        return ('nondet',)
    # canonicalise
    if isinstance(e, ast.Compare) and len(e.ops) == 1:
        op = e.ops[0]
        l, r = u(e.left), u(e.comparators[0])
        if isinstance(op, ast.IsNot):
            return ('not', ('atom', '%s is %s' % (l, r)))
        if isinstance(op, ast.NotEq):
            return ('not', ('atom', '%s == %s' % (l, r)))
        if isinstance(op, ast.Is):
            return ('atom', '%s is %s' % (l, r))
    return ('atom', u(e))

def atoms_of(f, acc):
    if f[0] == 'atom':
        acc.add(f[1])
    elif f[0] == 'not':
        atoms_of(f[1], acc)
    elif f[0] in ('and', 'or'):
        for p in f[1]:
            atoms_of(p, acc)

def evalf(f, asg):
    """3-valued: True/False/None"""
    k = f[0]
    if k == 'const':
        return f[1]
    if k == 'atom':
        return asg.get(f[1])
    if k in ('nondet', 'bitvar'):
        return None
    if k == 'not':
        v = evalf(f[1], asg)
        return None if v is None else (not v)
    vals = [evalf(p, asg) for p in f[1]]
    if k == 'and':
        if any(v is False for v in vals):
            return False
        if all(v is True for v in vals):
            return True
        return None
    if k == 'or':
        if any(v is True for v in vals):
            return True
        if all(v is False for v in vals):
            return False
        return None

# ---------------------------------------------------------------- path enumeration
class Abort(Exception):
    pass

MAXPATHS = 4000

class Enum:
    """Enumerate token paths of a method under a CONFIG assignment."""

    def __init__(self, cls, side, asg, atoms, notes, noalign=False):
        self.cls, self.side = cls, side
        self.asg = asg
        self.atoms = atoms  # collected atom texts
        self.notes = notes
        self.depth = 0
        self.noalign = noalign
        self.defcls = cls

    # state: (tokens tuple, env dict, done flag)
    def run_method(self, fname, stream_name_hint=None, argmap=None):
        r = find_method(self.cls, fname)
        if r is None:
            self.notes.add('unresolved self.%s' % fname)
            return [((('UNRESOLVED', fname),), {}, False)]
        c, f = r
        self.defcls = c
        env = {}
        params = [a.arg for a in f.args.args][1:]
        for p in params:
            if p in ('encoder', 'decoder', '_encoder', '_decoder', '_'):
                env[p] = 'stream'
            elif argmap and p in argmap:
                env[p] = argmap[p]
            else:
                env[p] = 'data' if self.side == 'enc' else 'cfg'
        states = [((), env, False)]
        out = self.block(f.body, states)
        return out

    def block(self, stmts, states):
        for s in stmts:
            new = []
            for st in states:
                if st[2]:
                    new.append(st)
                else:
                    new.extend(self.stmt(s, st))
            states = new
            if len(states) > MAXPATHS:
                raise Abort('too many paths')
        return states

    # -- expression: returns list of (tokens_to_add, resultkind) alternatives
    def expr_tokens(self, e, env):
        """Collect tokens for calls in e, evaluation order. Returns list of alternatives:
        each (tuple(tokens), kind) where kind in {'cfg','data','read','stream', ('bitvar',id), 'fresh'}"""
        alts = [((), None)]
        for call in self.calls_in_order(e):
            alts2 = []
            for toks, _ in alts:
                for t2, k2 in self.call_tokens(call, env):
                    alts2.append((toks + t2, k2))
            alts = alts2
        return alts

    def calls_in_order(self, e):
        res = []
        class V(ast.NodeVisitor):
            def visit_Call(s, n):
                for a in n.args:
                    s.visit(a)
                for k in n.keywords:
                    s.visit(k.value)
                s.visit(n.func)
                res.append(n)
            def visit_ListComp(s, n):
                res.append(n)
            visit_DictComp = visit_SetComp = visit_GeneratorExp = visit_ListComp
        V().visit(e)
        return res

    def is_stream(self, e, env):
        return isinstance(e, ast.Name) and env.get(e.id) == 'stream'

    def call_tokens(self, call, env):
        # comprehension containing stream reads -> LOOP
        if isinstance(call, (ast.ListComp, ast.DictComp, ast.SetComp, ast.GeneratorExp)):
            inner = []
            elts = [call.key, call.value] if isinstance(call, ast.DictComp) else [call.elt]
            body_alts = [((), None)]
            for el in elts:
                nb = []
                for toks, _ in body_alts:
                    for t2, k2 in self.expr_tokens(el, dict(env)):
                        nb.append((toks + t2, k2))
                body_alts = nb
            bodies = frozenset(t for t, _ in body_alts)
            if bodies == frozenset([()]):
                return [((), None)]
            it = u(call.generators[0].iter)
            return [((('LOOP', bodies),), 'read')]
        f = call.func
        if isinstance(f, ast.Attribute):
            recv, name = f.value, f.attr
            # stream primitive
            if self.is_stream(recv, env):
                table = ENC if self.side == 'enc' else DEC
                if name in table:
                    if name == 'align' and self.noalign:
                        return [((), None)]
                    return [((self.prim(table[name], call, env),), 'read' if self.side == 'dec' else None)]
                if name == 'set_bit' and self.side == 'enc':
                    return [((('SETBIT',),), None)]
                if name in ZERO:
                    return [((), 'read' if name in ('peek_bit',) else 'cfg')]
                if name == '__class__':
                    return [((), 'sub')]
                if name in ('append_length_determinant_chunks', 'read_length_determinant_chunks'):
                    return [((('CHUNKSHDR',),), 'read')]
                self.notes.add('unknown stream method %s' % name)
                return [((('UNKNOWN', name),), None)]
            # self.method(...stream...) -> inline
            if isinstance(recv, ast.Name) and recv.id == 'self':
                if any(self.is_stream(a, env) for a in call.args):
                    return self.inline(name, call, env)
                return [((), 'cfg')]
            # super().encode(...)
            if isinstance(recv, ast.Call) and isinstance(recv.func, ast.Name) and recv.func.id == 'super':
                if any(self.is_stream(a, env) for a in call.args):
                    return self.inline_super(name, call, env)
                return [((), 'cfg')]
            # child.encode(x, stream) / child.decode(stream) / encode_addition_group
            if any(self.is_stream(a, env) for a in call.args) and name in ('encode', 'decode', 'encode_addition_group'):
                return [((('CHILD',),), 'read')]
            # child.encode(x, fresh_sub_encoder)
            if name in ('encode', 'encode_addition_group') and any(isinstance(a, ast.Name) and env.get(a.id) == 'sub' for a in call.args):
                return [((), None)]
            # sub.align_always() etc on sub encoders: ignore
            if isinstance(recv, ast.Name) and env.get(recv.id) == 'sub':
                return [((), 'cfg')]
        return [((), None)]

    def prim(self, kind, call, env):
        a = call.args
        if kind == 'BIT':
            if self.side == 'enc' and a and isinstance(a[0], ast.Constant):
                return ('BIT', int(a[0].value))
            return ('BIT', '*')
        if kind == 'FIELD':
            w = a[1] if self.side == 'enc' else a[0]
            return ('FIELD', width_text(w, env))
        if kind == 'FIELDB':
            if self.side == 'enc':
                if a and isinstance(a[0], ast.Attribute) and a[0].attr == 'tag':
                    return ('TAG',)
                return ('FIELD', '*')
            return ('FIELD', width_text(a[0], env, 8))
        if kind == 'FIELD8':
            return ('FIELD', '8')
        if kind == 'CWN':
            args = a[1:] if self.side == 'enc' else a
            return ('CWN',) + tuple(width_text(x, env) for x in args)
        if kind == 'SKIP':
            return ('SKIP',)
        return (kind,)

    def inline(self, name, call, env):
        r = find_method(self.cls, name)
        if r is None:
            self.notes.add('unresolved self.%s' % name)
            return [((('UNRESOLVED', name),), None)]
        return self._inline_fn(r, call, env)

    def inline_super(self, name, call, env):
        # resolve in MRO after the class that defines current method: approximate: skip first definer
        # resolve in the MRO after the class that defines the method being inlined
        chain = self.cls.mro()
        if self.defcls in chain:
            chain = chain[chain.index(self.defcls) + 1:]
        for c in chain:
            if name in c.methods:
                return self._inline_fn((c, c.methods[name]), call, env)
        self.notes.add('super().%s unresolved' % name)
        return [((('UNRESOLVED', 'super.' + name),), None)]

    def _inline_fn(self, r, call, env):
        c, f = r
        self.depth += 1
        if self.depth > 6:
            self.depth -= 1
            return [((('DEEP',),), None)]
        params = [a.arg for a in f.args.args][1:]
        cenv = {}
        for p, a in zip(params, call.args):
            if self.is_stream(a, env):
                cenv[p] = 'stream'
            elif isinstance(a, ast.Name) and env.get(a.id) == 'sub':
                cenv[p] = 'stream_sub'
            elif is_cfg_expr(a, env):
                cenv[p] = 'cfg'
            else:
                cenv[p] = 'data' if self.side == 'enc' else 'read'
        for p in params[len(call.args):]:
            cenv[p] = 'cfg'
        for kw in call.keywords:
            if isinstance(kw.value, ast.Constant):
                cenv[kw.arg] = ('const', kw.value.value)
        # defaults for missing params that have constant defaults
        defaults = f.args.defaults
        if defaults:
            for p, d in zip(params[-len(defaults):], defaults):
                if p not in [x for x, _ in zip(params, call.args)] and p not in [k.arg for k in call.keywords]:
                    if isinstance(d, ast.Constant):
                        cenv[p] = ('const', d.value)
        saved = self.defcls
        self.defcls = c
        states = self.block(f.body, [((), cenv, False)])
        self.defcls = saved
        self.depth -= 1
        res = []
        for toks, e2, done in states:
            if done == 'raise':
                continue
            rk = e2.get('__ret__', None)
            res.append((toks, rk))
        if not res:
            return [((('RAISES',),), None)]
        # dedupe
        return list({(t, k if not isinstance(k, dict) else None) for t, k in res})

    # -- statements
    def stmt(self, s, st):
        toks, env, done = st
        if isinstance(s, ast.Expr):
            if isinstance(s.value, ast.Constant):
                return [st]
            return [(toks + t, env, False) for t, _ in self.expr_tokens(s.value, env)]
        if isinstance(s, ast.Pass):
            return [st]
        if isinstance(s, (ast.Assign, ast.AnnAssign)):
            value = s.value
            targets = s.targets if isinstance(s, ast.Assign) else [s.target]
            out = []
            for t, k in self.expr_tokens(value, env):
                e2 = dict(env)
                for tg in targets:
                    for nm in ast.walk(tg):
                        if isinstance(nm, ast.Name):
                            e2[nm.id] = self.classify(value, env, k, t)
                            e2.pop('~txt~' + nm.id, None)
                            if e2[nm.id] == 'cfg' and isinstance(tg, ast.Name):
                                e2['~txt~' + nm.id] = width_text(value, env)
                out.append((toks + t, e2, False))
            return out
        if isinstance(s, ast.AugAssign):
            out = []
            # encoder += sub  -> OPENBODY
            if isinstance(s.target, ast.Name) and env.get(s.target.id) == 'stream' and isinstance(s.op, ast.Add):
                return [(toks + (('OPENBODY',),), env, False)]
            for t, k in self.expr_tokens(s.value, env):
                e2 = dict(env)
                if isinstance(s.target, ast.Name):
                    old = env.get(s.target.id)
                    newk = self.classify(s.value, env, k, t)
                    if old in ('read', 'data') or newk in ('read', 'data'):
                        e2[s.target.id] = 'read' if self.side == 'dec' else 'data'
                    elif isinstance(old, tuple):
                        e2[s.target.id] = 'cfg' if newk in ('cfg', None) or isinstance(newk, tuple) else newk
                out.append((toks + t, e2, False))
            return out
        if isinstance(s, ast.Return):
            if s.value is None:
                return [(toks, env, True)]
            out = []
            for t, k in self.expr_tokens(s.value, env):
                e2 = dict(env)
                e2['__ret__'] = ('const', s.value.value) if isinstance(s.value, ast.Constant) else k
                out.append((toks + t, e2, True))
            return out
        if isinstance(s, ast.Raise):
            return [(toks, env, 'raise')]
        if isinstance(s, ast.If):
            return self.do_if(s, st)
        if isinstance(s, ast.For):
            return self.do_for(s, st)
        if isinstance(s, ast.While):
            # treat as loop of body
            body_states = self.block(s.body, [((), dict(env), False)])
            bodies = frozenset(t for t, _, d in body_states if d != 'raise')
            return [(toks + (('WHILE', bodies),), env, False)]
        if isinstance(s, ast.Try):
            # body; handlers that 'pass' (swallow) -> also path where body aborted midway: approximate: body paths only
            states = self.block(s.body, [st])
            res = []
            swallow = any(all(isinstance(x, ast.Pass) for x in h.body) for h in s.handlers)
            for t, e, d in states:
                if d == 'raise' and swallow:
                    res.append((t, e, False))
                else:
                    res.append((t, e, d))
            return res
        if isinstance(s, (ast.Break, ast.Continue)):
            return [(toks, env, 'break' if isinstance(s, ast.Break) else 'continue')]
        if isinstance(s, ast.Delete):
            return [st]
        self.notes.add('unhandled stmt %s' % type(s).__name__)
        return [st]

    def classify(self, value, env, k, toks):
        if isinstance(value, ast.Constant):
            return ('const', value.value)
        if isinstance(value, (ast.List, ast.Dict, ast.Set, ast.ListComp, ast.DictComp)) and not toks:
            return 'data' if self.side == 'enc' else 'read'
        if k == 'sub':
            return 'sub'
        # fresh sub-encoder
        if isinstance(value, ast.Call):
            f = value.func
            if (isinstance(f, ast.Name) and f.id == 'Encoder') or (isinstance(f, ast.Attribute) and f.attr == '__class__'):
                return 'sub'
            if isinstance(f, ast.Call) and isinstance(f.func, ast.Attribute) and f.func.attr == '__class__':
                return 'sub'
        if u(value).endswith('.__class__()'):
            return 'sub'
        # single read_bit -> bitvar
        if toks and len(toks) == 1 and toks[0][0] == 'BIT' and self.side == 'dec' and isinstance(value, ast.Call):
            return ('bitvar', id(value))
        if k == 'read' or any(t[0] not in ('ALIGN', 'ALIGN!') for t in toks):
            return 'read' if self.side == 'dec' else 'data'
        if is_cfg_expr(value, env):
            return 'cfg'
        # mentions data/read locals?
        kinds = set()
        for n in ast.walk(value):
            if isinstance(n, ast.Name):
                kk = env.get(n.id)
                if kk in ('data', 'read'):
                    kinds.add(kk)
                if isinstance(kk, tuple) and kk[0] == 'bitvar':
                    kinds.add('read')
        if kinds:
            return 'read' if self.side == 'dec' else 'data'
        return 'data' if self.side == 'enc' else 'read'

    def do_if(self, s, st):
        toks, env, done = st
        # tokens in the test (e.g. `if decoder.read_bit():`)
        out = []
        for t, k in self.expr_tokens(s.test, env):
            toks2 = toks + t
            f = formula(s.test, env)
            atoms_of(f, self.atoms)
            v = evalf(f, self.asg)
            _t = s.test
            _neg = False
            if isinstance(_t, ast.UnaryOp) and isinstance(_t.op, ast.Not):
                _t, _neg = _t.operand, True
            if isinstance(_t, ast.Call) and isinstance(k, tuple) and k[0] == 'const':
                v = bool(k[1]) != _neg
            bit_annot = None
            # `if decoder.read_bit():`  or `if bit:` / `if not decoder.read_bit()`
            test = s.test
            neg = False
            if isinstance(test, ast.UnaryOp) and isinstance(test.op, ast.Not):
                test, neg = test.operand, True
            if self.side == 'dec' and t and t[-1][0] == 'BIT' and isinstance(test, ast.Call):
                bit_annot = ('last', neg)
            branches = []
            if v is True or v is None:
                branches.append((s.body, True))
            if v is False or v is None:
                branches.append((s.orelse, False))
            for body, pol in branches:
                tk = toks2
                if bit_annot and tk and tk[-1][0] == 'BIT':
                    val = 1 if (pol != bit_annot[1]) else 0
                    tk = tk[:-1] + (('BIT', val),)
                elif f[0] == 'bitvar' or (f[0] == 'not' and f[1][0] == 'bitvar'):
                    # annotate most recent BIT '*' token
                    negv = f[0] == 'not'
                    val = 1 if (pol != negv) else 0
                    for i in range(len(tk) - 1, -1, -1):
                        if tk[i][0] == 'BIT' and tk[i][1] == '*':
                            tk = tk[:i] + (('BIT', val),) + tk[i + 1:]
                            break
                out.extend(self.block(body, [(tk, dict(env), False)]))
        return out

    def do_for(self, s, st):
        toks, env, done = st
        it = s.iter
        hdr = self.expr_tokens(it, env)
        out = []
        for t, k in hdr:
            e2 = dict(env)
            chunks = bool(t) and t[-1] == ('CHUNKSHDR',)
            loopvar_kind = 'cfg' if (is_cfg_expr(it, env) and not t) else ('read' if self.side == 'dec' else 'data')
            for nm in ast.walk(s.target):
                if isinstance(nm, ast.Name):
                    e2[nm.id] = loopvar_kind
            body_states = self.block(s.body, [((), dict(e2), False)])
            bodies = frozenset(bt for bt, _, d in body_states if d != 'raise')
            if chunks:
                tk = toks + t[:-1] + (('CHUNKS', bodies),)
            else:
                if bodies == frozenset([()]) or not bodies:
                    tk = toks + t
                else:
                    tk = toks + t + (('LOOP', bodies),)
            # env after loop: merge -> keep e2 but mark assigned vars as data/read
            out.append((tk, e2, False))
        return out


def final_paths(states):
    res = set()
    for toks, env, done in states:
        if done == 'raise':
            continue
        res.add(norm(toks))
    return res


def norm(toks):
    """normalise tokens: OPEN recognition, strip SKIP, nested normalisation"""
    out = []
    toks = list(toks)
    # deferred-bit idiom: a SETBIT patches the earliest literal BIT 0 of this path to 1
    while ('SETBIT',) in toks:
        i = toks.index(('SETBIT',))
        del toks[i]
        for j in range(len(toks)):
            if toks[j] == ('BIT', 0):
                toks[j] = ('BIT', 1)
                break
    for t in toks:
        if t[0] in ('LOOP', 'CHUNKS', 'WHILE'):
            out.append((t[0], frozenset(norm(b) for b in t[1])))
        else:
            out.append(t)
    # enc: LENDET, OPENBODY -> OPEN ; dec: LENDET, CHILD[, SKIP] -> OPEN ; LENDET, SKIP -> OPEN (unknown)
    res = []
    i = 0
    while i < len(out):
        t = out[i]
        if t == ('LENDET',) and i + 1 < len(out) and out[i + 1] == ('OPENBODY',):
            res.append(('OPEN',)); i += 2; continue
        res.append(t); i += 1
    return tuple(res)


def tok_match(e, d):
    if e == d:
        return True
    if e[0] != d[0]:
        return False
    if e[0] in ('LOOP', 'CHUNKS', 'WHILE'):
        return paths_subset(e[1], d[1])
    if len(e) != len(d):
        return False
    return all(a == b or a == '*' or b == '*' for a, b in zip(e[1:], d[1:]))


def seq_match(e, d):
    if len(e) != len(d):
        return False
    return all(tok_match(a, b) for a, b in zip(e, d))


def paths_subset(E, D):
    return all(any(seq_match(e, d) for d in D) for e in E)


def dec_norm(p):
    """decoder-side: LENDET CHILD [SKIP...] -> OPEN ; LENDET SKIP -> OPENSKIP; drop trailing SKIPs"""
    out = []
    i = 0
    p = list(p)
    while i < len(p):
        t = p[i]
        if t[0] in ('LOOP', 'CHUNKS', 'WHILE'):
            t = (t[0], frozenset(dec_norm(b) for b in t[1]))
        if t == ('LENDET',) and i + 1 < len(p) and p[i + 1] == ('CHILD',):
            out.append(('OPEN',)); i += 2
            while i < len(p) and p[i] == ('SKIP',):
                i += 1
            continue
        if t == ('LENDET',) and i + 1 < len(p) and p[i + 1] == ('SKIP',):
            out.append(('OPENSKIP',)); i += 2
            while i < len(p) and p[i] == ('SKIP',):
                i += 1
            continue
        if t == ('SKIP',):
            i += 1; continue
        out.append(t); i += 1
    return tuple(out)




def analyse_pair(cls, model, enc_name='encode', dec_name='decode', max_atoms=10, cap=None):
    """-> dict(status=..., problems=[(assignment, encoder path, decoder paths)], atoms=[...], assignments=n, notes=set)"""
    notes = set()
    atoms = set()
    noalign = align_is_noop(cls, model)
    for side, fn in (('enc', enc_name), ('dec', dec_name)):
        try:
            Enum(cls, side, {}, atoms, notes, noalign).run_method(fn)
        except Abort as e:
            return dict(status='ABORT ' + str(e), problems=[], atoms=[], assignments=0, notes=notes)
    atoms = sorted(atoms)
    if len(atoms) > max_atoms:
        return dict(status='TOO-MANY-ATOMS %d' % len(atoms), problems=[], atoms=atoms, assignments=0, notes=notes)
    problems = []
    nasg = 0
    enc_paths = 0
    for vals in itertools.product([True, False], repeat=len(atoms)):
        if cap is not None and nasg >= cap:
            notes.add('assignment enumeration capped at %d' % cap)
            break
        asg = dict(zip(atoms, vals))
        nasg += 1
        try:
            E = final_paths(Enum(cls, 'enc', asg, set(), notes, noalign).run_method(enc_name))
            D = final_paths(Enum(cls, 'dec', asg, set(), notes, noalign).run_method(dec_name))
        except Abort as e:
            return dict(status='ABORT ' + str(e), problems=[], atoms=atoms, assignments=nasg, notes=notes)
        D = {dec_norm(d) for d in D}
        enc_paths += len(E)
        for e in E:
            if not any(seq_match(e, d) for d in D):
                problems.append((asg, e, D))
    return dict(status='OK' if not problems else 'MISMATCH', problems=problems, atoms=atoms, assignments=nasg, notes=notes,
                encoder_paths=enc_paths)


def token_paths(cls, model, method, side):
    """Config-insensitive set of token paths of one method (used for sibling comparison)."""
    notes = set()
    atoms = set()
    noalign = align_is_noop(cls, model)
    Enum(cls, side, {}, atoms, notes, noalign).run_method(method)
    atoms = sorted(atoms)
    out = {}
    if len(atoms) > 10:
        raise AnalysisError('too many config atoms in %s.%s' % (cls.qname, method))
    for vals in itertools.product([True, False], repeat=len(atoms)):
        asg = dict(zip(atoms, vals))
        P = final_paths(Enum(cls, side, asg, set(), notes, noalign).run_method(method))
        if side == 'dec':
            P = {dec_norm(p) for p in P}
        out[tuple(sorted(asg.items()))] = P
    return atoms, out


def show_path(p):
    def one(t):
        if t[0] in ('LOOP', 'CHUNKS', 'WHILE'):
            return '%s{%s}' % (t[0], ' | '.join(sorted(show_path(b) for b in t[1])))
        if len(t) == 1:
            return t[0]
        return '%s(%s)' % (t[0], ','.join(str(x) for x in t[1:]))
    return ' '.join(one(t) for t in p) or '<nothing>'


def stream_classes(model, rel):
    """Type classes of a codec module that resolve encode(self, data, encoder) and decode(self, decoder)."""
    m = model.mod(rel)
    out = []
    for c in m.classes.values():
        if c.name in ('Encoder', 'Decoder', 'Compiler', 'CompiledType', 'PermittedAlphabet', 'Class', 'Tag'):
            continue
        e = find_method(c, 'encode')
        d = find_method(c, 'decode')
        if not e or not d:
            continue
        ea = [a.arg for a in e[1].args.args]
        da = [a.arg for a in d[1].args.args]
        if len(ea) != 3 or len(da) != 2:
            continue
        out.append(c)
    return out
