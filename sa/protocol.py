"""E1 -- stream-protocol conformance of encode/decode pairs (PER / UPER / OER type classes).

For every consistent assignment of truth values to the CONFIG atoms of a class (conditions built only
from self.* attributes, module constants and literals) the engine enumerates the token paths of
encode and of decode over the Encoder/Decoder vocabulary and requires  Paths(encode) <= Paths(decode).

The enumeration is an abstract interpretation of the method bodies (nothing of the repository is
executed).  Abstract values:

  ('const', v)            a literal
  ('cfg', text)           an expression over self.* / module constants / literals (canonical text,
                          local aliases substituted, so renaming or hoisting a local changes nothing)
  ('bit', uid, neg)       the value of one particular read_bit() of this path: branching on it fixes
                          the value of that BIT token on the path
  ('form', formula)       a boolean combination of config atoms / bits / unknowns
  ('opaque', 'read'|'data'|...)   run-time data
  ('stream',) ('sub',)    the encoder/decoder, a fresh sub-encoder
  ('tuple', [values])

`and` / `or` / conditional expressions short-circuit exactly as Python does, calls emit their tokens in
evaluation order wherever they occur (statement, test, argument, comprehension), helpers taking the
stream (methods of the class, its bases, or module functions) are inlined with their arguments bound.
Atoms that compare the same configuration term with integer literals are enumerated over consistent
value regions only (so `x > 255` / `x == 256` / `x <= 65536` are never assigned contradictory values).
See DESIGN.md section 3 (E1)."""
import ast
import builtins
import itertools

from .model import AnalysisError, Model, ClassInfo, Module


def find_method(cls, name):
    r = cls.find_method(name)
    if r is None:
        return None
    return r[0], r[1]


def align_is_noop(cls, model):
    """Is stream.align() a no-op for classes of this codec module (uper.Encoder/Decoder.align: pass)?"""
    m = cls.mod
    out = {}
    for side in ('Encoder', 'Decoder'):
        c = m.classes.get(side)
        if c is None:
            return False
        r = c.find_method('align')
        if r is None:
            return False
        f = r[1]
        body = [s for s in f.body if not (isinstance(s, ast.Expr) and isinstance(s.value, ast.Constant))]
        out[side] = all(isinstance(s, ast.Pass) for s in body) or \
            (len(body) == 1 and isinstance(body[0], ast.Return) and (body[0].value is None or isinstance(body[0].value, ast.Constant)))
    return all(out.values())


# ---------------------------------------------------------------- tokens
ENC = {
    'append_bit': 'BIT', 'append_bits': 'FIELD', 'append_bytes': 'FIELDB', 'append_u8': 'FIELD8',
    'append_non_negative_binary_integer': 'FIELD', 'append_length_determinant': 'LENDET',
    'append_normally_small_non_negative_whole_number': 'NSNNWN', 'append_normally_small_length': 'NSL',
    'append_constrained_whole_number': 'CWN', 'append_unconstrained_whole_number': 'UWN',
    'append_integer': 'INT', 'append_unsigned_integer': 'UINT', 'align': 'ALIGN', 'align_always': 'ALIGN!',
}
DEC = {
    'read_bit': 'BIT', 'read_bits': 'FIELD', 'read_bytes': 'FIELDB', 'read_byte': 'FIELD8',
    'read_non_negative_binary_integer': 'FIELD', 'read_length_determinant': 'LENDET',
    'read_normally_small_non_negative_whole_number': 'NSNNWN', 'read_normally_small_length': 'NSL',
    'read_constrained_whole_number': 'CWN', 'read_unconstrained_whole_number': 'UWN',
    'read_integer': 'INT', 'read_unsigned_integer': 'UINT', 'align': 'ALIGN', 'align_always': 'ALIGN!',
    'read_tag': 'TAG', 'skip_bits': 'SKIP',
}
ZERO = {'offset', 'set_bit', 'reset', 'are_all_bits_zero', 'number_of_bytes', 'as_bytearray',
        'peek_bit', 'clear_bit', 'number_of_read_bits'}
CFG_BUILTINS = {'len', 'isinstance', 'int', 'max', 'min', 'bool', 'abs', 'sorted', 'list', 'tuple', 'range', 'enumerate', 'reversed'}

CONST, CFG, BIT, FORM, OPAQUE, STREAM, SUB, TUPLE, SELF = 'const', 'cfg', 'bit', 'form', 'opaque', 'stream', 'sub', 'tuple', 'self'


def u(n):
    return ast.unparse(n)


def is_cfgish(v):
    return v[0] in (CONST, CFG, SELF)


def vtext(v):
    """Canonical text of a configuration-like value, or None."""
    if v[0] == CONST:
        return repr(v[1])
    if v[0] == CFG:
        return v[1]
    if v[0] == SELF:
        return 'self'
    if v[0] == TUPLE:
        ts = [vtext(x) for x in v[1]]
        if all(t is not None for t in ts):
            return '(%s)' % ', '.join(ts) if len(ts) != 1 else '(%s,)' % ts[0]
    return None


def wtext(v, mult=1):
    t = vtext(v)
    if t is None:
        return '*'
    if mult != 1:
        if v[0] == CONST and isinstance(v[1], int):
            return repr(mult * v[1])
        return '%d*(%s)' % (mult, t)
    return t


def paren(t):
    """Parenthesise a text when it is not atomic, via the ast printer (canonical)."""
    try:
        e = ast.parse(t, mode='eval').body
    except SyntaxError:
        return '(%s)' % t
    if isinstance(e, (ast.Name, ast.Attribute, ast.Constant, ast.Subscript, ast.Call)):
        return t
    return '(%s)' % t


def canon(text):
    try:
        return ast.unparse(ast.parse(text, mode='eval').body)
    except SyntaxError:
        return text


# ---------------------------------------------------------------- formulas
# formula: ('atom', text) | ('not', f) | ('and', [f]) | ('or', [f]) | ('nondet',) | ('const', bool) | ('bit', uid, neg)
ATOM_INFO = {}      # atom text -> ('gt', term text, int) | ('lt', term, int) | ('eq', term, int) : integer theory


def mk_atom(text, info=None):
    text = canon(text)
    if info is not None:
        ATOM_INFO[text] = info
    return ('atom', text)


def mk_not(f):
    if f[0] == 'const':
        return ('const', not f[1])
    if f[0] == 'not':
        return f[1]
    if f[0] == 'bit':
        return ('bit', f[1], not f[2])
    if f[0] == 'nondet':
        return f
    return ('not', f)


def cmp_formula(op, l, r):
    """Formula of `l <op> r` for two configuration-like values."""
    lt, rt = vtext(l), vtext(r)
    lc = l[1] if l[0] == CONST else None
    rc = r[1] if r[0] == CONST else None
    if l[0] == CONST and r[0] == CONST:
        try:
            res = {ast.Eq: lambda: lc == rc, ast.NotEq: lambda: lc != rc, ast.Lt: lambda: lc < rc, ast.LtE: lambda: lc <= rc,
                   ast.Gt: lambda: lc > rc, ast.GtE: lambda: lc >= rc, ast.Is: lambda: lc is rc, ast.IsNot: lambda: lc is not rc,
                   ast.In: lambda: lc in rc, ast.NotIn: lambda: lc not in rc}[type(op)]()
            return ('const', bool(res))
        except Exception:
            return ('nondet',)
    if lt is None or rt is None:
        return ('nondet',)
    # len(X) compared with 0 / 1 : the truth value of X
    def len_arg(t):
        if t.startswith('len(') and t.endswith(')'):
            try:
                e = ast.parse(t, mode='eval').body
            except SyntaxError:
                return None
            if isinstance(e, ast.Call) and isinstance(e.func, ast.Name) and e.func.id == 'len' and len(e.args) == 1:
                return u(e.args[0])
        return None
    la = len_arg(lt)
    if la is not None and isinstance(rc, int) and not isinstance(rc, bool):
        truth = mk_atom(la)
        if (isinstance(op, ast.Gt) and rc == 0) or (isinstance(op, ast.GtE) and rc == 1) or (isinstance(op, ast.NotEq) and rc == 0):
            return truth
        if (isinstance(op, ast.Eq) and rc == 0) or (isinstance(op, ast.Lt) and rc == 1) or (isinstance(op, ast.LtE) and rc == 0):
            return mk_not(truth)
    ra = len_arg(rt)
    if ra is not None and isinstance(lc, int) and not isinstance(lc, bool):
        flip = {ast.Lt: ast.Gt, ast.LtE: ast.GtE, ast.Gt: ast.Lt, ast.GtE: ast.LtE, ast.Eq: ast.Eq, ast.NotEq: ast.NotEq}.get(type(op))
        if flip is not None:
            return cmp_formula(flip(), r, l)
    L, R = paren(lt), paren(rt)
    isint = lambda c: isinstance(c, int) and not isinstance(c, bool)
    if isinstance(op, (ast.Is, ast.IsNot)):
        f = mk_atom('%s is %s' % (L, R))
        return f if isinstance(op, ast.Is) else mk_not(f)
    if isinstance(op, (ast.Eq, ast.NotEq)):
        if isint(rc):
            f = mk_atom('%s == %s' % (L, R), ('eq', L, rc))
        elif isint(lc):
            f = mk_atom('%s == %s' % (R, L), ('eq', R, lc))
        else:
            a, b = sorted([L, R])
            f = mk_atom('%s == %s' % (a, b))
        return f if isinstance(op, ast.Eq) else mk_not(f)
    if isinstance(op, (ast.In, ast.NotIn)):
        f = mk_atom('%s in %s' % (L, R))
        return f if isinstance(op, ast.In) else mk_not(f)
    # orderings: everything becomes  A > B
    def gt(a, b, ac, bc):
        A, B = paren(a), paren(b)
        if isint(bc):
            return mk_atom('%s > %s' % (A, B), ('gt', A, bc))
        if isint(ac):
            return mk_atom('%s > %s' % (A, B), ('lt', B, ac))     # c > T  ==  T < c
        return mk_atom('%s > %s' % (A, B))
    if isinstance(op, ast.Gt):
        return gt(lt, rt, lc, rc)
    if isinstance(op, ast.Lt):
        return gt(rt, lt, rc, lc)
    if isinstance(op, ast.LtE):
        return mk_not(gt(lt, rt, lc, rc))
    if isinstance(op, ast.GtE):
        return mk_not(gt(rt, lt, rc, lc))
    return ('nondet',)


def truth(v):
    k = v[0]
    if k == CONST:
        return ('const', bool(v[1]))
    if k == CFG:
        return mk_atom(v[1])
    if k == BIT:
        return ('bit', v[1], v[2])
    if k == FORM:
        return v[1]
    if k in (STREAM, SUB, SELF):
        return ('const', True)
    if k == TUPLE:
        return ('const', bool(v[1]))
    return ('nondet',)


def atoms_of(f, acc):
    if f[0] == 'atom':
        acc.add(f[1])
    elif f[0] == 'not':
        atoms_of(f[1], acc)
    elif f[0] in ('and', 'or'):
        for p in f[1]:
            atoms_of(p, acc)


def evalf(f, asg):
    """3-valued: True/False/None"""
    k = f[0]
    if k == 'const':
        return f[1]
    if k == 'atom':
        return asg.get(f[1])
    if k in ('nondet', 'bit'):
        return None
    if k == 'not':
        v = evalf(f[1], asg)
        return None if v is None else (not v)
    vals = [evalf(p, asg) for p in f[1]]
    if k == 'and':
        if any(v is False for v in vals):
            return False
        if all(v is True for v in vals):
            return True
        return None
    if k == 'or':
        if any(v is True for v in vals):
            return True
        if all(v is False for v in vals):
            return False
        return None


# ---------------------------------------------------------------- path enumeration
class Abort(Exception):
    pass


MAXPATHS = 4000
OPQ_R = (OPAQUE, 'read')
OPQ_D = (OPAQUE, 'data')
NONE = (CONST, None)


def assigned_names(stmts):
    out = set()
    for s in stmts:
        for n in ast.walk(s):
            if isinstance(n, ast.Name) and isinstance(n.ctx, (ast.Store, ast.Del)):
                out.add(n.id)
    return out


class _ModuleContext(object):
    """name-resolution context of a module-level function (stands in for the defining class)"""
    def __init__(self, mod):
        self.mod = mod
        self.methods = {}
        self.name = '<module %s>' % mod.rel
        self.qname = self.name

    def mro(self):
        return []

    def find_method(self, name):
        return None


class Enum:
    """Enumerate token paths of a method under a CONFIG assignment."""

    def __init__(self, cls, side, asg, atoms, notes, noalign=False):
        self.cls, self.side = cls, side
        self.asg = asg
        self.atoms = atoms  # collected atom texts
        self.notes = notes
        self.depth = 0
        self.noalign = noalign
        self.defcls = cls
        self.uid = 0
        self.opq = OPQ_R if side == 'dec' else OPQ_D

    # state: (tokens tuple, env dict, done flag)   done: False | True (returned) | 'raise' | 'break' | 'continue'
    def run_method(self, fname):
        r = find_method(self.cls, fname)
        if r is None:
            self.notes.add('unresolved self.%s' % fname)
            return [((('UNRESOLVED', fname),), {}, False)]
        c, f = r
        self.defcls = c
        env = {}
        params = [a.arg for a in f.args.args][1:]
        for p in params:
            if p in ('encoder', 'decoder', '_encoder', '_decoder') or (p == params[-1] and len(params) == (2 if self.side == 'enc' else 1)):
                env[p] = (STREAM,)
            else:
                env[p] = OPQ_D if self.side == 'enc' else (CFG, p)
        return self.block(f.body, [((), env, False)])

    def block(self, stmts, states):
        for s in stmts:
            new = []
            for st in states:
                if st[2]:
                    new.append(st)
                else:
                    new.extend(self.stmt(s, st))
            states = new
            if len(states) > MAXPATHS:
                raise Abort('too many paths')
        return states

    # ------------------------------------------------------------ expressions
    def bind(self, alts, fn):
        out = []
        for st, v in alts:
            if st[2]:
                out.append((st, v))
            else:
                out.extend(fn(st, v))
        if len(out) > MAXPATHS:
            raise Abort('too many paths')
        return out

    def ev_seq(self, exprs, st):
        """Evaluate expressions left to right -> [(state, [values])]"""
        alts = [(st, [])]
        for e in exprs:
            nxt = []
            for s0, vs in alts:
                if s0[2]:
                    nxt.append((s0, vs))
                    continue
                for s1, v in self.ev(e, s0):
                    nxt.append((s1, vs + [v]))
            alts = nxt
        return alts

    def branch(self, st, v):
        """-> [(state, polarity)] feasible outcomes of testing value v in state st"""
        f = truth(v)
        atoms_of(f, self.atoms)
        val = evalf(f, self.asg)
        out = []
        for pol in (True, False):
            if val is not None and val != pol:
                continue
            s2 = st
            if f[0] == 'bit':
                want = 1 if (pol != f[2]) else 0
                s2 = self.fix_bit(st, f[1], want)
                if s2 is None:
                    continue
            out.append((s2, pol))
        return out

    def fix_bit(self, st, uid, want):
        toks, env, done = st
        for i in range(len(toks) - 1, -1, -1):
            t = toks[i]
            if t[0] == 'BIT' and len(t) > 2 and t[2] == uid:
                if t[1] == '*':
                    return (toks[:i] + (('BIT', want, uid),) + toks[i + 1:], env, done)
                if t[1] != want:
                    return None
                return st
        return st       # the bit belongs to an enclosing frame: not tracked

    def ev(self, e, st):
        toks, env, done = st
        opq = self.opq
        if isinstance(e, ast.Constant):
            return [(st, (CONST, e.value))]
        if isinstance(e, ast.Name):
            if e.id in env:
                return [(st, env[e.id])]
            if e.id == 'self':
                return [(st, (SELF,))]
            if e.id in CFG_BUILTINS:
                return [(st, (CFG, e.id))]
            r = self.defcls.mod.resolve_name(e.id)
            if r is not None or hasattr(builtins, e.id):
                return [(st, (CFG, e.id))]      # a module-level constant / class / function, a builtin
            return [(st, opq)]
        if isinstance(e, ast.Attribute):
            def f(s1, b):
                if b[0] == SELF:
                    if e.attr not in ('encode', 'decode') and find_method(self.cls, e.attr) is not None:
                        return [(s1, ('bound', b, e.attr))]
                    return [(s1, (CFG, 'self.' + e.attr))]
                if b[0] == CFG:
                    return [(s1, (CFG, '%s.%s' % (paren(b[1]), e.attr)))]
                if b[0] in (STREAM, SUB):
                    if e.attr == '__class__':
                        return [(s1, ('subclass',))]
                    if b[0] == STREAM and (e.attr in ENC or e.attr in DEC or e.attr in ZERO or e.attr.endswith('_chunks') or e.attr == 'set_bit'):
                        return [(s1, ('bound', b, e.attr))]
                    if b[0] == SUB:
                        return [(s1, (OPAQUE, 'subcontent'))]       # what a sub-encoder holds (its value, its number of bits)
                    return [(s1, opq)]
                return [(s1, (OPAQUE, b[1] if b[0] == OPAQUE else opq[1]))]
            return self.bind(self.ev(e.value, st), f)
        if isinstance(e, ast.Subscript):
            def f(s1, vs):
                b, i = vs
                if b[0] == TUPLE and i[0] == CONST and isinstance(i[1], int) and -len(b[1]) <= i[1] < len(b[1]):
                    return [(s1, b[1][i[1]])]
                if b[0] in (CFG, CONST) and is_cfgish(i):
                    return [(s1, (CFG, '%s[%s]' % (paren(vtext(b)), vtext(i))))]
                if b[0] == CFG and i == (OPAQUE, 'idx'):
                    return [(s1, (CFG, '%s[_any_]' % paren(b[1])))]       # the current element of a configuration container
                return [(s1, (OPAQUE, b[1]) if b[0] == OPAQUE else opq)]
            idx = e.slice
            if isinstance(idx, ast.Slice):
                parts = [x for x in (idx.lower, idx.upper, idx.step) if x is not None]
                return self.bind(self.ev_seq([e.value] + parts, st), lambda s1, vs: [(s1, (OPAQUE, vs[0][1]) if vs[0][0] == OPAQUE else opq)])
            return self.bind(self.ev_seq([e.value, idx], st), f)
        if isinstance(e, ast.BinOp):
            def f(s1, vs):
                l, r = vs
                if l[0] == CONST and r[0] == CONST:
                    try:
                        c = compile(ast.Expression(ast.BinOp(ast.Constant(l[1]), e.op, ast.Constant(r[1]))), '<fold>', 'eval')
                        return [(s1, (CONST, _fold(l[1], e.op, r[1])))]
                    except Exception:
                        pass
                if is_cfgish(l) and is_cfgish(r):
                    t = ast.unparse(ast.BinOp(ast.parse(vtext(l), mode='eval').body, e.op, ast.parse(vtext(r), mode='eval').body))
                    return [(s1, (CFG, t))]
                return [(s1, opq)]
            return self.bind(self.ev_seq([e.left, e.right], st), f)
        if isinstance(e, ast.UnaryOp):
            def f(s1, v):
                if isinstance(e.op, ast.Not):
                    fo = mk_not(truth(v))
                    if fo[0] == 'const':
                        return [(s1, (CONST, fo[1]))]
                    if fo[0] == 'bit':
                        return [(s1, (BIT, fo[1], fo[2]))]
                    return [(s1, (FORM, fo))]
                if v[0] == CONST:
                    try:
                        return [(s1, (CONST, -v[1] if isinstance(e.op, ast.USub) else (+v[1] if isinstance(e.op, ast.UAdd) else ~v[1])))]
                    except Exception:
                        pass
                if v[0] == CFG:
                    return [(s1, (CFG, ast.unparse(ast.UnaryOp(e.op, ast.parse(v[1], mode='eval').body))))]
                return [(s1, opq)]
            return self.bind(self.ev(e.operand, st), f)
        if isinstance(e, ast.BoolOp):
            is_and = isinstance(e.op, ast.And)
            def chain(values, s0):
                first, rest = values[0], values[1:]
                def f(s1, v):
                    if not rest:
                        return [(s1, v)]
                    out = []
                    for s2, pol in self.branch(s1, v):
                        if pol == is_and:
                            out.extend(chain(rest, s2))     # decided by the remaining operands
                        else:
                            out.append((s2, v if v[0] in (CONST, BIT) else (CONST, not is_and)))
                    return out
                return self.bind(self.ev(first, s0), f)
            return chain(e.values, st)
        if isinstance(e, ast.IfExp):
            def f(s1, v):
                out = []
                for s2, pol in self.branch(s1, v):
                    out.extend(self.ev(e.body if pol else e.orelse, s2))
                return out
            return self.bind(self.ev(e.test, st), f)
        if isinstance(e, ast.Compare):
            def f(s1, vs):
                if len(e.ops) == 1:
                    return [(s1, self.compare(e.ops[0], vs[0], vs[1]))]
                fs = [truth(self.compare(op, a, b)) for op, a, b in zip(e.ops, vs, vs[1:])]
                if all(x[0] == 'const' for x in fs):
                    return [(s1, (CONST, all(x[1] for x in fs)))]
                if any(x[0] == 'nondet' for x in fs):
                    return [(s1, (FORM, ('nondet',)))]
                return [(s1, (FORM, ('and', fs)))]
            return self.bind(self.ev_seq([e.left] + list(e.comparators), st), f)
        if isinstance(e, ast.Call):
            return self.ev_call(e, st)
        if isinstance(e, (ast.ListComp, ast.SetComp, ast.GeneratorExp, ast.DictComp)):
            return self.ev_comp(e, st)
        if isinstance(e, (ast.Tuple, ast.List)):
            elts = [x.value if isinstance(x, ast.Starred) else x for x in e.elts]
            def f(s1, vs):
                if isinstance(e, ast.Tuple) and not any(isinstance(x, ast.Starred) for x in e.elts):
                    return [(s1, (TUPLE, vs))]
                if vs and all(is_cfgish(v) for v in vs):
                    return [(s1, (CFG, '[%s]' % ', '.join(vtext(v) for v in vs)))]
                return [(s1, (OPAQUE, 'fresh'))]
            return self.bind(self.ev_seq(elts, st), f)
        if isinstance(e, ast.Dict):
            exprs = [x for kv in zip(e.keys, e.values) for x in kv if x is not None]
            return self.bind(self.ev_seq(exprs, st), lambda s1, vs: [(s1, (OPAQUE, 'fresh'))])
        if isinstance(e, ast.Set):
            return self.bind(self.ev_seq(e.elts, st), lambda s1, vs: [(s1, (OPAQUE, 'fresh'))])
        if isinstance(e, ast.JoinedStr):
            exprs = [x.value for x in e.values if isinstance(x, ast.FormattedValue)]
            return self.bind(self.ev_seq(exprs, st), lambda s1, vs: [(s1, opq)])
        if isinstance(e, ast.Starred):
            return self.ev(e.value, st)
        if isinstance(e, ast.NamedExpr):
            def f(s1, v):
                e2 = dict(s1[1])
                e2[e.target.id] = v
                return [((s1[0], e2, s1[2]), v)]
            return self.bind(self.ev(e.value, st), f)
        if isinstance(e, ast.Lambda):
            return [(st, opq)]
        self.notes.add('unhandled expr %s' % type(e).__name__)
        return [(st, opq)]

    def compare(self, op, l, r):
        # a read bit compared with 0 / 1 / True / False
        for a, b, swapped in ((l, r, False), (r, l, True)):
            if a[0] == BIT and b[0] == CONST and b[1] in (0, 1, True, False) and isinstance(op, (ast.Eq, ast.NotEq, ast.Is, ast.IsNot)):
                same = isinstance(op, (ast.Eq, ast.Is))
                neg = a[2] != (not ((b[1] in (1, True)) == same))
                return (BIT, a[1], neg)
        if isinstance(op, (ast.Is, ast.IsNot)) and ((l[0] == CONST and l[1] is None) or (r[0] == CONST and r[1] is None)):
            other = r if (l[0] == CONST and l[1] is None) else l
            if other[0] in (BIT, STREAM, SUB, TUPLE, SELF) or other == OPQ_R or (other[0] == OPAQUE and other[1] == 'fresh'):
                return (CONST, isinstance(op, ast.IsNot))
        if isinstance(op, (ast.In, ast.NotIn)) and l[0] == CONST and r[0] == CFG:
            # `0 in self.index_to_member`: membership of a literal in a table of the object says something about the *contents* of the table, which the
            # enumeration of configuration atoms cannot keep consistent with other atoms about the same table (its length, ...): a free choice, like a read
            return (FORM, ('nondet',))
        if is_cfgish(l) and is_cfgish(r) or (l[0] == TUPLE and vtext(l)) or (r[0] == TUPLE and vtext(r)):
            if vtext(l) is not None and vtext(r) is not None:
                f = cmp_formula(op, l if l[0] != TUPLE else (CFG, vtext(l)), r if r[0] != TUPLE else (CFG, vtext(r)))
                if f[0] == 'const':
                    return (CONST, f[1])
                return (FORM, f)
        return (FORM, ('nondet',))

    # ------------------------------------------------------------ calls
    def ev_call(self, call, st):
        f = call.func
        args = list(call.args) + [k.value for k in call.keywords]
        if isinstance(f, ast.Attribute):
            def after(s1, vs):
                recv, avs = vs[0], vs[1:]
                return self.do_call(call, recv, f.attr, avs, s1)
            return self.bind(self.ev_seq([f.value] + args, st), after)
        if isinstance(f, ast.Name) and f.id == 'super' and not call.args:
            return [(st, ('super',))]
        def after2(s1, vs):
            fv, avs = vs[0], vs[1:]
            return self.do_call(call, None, fv, avs, s1)
        return self.bind(self.ev_seq([f] + args, st), after2)

    def tok(self, st, t):
        return (st[0] + (t,), st[1], st[2])

    def do_call(self, call, recv, name, avs, st):
        opq = self.opq
        npos = len(call.args)
        pos = avs[:npos]
        kws = {k.arg: v for k, v in zip(call.keywords, avs[npos:]) if k.arg}
        has_stream = any(v[0] == STREAM for v in avs)
        if recv is None:
            fv = name
            if fv[0] == 'bound':
                return self.do_call(call, fv[1], fv[2], avs, st)
            if fv[0] == CFG and has_stream and '.' in fv[1]:
                # a bound method of a configuration object held in a local: child.encode / child.decode
                try:
                    fe = ast.parse(fv[1], mode='eval').body
                except SyntaxError:
                    fe = None
                if isinstance(fe, ast.Attribute):
                    return self.do_call(call, (CFG, u(fe.value)), fe.attr, avs, st)
            # Encoder() / encoder.__class__()
            if fv[0] == 'subclass' or (fv[0] == CFG and fv[1] in ('Encoder',)):
                return [(st, (SUB,))]
            if fv[0] == CFG:
                fn = fv[1]
                if fn in ('int', 'bool') and len(pos) == 1 and pos[0][0] == BIT:
                    return [(st, pos[0])]
                if fn in ('bytearray', 'list', 'dict', 'set', 'bytes') and not has_stream:
                    return [(st, (OPAQUE, 'fresh'))]
                if has_stream or any(v[0] == SUB for v in avs):
                    r = self.defcls.mod.resolve_name(fn) if fn.isidentifier() else None
                    fdef = r if isinstance(r, ast.FunctionDef) else None
                    if fdef is not None:
                        return self.inline_fn(self.defcls, fdef, pos, kws, st, skip_self=False)
                    if has_stream:
                        self.notes.add('unknown function taking the stream: %s' % fn)
                        return [(self.tok(st, ('UNKNOWN', fn)), opq)]
                if all(is_cfgish(v) or (v[0] == TUPLE and vtext(v)) for v in avs) and not call.keywords:
                    return [(st, (CFG, '%s(%s)' % (fn, ', '.join(vtext(v) for v in avs))))]
            return [(st, opq)]
        # ---- method calls
        if recv[0] in (STREAM, SUB) and name == '__class__':
            return [(st, (SUB,))]
        if recv[0] == STREAM:
            table = ENC if self.side == 'enc' else DEC
            if name in table:
                if name == 'align' and self.noalign:
                    return [(st, NONE)]
                t = self.prim(table[name], pos, kws, call)
                if self.side == 'enc' and t[0] == 'FIELD' and any(v == (OPAQUE, 'subcontent') for v in pos):
                    # the accumulated content of a sub-encoder appended as one field: the body of an open type (same as `encoder += sub`)
                    t = ('OPENBODY',)
                if t[0] == 'BIT' and self.side == 'dec':
                    self.uid += 1
                    return [(self.tok(st, ('BIT', '*', self.uid)), (BIT, self.uid, False))]
                return [(self.tok(st, t), OPQ_R if self.side == 'dec' else NONE)]
            if name == 'set_bit' and self.side == 'enc':
                return [(self.tok(st, ('SETBIT',)), NONE)]
            if name in ZERO:
                return [(st, OPQ_R if name == 'peek_bit' else (OPAQUE, 'pos'))]
            if name in ('append_length_determinant_chunks', 'read_length_determinant_chunks'):
                return [(self.tok(st, ('CHUNKSHDR',)), opq)]
            # a method of the Encoder/Decoder class outside the vocabulary (a derived primitive, possibly one a refactoring
            # introduced): inlined, with `self` denoting the stream
            scls = self.stream_class()
            r = scls.find_method(name) if scls is not None else None
            if r is not None:
                return self.inline_fn(r[0], r[1], pos, kws, st, self_is_stream=True)
            self.notes.add('unknown stream method %s' % name)
            return [(self.tok(st, ('UNKNOWN', name)), opq)]
        if recv[0] == SUB:
            return [(st, (OPAQUE, 'pos'))]
        if recv[0] == SELF:
            builds_sub = False
            if not has_stream and self.side == 'enc':
                # a helper of the object that creates sub-encoders itself (Encoder() / encoder.__class__()) and hands them back
                r0 = find_method(self.cls, name)
                if r0 is not None:
                    builds_sub = any(isinstance(n_, ast.Call) and ((isinstance(n_.func, ast.Name) and n_.func.id == 'Encoder') or
                                                                  (isinstance(n_.func, ast.Attribute) and n_.func.attr == '__class__'))
                                     for n_ in ast.walk(r0[1]))
            if has_stream or any(v[0] == SUB for v in avs) or builds_sub:
                r = find_method(self.cls, name)
                if r is None:
                    self.notes.add('unresolved self.%s' % name)
                    return [(self.tok(st, ('UNRESOLVED', name)), opq)]
                if not has_stream and not builds_sub:
                    return [(st, opq)]      # works on a sub-encoder only: its content is spliced in by `encoder += sub`
                return self.inline_fn(r[0], r[1], pos, kws, st)
            if all(is_cfgish(v) for v in avs) and not call.keywords:
                return [(st, (CFG, 'self.%s(%s)' % (name, ', '.join(vtext(v) for v in avs))))]
            return [(st, opq)]
        if recv[0] == 'super':
            chain = self.cls.mro()
            if self.defcls in chain:
                chain = chain[chain.index(self.defcls) + 1:]
            for c in chain:
                if name in c.methods:
                    if has_stream:
                        return self.inline_fn(c, c.methods[name], pos, kws, st)
                    return [(st, opq)]
            self.notes.add('super().%s unresolved' % name)
            return [(self.tok(st, ('UNRESOLVED', 'super.' + name)), opq)]
        # child.encode(x, stream) / child.decode(stream) / group.encode_addition_group(data, stream)
        if has_stream and isinstance(call.func, ast.Attribute) and isinstance(call.func.value, (ast.Name, ast.Attribute)):
            # module.function(.., stream): a helper of another module of the package
            owner = self.defcls.mod.resolve(call.func.value)
            if isinstance(owner, Module):
                r = owner.resolve_name(name)
                if isinstance(r, ast.FunctionDef):
                    return self.inline_fn(self.defcls, r, pos, kws, st, skip_self=False)
        if has_stream:
            if name in ('encode', 'decode', 'encode_addition_group'):
                return [(self.tok(st, ('CHILD',)), OPQ_R if self.side == 'dec' else NONE)]
            return [(self.tok(st, ('CHILD', name)), opq)]
        if any(v[0] == SUB for v in avs):
            return [(st, opq)]
        if name == 'get' and recv[0] == CFG and avs and not all(is_cfgish(v) for v in avs):
            # a table lookup keyed by something read / by the data: the result may be None (`x = table.get(key); if x is None:` is a data-dependent branch)
            return [(st, (OPAQUE, 'lookup'))]
        if recv[0] in (CFG, CONST) and all(is_cfgish(v) for v in avs) and not call.keywords:
            return [(st, (CFG, '%s.%s(%s)' % (paren(vtext(recv)), name, ', '.join(vtext(v) for v in avs))))]
        if recv[0] == OPAQUE:
            return [(st, (OPAQUE, recv[1]))]
        return [(st, opq)]

    def prim(self, kind, a, kws, call=None):
        enc = self.side == 'enc'
        def arg(i, *names):
            if i < len(a):
                return a[i]
            for n in names:
                if n in kws:
                    return kws[n]
            return self.opq
        if kind == 'BIT':
            v = arg(0, 'bit')
            if enc and v[0] == CONST and v[1] in (0, 1, True, False):
                return ('BIT', int(v[1]))
            return ('BIT', '*')
        if kind == 'FIELD':
            return ('FIELD', wtext(arg(1, 'number_of_bits') if enc else arg(0, 'number_of_bits')))
        if kind == 'FIELDB':
            if enc:
                v = arg(0)
                if (v[0] == CFG and v[1].endswith('.tag')) or \
                        (call is not None and call.args and isinstance(call.args[0], ast.Attribute) and call.args[0].attr == 'tag'):
                    return ('TAG',)
                return ('FIELD', '*')
            return ('FIELD', wtext(arg(0, 'number_of_bytes'), 8))
        if kind == 'FIELD8':
            return ('FIELD', '8')
        if kind == 'CWN':
            names = ('minimum', 'maximum', 'number_of_bits')
            off = 1 if enc else 0
            return ('CWN',) + tuple(wtext(arg(off + i, names[i])) for i in range(3))
        if kind == 'SKIP':
            return ('SKIP',)
        return (kind,)

    def stream_class(self):
        want = 'Encoder' if self.side == 'enc' else 'Decoder'
        m = self.cls.mod
        c = m.classes.get(want)
        if c is None:
            r = m.resolve_name(want)
            c = r if isinstance(r, ClassInfo) else None
        if c is None:
            for b in self.cls.mro():
                c = b.mod.classes.get(want)
                if c is not None:
                    break
        return c

    def inline_fn(self, c, f, pos, kws, st, skip_self=True, self_is_stream=False):
        self.depth += 1
        if self.depth > 8:
            self.depth -= 1
            return [(self.tok(st, ('DEEP',)), self.opq)]
        params = [a.arg for a in f.args.args]
        if skip_self and not any(isinstance(d, ast.Name) and d.id == 'staticmethod' for d in f.decorator_list):
            params = params[1:]
        cenv = {}
        for p, v in zip(params, pos):
            cenv[p] = v
        defaults = f.args.defaults
        dmap = {}
        if defaults:
            allp = [a.arg for a in f.args.args]
            for p, d in zip(allp[-len(defaults):], defaults):
                dmap[p] = d
        for p in params[len(pos):]:
            if p in kws:
                cenv[p] = kws[p]
            elif p in dmap and isinstance(dmap[p], ast.Constant):
                cenv[p] = (CONST, dmap[p].value)
            else:
                cenv[p] = self.opq
        if self_is_stream:
            cenv[f.args.args[0].arg] = (STREAM,)
            if self.side == 'enc':
                # a parameter of an Encoder method on which the Encoder's own attributes / methods are used (other.value, other.number_of_bits,
                # other.number_of_bytes()) is another encoder: a sub-encoder whose content is spliced in
                own = set()
                for k_ in (c.mro() if hasattr(c, 'mro') else []):
                    own |= set(k_.methods)
                    init_ = k_.methods.get('__init__')
                    if init_ is not None:
                        own |= {t_.attr for n_ in ast.walk(init_) if isinstance(n_, ast.Assign) for t_ in n_.targets
                                if isinstance(t_, ast.Attribute) and isinstance(t_.value, ast.Name) and t_.value.id == 'self'}
                for p_ in params:
                    if cenv.get(p_, self.opq)[0] == OPAQUE:
                        used = {n_.attr for n_ in ast.walk(f) if isinstance(n_, ast.Attribute) and isinstance(n_.value, ast.Name) and n_.value.id == p_}
                        if used and used <= own and len(used & own) >= 1 and (used & {'value', 'number_of_bits', 'number_of_bytes', 'chunks', 'chunks_number_of_bits'}):
                            cenv[p_] = (SUB,)
        if f.args.vararg is not None:
            cenv[f.args.vararg.arg] = self.opq
        for a, d in zip(f.args.kwonlyargs, f.args.kw_defaults):
            cenv[a.arg] = kws.get(a.arg, (CONST, d.value) if isinstance(d, ast.Constant) else self.opq)
        saved = self.defcls
        if getattr(f, '_cls', None) is None and getattr(f, '_mod', None) is not None and f._mod is not c.mod:
            c = _ModuleContext(f._mod)       # names inside a module-level helper resolve in the helper's own module
        self.defcls = c
        states = self.block(f.body, [(st[0], cenv, False)])
        self.defcls = saved
        self.depth -= 1
        res = []
        seen = set()
        for toks, e2, done in states:
            if done == 'raise':
                item = ((toks, st[1], 'raise'), self.opq)
            else:
                item = ((toks, st[1], False), e2.get('__ret__', NONE))
            key = (item[0][0], item[0][2], repr(item[1]))
            if key not in seen:
                seen.add(key)
                res.append(item)
        return res

    def ev_comp(self, e, st):
        gen = e.generators[0]
        elts = [e.key, e.value] if isinstance(e, ast.DictComp) else [e.elt]
        def after(s1, itv):
            chunks = bool(s1[0]) and s1[0][-1] == ('CHUNKSHDR',)
            env2 = dict(s1[1])
            self.bind_loop_target(gen.target, gen.iter, itv, env2)
            alts = [((), env2, False)]
            # conditions then (nested generators are treated as part of the body) the element expressions
            body_states = []
            def run(s0):
                cur = [(s0, None)]
                for cond in gen.ifs:
                    nxt = []
                    for s2, _ in cur:
                        for s3, v in self.ev(cond, s2):
                            for s4, pol in self.branch(s3, v):
                                if pol:
                                    nxt.append((s4, None))
                                else:
                                    body_states.append(s4)
                    cur = nxt
                for g2 in e.generators[1:]:
                    cur = self.bind(cur, lambda s2, _v, g2=g2: self.ev(g2.iter, s2))
                    for s2, _ in cur:
                        self.bind_loop_target(g2.target, g2.iter, self.opq, s2[1])
                for el in elts:
                    cur = self.bind(cur, lambda s2, _v, el=el: self.ev(el, s2))
                body_states.extend(s2 for s2, _ in cur)
            run(alts[0])
            bodies = frozenset(t for t, _, d in body_states if d != 'raise')
            base = s1[0][:-1] if chunks else s1[0]
            if chunks:
                tk = base + (('CHUNKS', bodies),)
            elif bodies == frozenset([()]) or not bodies:
                tk = base
            else:
                tk = base + (('LOOP', bodies),)
            return [((tk, s1[1], False), OPQ_R if self.side == 'dec' and tk != base else (OPAQUE, 'fresh'))]
        return self.bind(self.ev(gen.iter, st), after)

    def bind_loop_target(self, target, iter_expr, itv, env):
        """Bind the loop variables: elements of a configuration container are configuration values named
        after the container (`self.additions[*]`), whatever the variable is called."""
        opq = self.opq
        def elem(v):
            if v[0] == CFG:
                t = v[1]
                for fn in ('reversed', 'sorted', 'list', 'tuple'):
                    if t.startswith(fn + '(') and t.endswith(')'):
                        t = t[len(fn) + 1:-1]
                if t.startswith('range(') or t.startswith('enumerate('):
                    return None
                return (CFG, '%s[_any_]' % paren(t))
            return None
        if isinstance(target, ast.Name):
            ev = elem(itv)
            if ev is None and itv[0] == CFG and itv[1].startswith('range('):
                ev = (OPAQUE, 'idx')
            env[target.id] = ev if ev is not None else ((OPAQUE, itv[1]) if itv[0] == OPAQUE else opq)
            return
        if isinstance(target, (ast.Tuple, ast.List)):
            if itv[0] == CFG and itv[1].startswith('enumerate(') and len(target.elts) == 2:
                inner = itv[1][len('enumerate('):-1]
                if isinstance(target.elts[0], ast.Name):
                    env[target.elts[0].id] = (OPAQUE, 'idx')
                self.bind_loop_target(target.elts[1], None, (CFG, inner), env)
                return
            for nm in ast.walk(target):
                if isinstance(nm, ast.Name):
                    if itv[0] == CFG:
                        env[nm.id] = (CFG, '%s[*].%s' % (paren(itv[1]), nm.id)) if False else (OPAQUE, 'cfgpart')
                    else:
                        env[nm.id] = (OPAQUE, itv[1]) if itv[0] == OPAQUE else opq
            return
        for nm in ast.walk(target):
            if isinstance(nm, ast.Name):
                env[nm.id] = opq

    # ------------------------------------------------------------ statements
    def assign_target(self, tg, v, env):
        if isinstance(tg, ast.Name):
            env[tg.id] = v
        elif isinstance(tg, (ast.Tuple, ast.List)):
            if v[0] == TUPLE and len(v[1]) == len(tg.elts) and not any(isinstance(x, ast.Starred) for x in tg.elts):
                for t2, v2 in zip(tg.elts, v[1]):
                    self.assign_target(t2, v2, env)
            else:
                for nm in ast.walk(tg):
                    if isinstance(nm, ast.Name):
                        env[nm.id] = (OPAQUE, v[1]) if v[0] == OPAQUE else self.opq
        # attribute / subscript stores do not change the local environment

    def stmt(self, s, st):
        toks, env, done = st
        if isinstance(s, ast.Expr):
            if isinstance(s.value, ast.Constant):
                return [st]
            return [s1 for s1, _ in self.ev(s.value, st)]
        if isinstance(s, (ast.Pass, ast.Delete, ast.Global, ast.Nonlocal, ast.Import, ast.ImportFrom)):
            return [st]
        if isinstance(s, (ast.Assign, ast.AnnAssign)):
            if s.value is None:
                return [st]
            targets = s.targets if isinstance(s, ast.Assign) else [s.target]
            out = []
            for s1, v in self.ev(s.value, st):
                if s1[2]:
                    out.append(s1)
                    continue
                e2 = dict(s1[1])
                for tg in targets:
                    # evaluate calls inside subscript/attribute targets (rare) is not needed for tokens
                    self.assign_target(tg, v, e2)
                out.append((s1[0], e2, False))
            return out
        if isinstance(s, ast.AugAssign):
            if isinstance(s.target, ast.Name) and env.get(s.target.id, (None,))[0] == STREAM and isinstance(s.op, ast.Add):
                return [s1 if s1[2] else self.tok(s1, ('OPENBODY',)) for s1, _ in self.ev(s.value, st)]
            out = []
            for s1, v in self.ev(s.value, st):
                if s1[2]:
                    out.append(s1)
                    continue
                e2 = dict(s1[1])
                if isinstance(s.target, ast.Name):
                    old = e2.get(s.target.id, self.opq)
                    if old[0] == CONST and v[0] == CONST:
                        try:
                            e2[s.target.id] = (CONST, _fold(old[1], s.op, v[1]))
                        except Exception:
                            e2[s.target.id] = self.opq
                    elif is_cfgish(old) and is_cfgish(v) and old[0] != SELF:
                        e2[s.target.id] = (CFG, ast.unparse(ast.BinOp(ast.parse(vtext(old), mode='eval').body, s.op, ast.parse(vtext(v), mode='eval').body)))
                    else:
                        e2[s.target.id] = self.opq if old[0] != OPAQUE else old
                out.append((s1[0], e2, False))
            return out
        if isinstance(s, ast.Return):
            if s.value is None:
                e2 = dict(env)
                e2['__ret__'] = NONE
                return [(toks, e2, True)]
            out = []
            for s1, v in self.ev(s.value, st):
                if s1[2]:
                    out.append(s1)
                    continue
                e2 = dict(s1[1])
                e2['__ret__'] = v
                out.append((s1[0], e2, True))
            return out
        if isinstance(s, ast.Raise):
            return [(toks, env, 'raise')]
        if isinstance(s, ast.Assert):
            return [st]
        if isinstance(s, ast.If):
            out = []
            for s1, v in self.ev(s.test, st):
                if s1[2]:
                    out.append(s1)
                    continue
                for s2, pol in self.branch(s1, v):
                    out.extend(self.block(s.body if pol else s.orelse, [(s2[0], dict(s2[1]), False)]))
            return out
        if isinstance(s, ast.For):
            return self.do_for(s, st)
        if isinstance(s, ast.While):
            e2 = dict(env)
            for nm in assigned_names(s.body):
                if nm in e2 and e2[nm][0] not in (STREAM, SUB):
                    e2[nm] = self.opq
            starts = []
            exits = False
            for s1, v in self.ev(s.test, ((), dict(e2), False)):
                if s1[2]:
                    continue
                for s2, pol in self.branch(s1, v):
                    if pol:
                        starts.append(s2)
            body_states = self.block(s.body, starts) if starts else []
            bodies = frozenset(t for t, _, d in body_states if d != 'raise')
            returned = [(toks + t, e, d) for t, e, d in body_states if d is True]
            res = [(toks + (('WHILE', bodies),) if bodies and bodies != frozenset([()]) else toks, e2, False)]
            # a `return` inside the loop ends the method after some iterations
            for t, e, d in returned:
                res.append((toks + (('WHILE', bodies),) if bodies else toks, e, True))
            return res
        if isinstance(s, ast.Try):
            states = self.block(s.body, [st])
            res = []
            for t, e, d in states:
                if d == 'raise' and s.handlers:
                    # the handler that catches it is not decided: every handler is an alternative
                    for h in s.handlers:
                        e3 = dict(e)
                        if h.name:
                            e3[h.name] = self.opq
                        res.extend(self.block(h.body, [(t, e3, False)]))
                elif not d and s.orelse:
                    res.extend(self.block(s.orelse, [(t, e, d)]))
                else:
                    res.append((t, e, d))
            if s.finalbody:
                fin = []
                for t, e, d in res:
                    for t2, e2, d2 in self.block(s.finalbody, [(t, e, False)]):
                        fin.append((t2, e2, d2 or d))
                res = fin
            return res
        if isinstance(s, (ast.Break, ast.Continue)):
            return [(toks, env, 'break' if isinstance(s, ast.Break) else 'continue')]
        if isinstance(s, ast.With):
            return self.block(s.body, [st])
        if isinstance(s, (ast.FunctionDef, ast.ClassDef)):
            return [st]
        self.notes.add('unhandled stmt %s' % type(s).__name__)
        return [st]

    def do_for(self, s, st):
        out = []
        for s1, itv in self.ev(s.iter, st):
            if s1[2]:
                out.append(s1)
                continue
            toks, env, _ = s1
            chunks = bool(toks) and toks[-1] == ('CHUNKSHDR',)
            e2 = dict(env)
            for nm in assigned_names(s.body):
                if nm in e2 and e2[nm][0] not in (STREAM, SUB):
                    e2[nm] = self.opq
            self.bind_loop_target(s.target, s.iter, itv, e2)
            body_states = self.block(s.body, [((), dict(e2), False)])
            bodies = frozenset(bt for bt, _, d in body_states if d != 'raise')
            base = toks[:-1] if chunks else toks
            if chunks:
                tk = base + (('CHUNKS', bodies),)
            elif bodies == frozenset([()]) or not bodies:
                tk = base
            else:
                tk = base + (('LOOP', bodies),)
            out.append((tk, e2, False))
            for bt, be, d in body_states:
                if d is True:       # `return` inside the loop body
                    out.append((tk, be, True))
            if s.orelse:
                out = out[:-1 - sum(1 for _bt, _be, d in body_states if d is True)] + \
                    self.block(s.orelse, [(tk, e2, False)]) + [(tk, be, True) for _bt, be, d in body_states if d is True]
        return out


def _fold(a, op, b):
    import operator
    table = {ast.Add: operator.add, ast.Sub: operator.sub, ast.Mult: operator.mul, ast.FloorDiv: operator.floordiv, ast.Mod: operator.mod,
             ast.LShift: operator.lshift, ast.RShift: operator.rshift, ast.BitOr: operator.or_, ast.BitAnd: operator.and_,
             ast.BitXor: operator.xor, ast.Pow: operator.pow, ast.Div: operator.truediv}
    if isinstance(op, (ast.Pow, ast.LShift)) and isinstance(b, int) and b > 4096:
        raise ValueError('too large')
    return table[type(op)](a, b)


def final_paths(states):
    res = set()
    for toks, env, done in states:
        if done == 'raise':
            continue
        res.add(norm(toks))
    return res


def strip_uid(t):
    if t[0] == 'BIT' and len(t) > 2:
        return t[:2]
    return t


def norm(toks):
    """normalise tokens: OPEN recognition, strip SKIP, nested normalisation"""
    out = []
    toks = [strip_uid(t) for t in toks]
    # deferred-bit idiom: a SETBIT patches the earliest literal BIT 0 of this path to 1
    while ('SETBIT',) in toks:
        i = toks.index(('SETBIT',))
        del toks[i]
        for j in range(len(toks)):
            if toks[j] == ('BIT', 0):
                toks[j] = ('BIT', 1)
                break
    for t in toks:
        if t[0] in ('LOOP', 'CHUNKS', 'WHILE'):
            out.append((t[0], frozenset(norm(b) for b in t[1])))
        else:
            out.append(t)
    # the content of a sub-encoder copied piece by piece (a loop over its chunks, then the rest) is one body:  LOOP{OPENBODY}* OPENBODY+  ->  OPENBODY
    def only_body(t_):
        return t_ == ('OPENBODY',) or (t_[0] == 'LOOP' and t_[1] and all(all(x_ == ('OPENBODY',) for x_ in b_) for b_ in t_[1]))
    merged = []
    for t in out:
        if only_body(t) and merged and merged[-1] == ('OPENBODY',):
            continue
        merged.append(('OPENBODY',) if only_body(t) else t)
    out = merged
    # enc: LENDET, OPENBODY -> OPEN ; dec: LENDET, CHILD[, SKIP] -> OPEN ; LENDET, SKIP -> OPEN (unknown)
    res = []
    i = 0
    while i < len(out):
        t = out[i]
        if t == ('LENDET',) and i + 1 < len(out) and out[i + 1] == ('OPENBODY',):
            res.append(('OPEN',)); i += 2; continue
        res.append(t); i += 1
    return tuple(res)


def tok_match(e, d):
    if e == d:
        return True
    if e[0] != d[0]:
        return False
    if e[0] in ('LOOP', 'CHUNKS', 'WHILE'):
        return paths_subset(e[1], d[1])
    if len(e) != len(d):
        return False
    return all(a == b or a == '*' or b == '*' for a, b in zip(e[1:], d[1:]))


def seq_match(e, d):
    if len(e) != len(d):
        return False
    return all(tok_match(a, b) for a, b in zip(e, d))


def paths_subset(E, D):
    return all(any(seq_match(e, d) for d in D) for e in E)


def dec_norm(p):
    """decoder-side: LENDET CHILD [SKIP...] -> OPEN ; LENDET SKIP -> OPENSKIP; drop trailing SKIPs"""
    out = []
    i = 0
    p = list(p)
    while i < len(p):
        t = p[i]
        if t[0] in ('LOOP', 'CHUNKS', 'WHILE'):
            t = (t[0], frozenset(dec_norm(b) for b in t[1]))
        if t == ('LENDET',) and i + 1 < len(p) and p[i + 1] == ('CHILD',):
            out.append(('OPEN',)); i += 2
            while i < len(p) and p[i] == ('SKIP',):
                i += 1
            continue
        if t == ('LENDET',) and i + 1 < len(p) and p[i + 1] == ('SKIP',):
            out.append(('OPENSKIP',)); i += 2
            while i < len(p) and p[i] == ('SKIP',):
                i += 1
            continue
        if t == ('SKIP',):
            i += 1; continue
        out.append(t); i += 1
    return tuple(out)


# ---------------------------------------------------------------- assignments
def assignments(atoms):
    """Consistent truth assignments of the atoms.  Atoms that compare one configuration term with integer
    literals (`T > c`, `T < c`, `T == c`) are evaluated on representative values of T (every literal and
    its neighbours); all other atoms are independent booleans."""
    groups = {}
    free = []
    for a in atoms:
        info = ATOM_INFO.get(a)
        if info is not None:
            groups.setdefault(info[1], []).append((a, info))
        else:
            free.append(a)
    group_vectors = []
    for term, members in sorted(groups.items()):
        cs = sorted({info[2] for _, info in members})
        cand = sorted({c + d for c in cs for d in (-1, 0, 1)})
        vecs = []
        for x in cand:
            vec = tuple((a, (x > info[2]) if info[0] == 'gt' else (x < info[2]) if info[0] == 'lt' else (x == info[2])) for a, info in members)
            if vec not in vecs:
                vecs.append(vec)
        group_vectors.append(vecs)
    for fvals in itertools.product([True, False], repeat=len(free)):
        base = dict(zip(free, fvals))
        for combo in itertools.product(*group_vectors):
            asg = dict(base)
            for vec in combo:
                asg.update(vec)
            yield asg


def collect_atoms(cls, model, names_sides, noalign, notes):
    atoms = set()
    for side, fn in names_sides:
        Enum(cls, side, {}, atoms, notes, noalign).run_method(fn)
    return sorted(atoms)


def analyse_pair(cls, model, enc_name='encode', dec_name='decode', max_atoms=11, cap=None):
    """-> dict(status=..., problems=[(assignment, encoder path, decoder paths)], atoms=[...], assignments=n, notes=set)"""
    notes = set()
    noalign = align_is_noop(cls, model)
    try:
        atoms = collect_atoms(cls, model, (('enc', enc_name), ('dec', dec_name)), noalign, notes)
    except Abort as e:
        return dict(status='ABORT ' + str(e), problems=[], atoms=[], assignments=0, notes=notes)
    if len(atoms) > max_atoms:
        return dict(status='TOO-MANY-ATOMS %d' % len(atoms), problems=[], atoms=atoms, assignments=0, notes=notes)
    problems = []
    nasg = 0
    enc_paths = 0
    for asg in assignments(atoms):
        if cap is not None and nasg >= cap:
            notes.add('assignment enumeration capped at %d' % cap)
            break
        nasg += 1
        try:
            E = final_paths(Enum(cls, 'enc', asg, set(), notes, noalign).run_method(enc_name))
            D = final_paths(Enum(cls, 'dec', asg, set(), notes, noalign).run_method(dec_name))
        except Abort as e:
            return dict(status='ABORT ' + str(e), problems=[], atoms=atoms, assignments=nasg, notes=notes)
        D = {dec_norm(d) for d in D}
        enc_paths += len(E)
        for e in E:
            if not any(seq_match(e, d) for d in D):
                problems.append((asg, e, D))
    return dict(status='OK' if not problems else 'MISMATCH', problems=problems, atoms=atoms, assignments=nasg, notes=notes,
                encoder_paths=enc_paths)


def token_paths(cls, model, method, side):
    """Config-insensitive set of token paths of one method (used for sibling comparison)."""
    notes = set()
    noalign = align_is_noop(cls, model)
    atoms = collect_atoms(cls, model, ((side, method),), noalign, notes)
    out = {}
    if len(atoms) > 11:
        raise AnalysisError('too many config atoms in %s.%s' % (cls.qname, method))
    for asg in assignments(atoms):
        P = final_paths(Enum(cls, side, asg, set(), notes, noalign).run_method(method))
        if side == 'dec':
            P = {dec_norm(p) for p in P}
        out[tuple(sorted(asg.items()))] = P
    return atoms, out


def show_path(p):
    def one(t):
        if t[0] in ('LOOP', 'CHUNKS', 'WHILE'):
            return '%s{%s}' % (t[0], ' | '.join(sorted(show_path(b) for b in t[1])))
        if len(t) == 1:
            return t[0]
        return '%s(%s)' % (t[0], ','.join(str(x) for x in t[1:]))
    return ' '.join(one(t) for t in p) or '<nothing>'


def stream_classes(model, rel):
    """Type classes of a codec module that resolve encode(self, data, encoder) and decode(self, decoder)."""
    m = model.mod(rel)
    out = []
    for c in m.classes.values():
        if c.name in ('Encoder', 'Decoder', 'Compiler', 'CompiledType', 'PermittedAlphabet', 'Class', 'Tag'):
            continue
        e = find_method(c, 'encode')
        d = find_method(c, 'decode')
        if not e or not d:
            continue
        ea = [a.arg for a in e[1].args.args]
        da = [a.arg for a in d[1].args.args]
        if len(ea) != 3 or len(da) != 2:
            continue
        out.append(c)
    return out
