"""A small forward dataflow over the statements of one function, for typestate rules of the shape
"after call K reported `done`, K is not called again".

The state is the set of values a boolean flag variable may have ({False}, {True}, {False, True}); the flag is the first
element of the tuple K returns (`done, offset = K(...)`) or K's result itself.  Branches on the flag refine the state,
loops are iterated to a fixpoint, break / continue / return / raise are followed.  Every call of K met while the flag
may be True is reported.
"""
import ast

F, T = False, True


def _callee(call):
    f = call.func
    if isinstance(f, ast.Name):
        return f.id
    if isinstance(f, ast.Attribute):
        return f.attr
    return None


class FlagTypestate(object):

    def __init__(self, func, callee_name):
        self.func = func
        self.callee = callee_name
        self.flags = set()          # names bound to the flag result of K
        self.violations = []        # (call node, flag name)
        self.calls = []             # every call of K seen
        for n in ast.walk(func):
            if isinstance(n, ast.Assign) and isinstance(n.value, ast.Call) and _callee(n.value) == callee_name:
                t = n.targets[0]
                if isinstance(t, (ast.Tuple, ast.List)) and t.elts and isinstance(t.elts[0], ast.Name):
                    self.flags.add(t.elts[0].id)
                elif isinstance(t, ast.Name):
                    self.flags.add(t.id)

    # state: dict flag -> frozenset of possible values; None = unreachable
    def initial(self):
        return {f: frozenset([F]) for f in self.flags}

    @staticmethod
    def join(a, b):
        if a is None:
            return b
        if b is None:
            return a
        return {k: a[k] | b[k] for k in a}

    def refine(self, st, test, truth):
        """state under `test` evaluating to `truth` (None when impossible)"""
        if st is None:
            return None
        if isinstance(test, ast.UnaryOp) and isinstance(test.op, ast.Not):
            return self.refine(st, test.operand, not truth)
        if isinstance(test, ast.Name) and test.id in self.flags:
            vals = st[test.id] & frozenset([truth])
            if not vals:
                return None
            out = dict(st)
            out[test.id] = vals
            return out
        if isinstance(test, ast.BoolOp):
            is_and = isinstance(test.op, ast.And)
            if is_and == truth:
                # all operands have the value `truth`
                cur = st
                for v in test.values:
                    cur = self.refine(cur, v, truth)
                return cur
            # at least one operand has the value `truth`: join of the alternatives
            out = None
            for v in test.values:
                out = self.join(out, self.refine(st, v, truth))
            return out
        return st

    def calls_in(self, node, st):
        if st is None or node is None:
            return
        for n in ast.walk(node):
            if isinstance(n, ast.Call) and _callee(n) == self.callee:
                if n not in self.calls:
                    self.calls.append(n)
                for fl in self.flags:
                    if T in st[fl] and not any(v[0] is n for v in self.violations):
                        self.violations.append((n, fl))

    def run(self):
        self._exits = []
        out = self.block(self.func.body, self.initial(), None)
        return self.violations

    def block(self, stmts, st, loop):
        """-> state after the statements (None when the end is unreachable); loop = {'break': [...], 'continue': [...]} of the innermost loop"""
        for s in stmts:
            if st is None:
                return None
            st = self.stmt(s, st, loop)
        return st

    def stmt(self, s, st, loop):
        if isinstance(s, ast.Assign):
            self.calls_in(s.value, st)
            st = dict(st)
            is_k = isinstance(s.value, ast.Call) and _callee(s.value) == self.callee
            for t in s.targets:
                names = [t] if isinstance(t, ast.Name) else (list(t.elts) if isinstance(t, (ast.Tuple, ast.List)) else [])
                for i, nm in enumerate(names):
                    if isinstance(nm, ast.Name) and nm.id in self.flags:
                        if is_k and i == 0:
                            st[nm.id] = frozenset([F, T])
                        elif isinstance(s.value, ast.Constant) and isinstance(s.value.value, bool) and isinstance(t, ast.Name):
                            st[nm.id] = frozenset([s.value.value])
                        else:
                            st[nm.id] = frozenset([F, T])
            return st
        if isinstance(s, (ast.Expr, ast.AugAssign, ast.AnnAssign)):
            self.calls_in(s, st)
            return st
        if isinstance(s, ast.Return):
            self.calls_in(s.value, st)
            return None
        if isinstance(s, ast.Raise):
            return None
        if isinstance(s, ast.Break):
            if loop is not None:
                loop['break'].append(st)
            return None
        if isinstance(s, ast.Continue):
            if loop is not None:
                loop['continue'].append(st)
            return None
        if isinstance(s, ast.If):
            self.calls_in(s.test, st)
            a = self.block(s.body, self.refine(st, s.test, True), loop)
            b = self.block(s.orelse, self.refine(st, s.test, False), loop)
            return self.join(a, b)
        if isinstance(s, (ast.While, ast.For)):
            head = st
            exit_state = None
            for _ in range(8):
                mine = {'break': [], 'continue': []}
                if isinstance(s, ast.While):
                    self.calls_in(s.test, head)
                    body_in = self.refine(head, s.test, True)
                    leave = self.refine(head, s.test, False)
                    if isinstance(s.test, ast.Constant) and s.test.value:
                        leave = None
                else:
                    self.calls_in(s.iter, head)
                    body_in = head
                    leave = head
                end = self.block(s.body, body_in, mine)
                back = end
                for c in mine['continue']:
                    back = self.join(back, c)
                new_head = self.join(head, back)
                exit_state = leave
                if s.orelse and leave is not None:
                    exit_state = self.block(s.orelse, leave, loop)
                for b in mine['break']:
                    exit_state = self.join(exit_state, b)
                if new_head == head:
                    break
                head = new_head
            return exit_state
        if isinstance(s, ast.Try):
            body_out = self.block(s.body, st, loop)
            anywhere = self.join(st, body_out)       # an exception may leave the body at any point
            out = self.block(s.orelse, body_out, loop) if s.orelse else body_out
            for h in s.handlers:
                out = self.join(out, self.block(h.body, anywhere, loop))
            if s.finalbody:
                out = self.block(s.finalbody, self.join(out, anywhere), loop) if out is not None else self.block(s.finalbody, anywhere, loop) and None
            return out
        if isinstance(s, ast.With):
            for it in s.items:
                self.calls_in(it.context_expr, st)
            return self.block(s.body, st, loop)
        if isinstance(s, (ast.FunctionDef, ast.ClassDef, ast.Pass, ast.Import, ast.ImportFrom, ast.Global, ast.Nonlocal, ast.Delete, ast.Assert)):
            return st
        self.calls_in(s, st)
        return st
