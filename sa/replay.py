"""E1b -- derived-width consistency by bounded evaluation of extracted arithmetic.

A *slice interpreter*: walks the top-level statements of an encode method, evaluates with the
checker's own evaluator (sa/evalexpr.py) the integer assignments that are closed under the given
bindings, descends into `if`s whose test is evaluable, skips everything else (loops, try blocks,
byte manipulation), and records the stream calls it meets as tokens (kind, value, width).  The
decode method is then walked the same way with its reads *replaying* the recorded tokens, and
every read whose width the decoder computed from earlier reads must request exactly the width the
encoder wrote.  Only closed integer arithmetic from the syntax tree is evaluated; no repository
code object is ever created or called."""
import ast

from .model import AnalysisError, walk_no_nested
from . import evalexpr

UNKNOWN = object()

ENC_CALLS = {
    'append_length_determinant': ('LENDET', 0, None),
    'append_non_negative_binary_integer': ('FIELD', 0, 1),
    'append_u8': ('FIELD8', 0, None),
    'append_bit': ('BIT', 0, None),
    'append_bytes': ('BYTES', 0, None),
    'append_bits': ('BITS', 0, 1),
    'append_unsigned_integer': ('UINT', 0, None),
    'append_integer': ('INT', 0, None),
    'append_normally_small_length': ('NSL', 0, None),
}
DEC_CALLS = {
    'read_length_determinant': ('LENDET', None),
    'read_non_negative_binary_integer': ('FIELD', 0),
    'read_byte': ('FIELD8', None),
    'read_bit': ('BIT', None),
    'read_bytes': ('BYTES', 0),
    'read_bits': ('BITS', 0),
    'read_unsigned_integer': ('UINT', None),
    'read_integer': ('INT', None),
    'read_normally_small_length': ('NSL', None),
}
COMPAT = {('FIELD', 'FIELD8'), ('FIELD8', 'FIELD'), ('FIELD', 'BITS'), ('BITS', 'FIELD')}


class Mismatch(Exception):
    pass


class Slice(object):

    def __init__(self, f, env, stream, side, tokens=None):
        self.f = f
        self.env = dict(env)
        self.stream = stream
        self.side = side
        self.tokens = tokens if tokens is not None else []
        self.pos = 0
        self.reads = []
        self.ret = None
        self.desync = False

    def value(self, e):
        # bindings given as source text (e.g. 'len(self.additions)', 'data[1]', 'self.number_of_bits')
        key = ast.unparse(e)
        if key in self.env:
            return self.env[key]
        if self.is_stream_call(e):
            return self.stream_call(e)
        # stream calls nested in the expression are performed first, in evaluation order, and their
        # results substituted (`decoder.read_length_determinant() - 1`)
        nested = [n for n in _calls_in_order(e) if self.is_stream_call(n)]
        if nested:
            unknown = False
            e = ast.parse(ast.unparse(e), mode='eval').body
            for n in [n for n in _calls_in_order(e) if self.is_stream_call(n)]:
                v = self.stream_call(n)
                if v is UNKNOWN or not isinstance(v, (int, bool, type(None), str, bytes)):
                    unknown = True
                else:
                    n.__class__ = ast.Constant
                    n.__dict__.clear()
                    n.value = v
                    n.kind = None
            if unknown:
                return UNKNOWN
            ast.fix_missing_locations(e)
        try:
            return evalexpr.ev(e, _Env(self))
        except (evalexpr.Unsupported, TypeError, KeyError, ZeroDivisionError, ValueError):
            return UNKNOWN

    def is_stream_call(self, e):
        if isinstance(e, ast.Call) and isinstance(e.func, ast.Attribute) and isinstance(e.func.value, ast.Name) and e.func.value.id == self.stream:
            return True
        # a bound stream method held in a local: `read_byte = decoder.read_byte`
        if isinstance(e, ast.Call) and isinstance(e.func, ast.Name) and isinstance(self.env.get(e.func.id), tuple) \
                and self.env[e.func.id][:1] == ('bound',):
            return True
        return False

    def touches_stream(self, node):
        return any(isinstance(n, ast.Name) and (n.id == self.stream or (isinstance(self.env.get(n.id), tuple) and self.env[n.id][:1] == ('bound',)))
                   for n in ast.walk(node))

    def lose_sync(self):
        """A statement the slice cannot follow touches the stream: from here on token positions are unknown."""
        if self.side == 'enc':
            self.tokens.append(('DESYNC', UNKNOWN, UNKNOWN, None))
        else:
            self.desync = True

    def stream_call(self, c):
        name = c.func.attr if isinstance(c.func, ast.Attribute) else self.env[c.func.id][1]
        if self.side == 'enc':
            if name not in ENC_CALLS:
                return UNKNOWN
            kind, vi, wi = ENC_CALLS[name]
            v = self.value(c.args[vi]) if vi is not None and len(c.args) > vi else UNKNOWN
            w = self.value(c.args[wi]) if wi is not None and len(c.args) > wi else UNKNOWN
            if kind == 'FIELD8':
                w = 8
            self.tokens.append((kind, v, w, c))
            return None
        if name not in DEC_CALLS:
            return UNKNOWN
        kind, wi = DEC_CALLS[name]
        want = self.value(c.args[wi]) if wi is not None and len(c.args) > wi else UNKNOWN
        if self.desync or self.pos >= len(self.tokens):
            self.reads.append((kind, want, None, c))
            return UNKNOWN
        tk, tv, tw, tc = self.tokens[self.pos]
        if tk == 'DESYNC':
            self.desync = True
            self.reads.append((kind, want, None, c))
            return UNKNOWN
        self.pos += 1
        self.reads.append((kind, want, self.tokens[self.pos - 1], c))
        if tk != kind and (tk, kind) not in COMPAT:
            raise Mismatch('decoder reads %s where the encoder wrote %s' % (kind, tk))
        if kind == 'BYTES' and want is not UNKNOWN and tv is not UNKNOWN:
            pass
        if want is not UNKNOWN and tw is not UNKNOWN and kind in ('FIELD', 'BITS') and want != tw:
            raise Mismatch('decoder reads a field of %s bits where the encoder wrote %s bits' % (want, tw))
        return tv

    def run(self):
        try:
            self.block(self.f.body)
        except _Return:
            pass
        return self

    def block(self, stmts):
        for s in stmts:
            if isinstance(s, ast.Assign):
                sv = s.value
                if isinstance(sv, ast.Attribute) and isinstance(sv.value, ast.Name) and sv.value.id == self.stream and \
                        (sv.attr in ENC_CALLS or sv.attr in DEC_CALLS) and isinstance(s.targets[0], ast.Name):
                    self.env[s.targets[0].id] = ('bound', sv.attr)
                    continue
                v = self.value(s.value)
                for t in s.targets:
                    self.bind(t, v)
            elif isinstance(s, ast.AugAssign):
                v = self.value(ast.BinOp(left=_load(s.target), op=s.op, right=s.value))
                self.bind(s.target, v)
            elif isinstance(s, ast.If):
                t = self.value(s.test)
                if t is UNKNOWN:
                    if any(self.touches_stream(x) for x in s.body + s.orelse):
                        self.lose_sync()
                    # names assigned inside become unknown
                    for n in ast.walk(s):
                        if isinstance(n, ast.Assign):
                            for tg in n.targets:
                                self.bind(tg, UNKNOWN)
                        elif isinstance(n, ast.AugAssign):
                            self.bind(n.target, UNKNOWN)
                        elif isinstance(n, ast.Call) and isinstance(n.func, ast.Attribute) and isinstance(n.func.value, ast.Name) and n.func.value.id != self.stream \
                                and n.func.value.id in self.env:
                            self.env[n.func.value.id] = UNKNOWN
                    continue
                self.block(s.body if t else s.orelse)
            elif isinstance(s, ast.Expr):
                if isinstance(s.value, ast.Call):
                    self.value(s.value)
            elif isinstance(s, ast.Return):
                if s.value is not None:
                    self.ret = self.value(s.value)
                    if self.ret is UNKNOWN and isinstance(s.value, ast.Tuple):
                        self.ret = tuple(self.value(e) for e in s.value.elts)
                raise _Return()
            elif isinstance(s, (ast.For, ast.While, ast.Try, ast.With)):
                if self.touches_stream(s):
                    self.lose_sync()
                for n in ast.walk(s):
                    if isinstance(n, (ast.Assign, ast.AugAssign)):
                        for tg in (n.targets if isinstance(n, ast.Assign) else [n.target]):
                            self.bind(tg, UNKNOWN)
                    elif isinstance(n, ast.Call) and isinstance(n.func, ast.Attribute) and isinstance(n.func.value, ast.Name) and n.func.value.id != self.stream:
                        # x.append(...) and the like: the object held by x may have changed
                        if n.func.value.id in self.env:
                            self.env[n.func.value.id] = UNKNOWN
                    elif isinstance(n, ast.For):
                        self.bind(n.target, UNKNOWN)
            elif isinstance(s, ast.Raise):
                raise _Return()

    def bind(self, t, v):
        if isinstance(t, ast.Name):
            self.env[t.id] = v
        elif isinstance(t, ast.Tuple):
            if isinstance(v, tuple) and len(v) == len(t.elts):
                for tt, vv in zip(t.elts, v):
                    self.bind(tt, vv)
            else:
                for tt in t.elts:
                    self.bind(tt, UNKNOWN)
        elif isinstance(t, (ast.Attribute, ast.Subscript)):
            self.env[ast.unparse(t)] = v


class _Return(Exception):
    pass


def _calls_in_order(e):
    res = []

    class V(ast.NodeVisitor):
        def visit_Call(s, n):
            s.visit(n.func)
            for a in n.args:
                s.visit(a)
            for k in n.keywords:
                s.visit(k.value)
            res.append(n)

        def visit_Lambda(s, n):
            pass
    V().visit(e)
    return res


def _load(t):
    import copy
    n = ast.parse(ast.unparse(t), mode='eval').body
    return n


class _Env(dict):
    """Name lookup for evalexpr: locals of the slice; UNKNOWN values make the expression unsupported."""

    def __init__(self, sl):
        self.sl = sl

    def __contains__(self, k):
        return k in self.sl.env and self.sl.env[k] is not UNKNOWN

    def __getitem__(self, k):
        v = self.sl.env[k]
        if v is UNKNOWN:
            raise KeyError(k)
        return v


def stream_param(f, side):
    names = [a.arg for a in f.args.args]
    for n in names:
        if n in (('encoder', '_encoder') if side == 'enc' else ('decoder', '_decoder')):
            return n
    raise AnalysisError('no stream parameter in %s' % f.name)


def bitmap_replay(enc, dec, n):
    """Replay oer.MembersType.encode_additions / decode_additions for n additions.
    -> (verdict, detail, header) with verdict in 'ok' | 'bad' | 'undecided'; header = (length determinant
    value, unused-bits value) or None.  'undecided' whenever a width is not a closed integer expression
    for the slice (never an alarm)."""
    try:
        e = Slice(enc, {'len(self.additions)': n, 'self.additions': [None] * n}, stream_param(enc, 'enc'), 'enc').run()
        d = Slice(dec, {}, stream_param(dec, 'dec'), 'dec', tokens=e.tokens).run()
    except Mismatch as ex:
        return 'bad', str(ex), None
    bitmap = [t for t in e.tokens if t[0] in ('FIELD', 'BITS') and t[2] == n and t[2] is not UNKNOWN]
    if not bitmap:
        return 'undecided', 'the encoder does not write a field of len(self.additions) bits the slice can evaluate', None
    bm = bitmap[-1]
    header = None
    idx = e.tokens.index(bm)
    lend = [t for t in e.tokens[:idx] if t[0] == 'LENDET']
    unused = [t for t in e.tokens[:idx] if t[0] in ('FIELD', 'FIELD8') and t[2] == 8]
    if lend and unused and lend[-1][1] is not UNKNOWN and unused[-1][1] is not UNKNOWN:
        header = (lend[-1][1], unused[-1][1])
    for kind, want, tok, call in d.reads:
        if tok is bm:
            if want is UNKNOWN:
                return 'undecided', 'the width of the decoder\'s bitmap read is not evaluable', header
            if want != n:
                return 'bad', 'the decoder reads a presence bitmap of %s bits, the encoder wrote %d' % (want, n), header
            return 'ok', '', header
    return 'undecided', 'the decoder read paired with the bitmap was not reached', header
