"""E1b -- derived-width consistency by bounded evaluation of extracted arithmetic.

A *slice interpreter*: walks the top-level statements of an encode method, evaluates with the
checker's own evaluator (sa/evalexpr.py) the integer assignments that are closed under the given
bindings, descends into `if`s whose test is evaluable, skips everything else (loops, try blocks,
byte manipulation), and records the stream calls it meets as tokens (kind, value, width).  The
decode method is then walked the same way with its reads *replaying* the recorded tokens, and
every read whose width the decoder computed from earlier reads must request exactly the width the
encoder wrote.  Only closed integer arithmetic from the syntax tree is evaluated; no repository
code object is ever created or called."""
import ast

from .model import AnalysisError, walk_no_nested
from . import evalexpr

UNKNOWN = object()

ENC_CALLS = {
    'append_length_determinant': ('LENDET', 0, None),
    'append_non_negative_binary_integer': ('FIELD', 0, 1),
    'append_u8': ('FIELD8', 0, None),
    'append_bit': ('BIT', 0, None),
    'append_bytes': ('BYTES', 0, None),
    'append_bits': ('BITS', 0, 1),
    'append_unsigned_integer': ('UINT', 0, None),
    'append_integer': ('INT', 0, None),
    'append_normally_small_length': ('NSL', 0, None),
}
DEC_CALLS = {
    'read_length_determinant': ('LENDET', None),
    'read_non_negative_binary_integer': ('FIELD', 0),
    'read_byte': ('FIELD8', None),
    'read_bit': ('BIT', None),
    'read_bytes': ('BYTES', 0),
    'read_bits': ('BITS', 0),
    'read_unsigned_integer': ('UINT', None),
    'read_integer': ('INT', None),
    'read_normally_small_length': ('NSL', None),
}
COMPAT = {('FIELD', 'FIELD8'), ('FIELD8', 'FIELD'), ('FIELD', 'BITS'), ('BITS', 'FIELD')}


class Mismatch(Exception):
    pass


class Slice(object):

    def __init__(self, f, env, stream, side, tokens=None):
        self.f = f
        self.env = dict(env)
        self.stream = stream
        self.side = side
        self.tokens = tokens if tokens is not None else []
        self.pos = 0
        self.reads = []
        self.ret = None

    def value(self, e):
        # bindings given as source text (e.g. 'len(self.additions)', 'data[1]', 'self.number_of_bits')
        key = ast.unparse(e)
        if key in self.env:
            return self.env[key]
        if isinstance(e, ast.Call) and isinstance(e.func, ast.Attribute) and isinstance(e.func.value, ast.Name) and e.func.value.id == self.stream:
            return self.stream_call(e)
        try:
            return evalexpr.ev(e, _Env(self))
        except (evalexpr.Unsupported, TypeError, KeyError, ZeroDivisionError, ValueError):
            return UNKNOWN

    def stream_call(self, c):
        name = c.func.attr
        if self.side == 'enc':
            if name not in ENC_CALLS:
                return UNKNOWN
            kind, vi, wi = ENC_CALLS[name]
            v = self.value(c.args[vi]) if vi is not None and len(c.args) > vi else UNKNOWN
            w = self.value(c.args[wi]) if wi is not None and len(c.args) > wi else UNKNOWN
            if kind == 'FIELD8':
                w = 8
            self.tokens.append((kind, v, w, c))
            return None
        if name not in DEC_CALLS:
            return UNKNOWN
        kind, wi = DEC_CALLS[name]
        want = self.value(c.args[wi]) if wi is not None and len(c.args) > wi else UNKNOWN
        if self.pos >= len(self.tokens):
            self.reads.append((kind, want, None, c))
            return UNKNOWN
        tk, tv, tw, tc = self.tokens[self.pos]
        self.pos += 1
        self.reads.append((kind, want, (tk, tv, tw, tc), c))
        if tk != kind and (tk, kind) not in COMPAT:
            raise Mismatch('decoder reads %s where the encoder wrote %s' % (kind, tk))
        if kind == 'BYTES' and want is not UNKNOWN and tv is not UNKNOWN:
            pass
        if want is not UNKNOWN and tw is not UNKNOWN and kind in ('FIELD', 'BITS') and want != tw:
            raise Mismatch('decoder reads a field of %s bits where the encoder wrote %s bits' % (want, tw))
        return tv

    def run(self):
        try:
            self.block(self.f.body)
        except _Return:
            pass
        return self

    def block(self, stmts):
        for s in stmts:
            if isinstance(s, ast.Assign):
                v = self.value(s.value)
                for t in s.targets:
                    self.bind(t, v)
            elif isinstance(s, ast.AugAssign):
                v = self.value(ast.BinOp(left=_load(s.target), op=s.op, right=s.value))
                self.bind(s.target, v)
            elif isinstance(s, ast.If):
                t = self.value(s.test)
                if t is UNKNOWN:
                    # names assigned inside become unknown
                    for n in ast.walk(s):
                        if isinstance(n, ast.Assign):
                            for tg in n.targets:
                                self.bind(tg, UNKNOWN)
                    continue
                self.block(s.body if t else s.orelse)
            elif isinstance(s, ast.Expr):
                if isinstance(s.value, ast.Call):
                    self.value(s.value)
            elif isinstance(s, ast.Return):
                if s.value is not None:
                    self.ret = self.value(s.value)
                    if self.ret is UNKNOWN and isinstance(s.value, ast.Tuple):
                        self.ret = tuple(self.value(e) for e in s.value.elts)
                raise _Return()
            elif isinstance(s, (ast.For, ast.While, ast.Try, ast.With)):
                for n in ast.walk(s):
                    if isinstance(n, (ast.Assign, ast.AugAssign)):
                        for tg in (n.targets if isinstance(n, ast.Assign) else [n.target]):
                            self.bind(tg, UNKNOWN)
            elif isinstance(s, ast.Raise):
                raise _Return()

    def bind(self, t, v):
        if isinstance(t, ast.Name):
            self.env[t.id] = v
        elif isinstance(t, ast.Tuple):
            if isinstance(v, tuple) and len(v) == len(t.elts):
                for tt, vv in zip(t.elts, v):
                    self.bind(tt, vv)
            else:
                for tt in t.elts:
                    self.bind(tt, UNKNOWN)
        elif isinstance(t, (ast.Attribute, ast.Subscript)):
            self.env[ast.unparse(t)] = v


class _Return(Exception):
    pass


def _load(t):
    import copy
    n = ast.parse(ast.unparse(t), mode='eval').body
    return n


class _Env(dict):
    """Name lookup for evalexpr: locals of the slice; UNKNOWN values make the expression unsupported."""

    def __init__(self, sl):
        self.sl = sl

    def __contains__(self, k):
        return k in self.sl.env and self.sl.env[k] is not UNKNOWN

    def __getitem__(self, k):
        v = self.sl.env[k]
        if v is UNKNOWN:
            raise KeyError(k)
        return v


def stream_param(f, side):
    names = [a.arg for a in f.args.args]
    for n in names:
        if n in (('encoder', '_encoder') if side == 'enc' else ('decoder', '_decoder')):
            return n
    raise AnalysisError('no stream parameter in %s' % f.name)
