"""E5 -- sibling rules shared by several properties."""
import ast
import re

from .model import AnalysisError, Model, walk_no_nested, norm_stmt
from . import flow

CODEC_RELS = {c: 'asn1tools/codecs/%s.py' % c for c in
              ('ber', 'der', 'per', 'uper', 'oer', 'jer', 'xer', 'gser', 'type_checker', 'constraints_checker')}


def members_encoders(model, codecs):
    """Methods that iterate over the members of a SEQUENCE/SET and look them up in `data`:
    functions of the codec modules with a parameter `data` that contain `<x>.name in data` /
    `name in data` or `data[<name>]`."""
    out = []
    for c in codecs:
        m = model.mod(CODEC_RELS[c])
        for f in [n for n in ast.walk(m.tree) if isinstance(n, ast.FunctionDef)]:
            if 'data' not in flow.param_names(f):
                continue
            if not (f.name.startswith('encode') or f.name in ('encode_members',)):
                continue
            ci = getattr(f, '_cls', None)
            if ci is None:
                continue
            # a member loop or a member parameter
            src = ast.unparse(f)
            if ('.name in data' in src or 'name in data' in src or 'data.get(' in src or 'data[name]' in src or '.name]' in src) \
                    and ('member' in src or 'optional' in src or 'addition' in src):
                out.append(f)
    return out


def presence_violations_in(f, cls, dname):
    """presence_violations for f and for the helpers of the object / module that f hands the container `dname` to (one level), with
    value tests in return expressions included (`return data[name] is not None`)."""
    out = []
    todo = [(f, dname)]
    seen = set()
    while todo:
        g, dn = todo.pop()
        if id(g) in seen:
            continue
        seen.add(id(g))
        out.extend(presence_violations(g, dn))
        for n in walk_no_nested(g):
            # value tests outside an `if`: return / assignment of  <container>[..] is (not) None
            if isinstance(n, (ast.Return, ast.Assign)) and n.value is not None:
                for c in ast.walk(n.value):
                    if isinstance(c, ast.Compare) and isinstance(c.ops[0], (ast.Is, ast.IsNot, ast.Eq, ast.NotEq)) and isinstance(c.comparators[0], ast.Constant) \
                            and c.comparators[0].value is None and isinstance(c.left, (ast.Subscript, ast.Call)) \
                            and isinstance(c.left.value if isinstance(c.left, ast.Subscript) else getattr(c.left.func, 'value', None), ast.Name) \
                            and (c.left.value if isinstance(c.left, ast.Subscript) else c.left.func.value).id == dn:
                        out.append((n, 'member presence is decided by comparing the value with None'))
            if isinstance(n, ast.Call) and len(seen) < 6:
                h = None
                skip = 0
                if isinstance(n.func, ast.Attribute) and isinstance(n.func.value, ast.Name) and n.func.value.id in ('self', 'cls') and cls is not None:
                    r = cls.find_method(n.func.attr)
                    h = r[1] if r else None
                    skip = 0 if h is not None and any(isinstance(d, ast.Name) and d.id == 'staticmethod' for d in h.decorator_list) else 1
                elif isinstance(n.func, ast.Name) and getattr(g, '_mod', None) is not None:
                    r = g._mod.resolve_name(n.func.id)
                    h = r if isinstance(r, ast.FunctionDef) else None
                if h is None:
                    continue
                params = [a.arg for a in h.args.args][skip:]
                for i, a in enumerate(n.args):
                    if isinstance(a, ast.Name) and a.id == dn and i < len(params):
                        todo.append((h, params[i]))
    return out


def presence_violations(f, dname='data'):
    """Presence of a SEQUENCE/SET member must be decided by membership (`name in data`), never by
    the value: None is the value of a present NULL, False/0/''/[] are ordinary values.
    Returns [(node, why)]."""
    bad = []
    for n in walk_no_nested(f):
        if isinstance(n, ast.Call) and isinstance(n.func, ast.Attribute) and n.func.attr in ('get', 'pop', 'setdefault') \
                and isinstance(n.func.value, ast.Name) and n.func.value.id == dname:
            bad.append((n, 'data.%s(...) replaces the membership test' % n.func.attr))
    # `if not data[name]` / `if data[name] is None` / `if value is None` where value = data[...]
    from_data = set()
    for a in walk_no_nested(f):
        if isinstance(a, ast.Assign) and isinstance(a.targets[0], ast.Name):
            v = a.value
            if (isinstance(v, ast.Subscript) and isinstance(v.value, ast.Name) and v.value.id == dname) or \
                    (isinstance(v, ast.Call) and isinstance(v.func, ast.Attribute) and isinstance(v.func.value, ast.Name) and v.func.value.id == dname):
                from_data.add(a.targets[0].id)
    for n in walk_no_nested(f):
        if isinstance(n, (ast.If, ast.IfExp, ast.While)):
            t = n.test
            hit = False
            for p in ast.walk(t):
                if isinstance(p, ast.Compare) and isinstance(p.ops[0], (ast.Is, ast.IsNot, ast.Eq, ast.NotEq)) \
                        and isinstance(p.comparators[0], ast.Constant) and p.comparators[0].value is None:
                    l = p.left
                    if (isinstance(l, ast.Name) and l.id in from_data) or \
                            (isinstance(l, ast.Subscript) and isinstance(l.value, ast.Name) and l.value.id == dname) or \
                            (isinstance(l, ast.Call) and isinstance(l.func, ast.Attribute) and isinstance(l.func.value, ast.Name) and l.func.value.id == dname):
                        hit = True
            if hit:
                bad.append((n, 'member presence is decided by comparing the value with None'))
            # truth value of the member value:  if not value / if value  (value = data[...])
            t2 = t.operand if isinstance(t, ast.UnaryOp) and isinstance(t.op, ast.Not) else None
            if t2 is not None:
                parts = t2.values if isinstance(t2, ast.BoolOp) else [t2]
                for p in parts:
                    if isinstance(p, ast.Name) and p.id in from_data:
                        bad.append((n, 'member presence is decided by the truth value of the member value'))
    return bad


def marker_handling(model, codecs=('ber', 'per', 'oer')):
    """{codec: (function, node, signature)}: what compile_members does when it meets `...` in the member list, as a
    name-independent signature derived from the path summaries of the loop body (sa/sem.py):
        for each path on which the member equals EXTENSION_MARKER:
            (the in/out-of-extension flag is toggled [`f = not f`] | set to a constant | untouched,
             the additions list is (re)started under which value of the toggled flag)"""
    from . import sem
    out = {}
    for c in codecs:
        m = model.mod(CODEC_RELS[c])
        comp = m.classes.get('Compiler')
        if comp is None or 'compile_members' not in comp.methods:
            raise AnalysisError('%s.Compiler.compile_members vanished' % c)
        f = comp.methods['compile_members']
        ps = sem.paths(f)
        if ps is None:
            raise AnalysisError('%s.Compiler.compile_members: too many paths' % c)
        node = None
        for n in walk_no_nested(f):
            if isinstance(n, ast.If) and 'EXTENSION_MARKER' in ast.unparse(n.test):
                node = n
        sig = set()
        found = False
        for p in sem.with_loop_bodies(ps):
            marker = [c_ for c_ in p.conds if 'EXTENSION_MARKER' in c_[0] and ' == ' in c_[0] and c_[1]]
            if not marker:
                continue
            found = True
            flag = 'untouched'
            flag_sym = None
            resets = []
            for name, val in p.env.items():
                if not isinstance(val, ast.AST):
                    continue
                t = sem.ctext(val)
                mm = re.match(r'^not \(?((\w+)@\d+)\)?$', t)
                if mm and mm.group(2) == name:
                    flag, flag_sym = 'toggled', mm.group(1)
                elif isinstance(val, ast.Constant) and isinstance(val.value, bool):
                    flag = 'set to %s' % val.value
            for name, val in p.env.items():
                if isinstance(val, ast.List) and not val.elts:
                    when = 'unconditionally'
                    if flag_sym is not None:
                        if (flag_sym, False) in p.cond_set():
                            when = 'when the toggled flag is true'
                        elif (flag_sym, True) in p.cond_set():
                            when = 'when the toggled flag is false'
                    else:
                        others = sorted(('' if c_[1] else 'not ') + re.sub(r'\w+@\d+', '_', c_[0]) for c_ in p.conds if c_ not in marker and '@' in c_[0])
                        when = 'under ' + ' & '.join(others) if others else 'unconditionally'
                    resets.append(when)
            sig.add((flag, tuple(sorted(resets))))
        if not found or node is None:
            raise AnalysisError('%s.Compiler.compile_members: no EXTENSION_MARKER branch' % c)
        out[c] = (f, node, ' | '.join('flag %s, additions restarted %s' % (fl, list(rs) or 'never') for fl, rs in sorted(sig)))
    return out


def emptiness_observers(model, rel):
    """External reads of <encoder>.number_of_bits used as an emptiness test (`> 0`, `== 0`) in a codec module."""
    m = model.mod(rel)
    out = []
    for f in [n for n in ast.walk(m.tree) if isinstance(n, ast.FunctionDef)]:
        if getattr(f, '_cls', None) is not None and f._cls.name in ('Encoder', 'Decoder'):
            continue
        for n in walk_no_nested(f):
            if isinstance(n, ast.Compare) and isinstance(n.left, ast.Attribute) and n.left.attr == 'number_of_bits' \
                    and isinstance(n.left.value, ast.Name) and 'encoder' in n.left.value.id \
                    and isinstance(n.comparators[0], ast.Constant) and n.comparators[0].value == 0:
                out.append((f, n))
    return out


def flush_after_append(cls):
    """Encoder methods in which `self.number_of_bits = 0` (a flush/reset) is executed *after* the bit
    count was increased in the same method: then number_of_bits can be 0 although bits were appended."""
    bad = []
    for name, f in cls.methods.items():
        if name in ('__init__', 'reset'):
            continue
        incs = [n for n in walk_no_nested(f) if isinstance(n, ast.AugAssign) and isinstance(n.op, ast.Add)
                and ast.unparse(n.target) == 'self.number_of_bits']
        zeros = [n for n in walk_no_nested(f) if isinstance(n, ast.Assign) and ast.unparse(n.targets[0]) == 'self.number_of_bits'
                 and isinstance(n.value, ast.Constant) and n.value.value == 0]
        for z in zeros:
            if any((i.lineno, i.col_offset) < (z.lineno, z.col_offset) for i in incs):
                bad.append((f, z))
    return bad


def reset_discipline(model, rel):
    """Calls <encoder>.reset() outside the Encoder class discard what was encoded so far.  That is only
    sound when nothing but the OPTIONAL/DEFAULT preamble was written, i.e. under a test that compares the
    encoder's bit count with the size of that preamble; deciding on `are_all_bits_zero()` alone would
    also discard members whose encoding happens to be all zero bits (FALSE, 0, first enumeration item).
    -> [(function, call, ok, why)]"""
    m = model.mod(rel)
    out = []
    for f in [n for n in ast.walk(m.tree) if isinstance(n, ast.FunctionDef)]:
        if getattr(f, '_cls', None) is not None and f._cls.name in ('Encoder', 'Decoder'):
            continue
        for c in walk_no_nested(f):
            if isinstance(c, ast.Call) and isinstance(c.func, ast.Attribute) and c.func.attr == 'reset' and not c.args \
                    and isinstance(c.func.value, ast.Name) and 'encoder' in c.func.value.id:
                enc = c.func.value.id
                gs = [ast.unparse(t) for t, pol in flow.guards_of(c, f) if pol]
                ok = any(('%s.number_of_bits' % enc) in g and ('==' in g or '<=' in g) for g in gs)
                out.append((f, c, ok, ' && '.join(gs)))
    return out


DATE_FIELDS = {'year': 4, 'month': 2, 'day': 2, 'hour': 2, 'minute': 2, 'second': 2, 'microsecond': 6}


def unpadded_date_fields(model, select=lambda name: True, rel='asn1tools/codecs/__init__.py'):
    """Time formatters (`*_from_datetime`) must place every numeric field of the date with a fixed, zero-filled width: through
    strftime directives, or through a format spec such as {:02d} / {:06d} / %06d.  A field formatted with `{}` / str() loses its
    leading zeros (fraction .05 -> .5), which changes the value the text denotes.
    -> [(function, number of fields formatted outside strftime, [(node, field, spec, width)])]"""
    out = []
    mod = model.mod(rel)
    for fname, fdef in sorted(mod.functions.items()):
        if not fname.endswith('_from_datetime') or not select(fname):
            continue
        bad = []
        nfmt = 0
        for n in walk_no_nested(fdef):
            parts = []       # (expression, format spec or None)
            if isinstance(n, ast.Call) and isinstance(n.func, ast.Attribute) and n.func.attr == 'format' and isinstance(n.func.value, ast.Constant) and isinstance(n.func.value.value, str):
                specs = re.findall(r'\{(\d*)(?::([^}]*))?\}', n.func.value.value)
                for i, a_ in enumerate(n.args):
                    spec = None
                    if all(idx == '' for idx, _ in specs):
                        if i < len(specs):
                            spec = specs[i][1]
                    else:
                        for idx, sp in specs:
                            if idx == str(i):
                                spec = sp
                    parts.append((a_, spec))
            elif isinstance(n, ast.JoinedStr):
                for v_ in n.values:
                    if isinstance(v_, ast.FormattedValue):
                        spec = ''.join(c_.value for c_ in v_.format_spec.values if isinstance(c_, ast.Constant)) if v_.format_spec is not None else None
                        parts.append((v_.value, spec))
            elif isinstance(n, ast.BinOp) and isinstance(n.op, ast.Mod) and isinstance(n.left, ast.Constant) and isinstance(n.left.value, str):
                specs = re.findall(r'%([0-9]*)[dis]', n.left.value)
                args_ = n.right.elts if isinstance(n.right, ast.Tuple) else [n.right]
                for i, a_ in enumerate(args_):
                    parts.append((a_, (specs[i] + 'd') if i < len(specs) and specs[i] else None))
            elif isinstance(n, ast.Call) and isinstance(n.func, ast.Name) and n.func.id in ('str', 'repr') and n.args:
                parts.append((n.args[0], None))
            for e_, spec in parts:
                for x_ in ast.walk(e_):
                    if isinstance(x_, ast.Attribute) and x_.attr in DATE_FIELDS:
                        nfmt += 1
                        width = DATE_FIELDS[x_.attr]
                        if not (spec is not None and re.match(r'^0%d[d]?$' % width, spec or '') is not None):
                            bad.append((n, x_.attr, spec, width))
        out.append((fdef, nfmt, bad))
    return out


# ---------------------------------------------------------------------------------------------------------------------------------
# conversion literal agreement: the octet/text conversions of an encode path and of the partner decode path use the same parameters
def _conversions(f, cls, depth=0, seen=None):
    """{kind: set of parameter texts} for the conversions made by f and by the helpers it calls (methods of the object, functions of
    the module; two levels): int<->octets (byteorder, signed), text<->octets (encoding), struct (format)."""
    seen = seen if seen is not None else set()
    out = {}
    if id(f) in seen:
        return out
    seen.add(id(f))

    def add(kind, val):
        out.setdefault(kind, set()).add(val)

    for n in walk_no_nested(f):
        if not isinstance(n, ast.Call):
            continue
        fn = n.func
        name = fn.attr if isinstance(fn, ast.Attribute) else (fn.id if isinstance(fn, ast.Name) else None)
        kw = {k.arg: ast.unparse(k.value) for k in n.keywords if k.arg}
        if name in ('to_bytes', 'from_bytes'):
            bo = kw.get('byteorder')
            if bo is None:
                pos = n.args[1] if len(n.args) > 1 else None
                bo = ast.unparse(pos) if pos is not None else "'big'" if name == 'from_bytes' and False else None
            add('int-octets', (bo or '?', kw.get('signed', 'False')))
        elif name in ('pack', 'unpack', 'pack_into', 'unpack_from') and n.args and (isinstance(fn, ast.Name) or ast.unparse(fn.value) in ('struct',)):
            add('struct', ast.unparse(n.args[0]))
        elif name in ('encode', 'decode') and isinstance(fn, ast.Attribute) and len(n.args) <= 2 and n.args \
                and (isinstance(n.args[0], ast.Constant) and isinstance(n.args[0].value, str) or ast.unparse(n.args[0]).endswith('ENCODING')):
            add('text-octets', ast.unparse(n.args[0]))
        elif depth < 2:
            g = None
            if isinstance(fn, ast.Attribute) and isinstance(fn.value, ast.Name) and fn.value.id == 'self' and cls is not None:
                r = cls.find_method(fn.attr)
                g = r[1] if r else None
            elif isinstance(fn, ast.Name) and getattr(f, '_mod', None) is not None:
                r = f._mod.resolve_name(fn.id)
                g = r if isinstance(r, ast.FunctionDef) else None
            if g is not None and g.name not in ('encode', 'decode', 'encode_content', 'decode_content'):
                for k, v in _conversions(g, cls, depth + 1, seen).items():
                    out.setdefault(k, set()).update(v)
    return out


def conversion_agreement(model, rel):
    """[(class, encode method, decode method, kind, encoder parameters, decoder parameters, ok)] for every class of the module that defines one
    side of an (encode, decode) / (encode_content, decode_content) pair and makes a conversion of the same kind on both sides."""
    out = []
    for c in model.mod(rel).classes.values():
        for en, dn in (('encode', 'decode'), ('encode_content', 'decode_content')):
            er, dr = c.find_method(en), c.find_method(dn)
            if not er or not dr or (er[1]._cls is not c and dr[1]._cls is not c):
                continue
            ce, cd = _conversions(er[1], c), _conversions(dr[1], c)
            for kind in sorted(set(ce) & set(cd)):
                out.append((c, er[1], dr[1], kind, ce[kind], cd[kind], ce[kind] == cd[kind]))
    return out


# ---------------------------------------------------------------------------------------------------------------------------------
# REAL text: the float reaches the shortest-round-trip formatter (str / repr / '{}') unrounded
_PREC = re.compile(r'\.(\d+|\{[^}]*\})?[eEfFgG%]') if 're' in globals() else None


def lossy_float_ops(f, aliases):
    """Operations in f that round the float held by one of `aliases` before it is turned into text: round(x, ..), a format specification with a precision
    below 17 significant digits (or a computed one) -- '{:.15g}'.format(x), '%.15g' % x, format(x, '.15g'), f'{x:.15g}' -- which two different doubles share.
    -> [(node, what)]"""
    import re as _re
    prec = _re.compile(r'\.(\d+|\{[^}]*\}|\*)[eEfFgG]')

    def is_alias(e):
        return isinstance(e, ast.Name) and e.id in aliases or (isinstance(e, ast.Call) and isinstance(e.func, ast.Name) and e.func.id in ('float', 'abs') and e.args and is_alias(e.args[0]))

    def low(spec):
        m = prec.search(spec)
        if not m:
            return False
        d = m.group(1)
        if d.isdigit():
            # %e / %f count digits after the point: 17 significant digits need .16e; be exact only for g
            need = 17 if spec[m.end() - 1] in 'gG' else 16
            return int(d) < need
        return True           # a computed precision
    out = []
    for n in walk_no_nested(f):
        if isinstance(n, ast.Call) and isinstance(n.func, ast.Name) and n.func.id == 'round' and n.args and is_alias(n.args[0]):
            out.append((n, 'round()'))
        elif isinstance(n, ast.Call) and isinstance(n.func, ast.Attribute) and n.func.attr == 'format' and isinstance(n.func.value, ast.Constant) and isinstance(n.func.value.value, str):
            if n.args and any(is_alias(a) for a in n.args) and low(n.func.value.value):
                out.append((n, 'format specification %r' % n.func.value.value))
        elif isinstance(n, ast.BinOp) and isinstance(n.op, ast.Mod) and isinstance(n.left, ast.Constant) and isinstance(n.left.value, str):
            args = n.right.elts if isinstance(n.right, ast.Tuple) else [n.right]
            if any(is_alias(a) for a in args) and low(n.left.value):
                out.append((n, 'format specification %r' % n.left.value))
        elif isinstance(n, ast.Call) and isinstance(n.func, ast.Name) and n.func.id == 'format' and len(n.args) == 2 and is_alias(n.args[0]):
            sp = n.args[1].value if isinstance(n.args[1], ast.Constant) and isinstance(n.args[1].value, str) else '.{}g'
            if low(sp):
                out.append((n, 'format(x, %s)' % ast.unparse(n.args[1])))
        elif isinstance(n, ast.FormattedValue) and is_alias(n.value) and n.format_spec is not None:
            sp = ''.join(v.value if isinstance(v, ast.Constant) else '{}' for v in n.format_spec.values)
            if low(sp):
                out.append((n, 'format specification %r' % sp))
    return out


def stale_derived_attributes(model, rels):
    """Attributes a constructor derives from a parameter that one of the object's set_* methods re-configures later (the compilers call set_size_range /
    set_restricted_to_range again on the copy of a referenced type when the reference carries its own constraint), assigned in __init__ only: after the second call the
    attribute still describes the first constraint.  -> (number of constructors that hand parameters to a setter, [(class, __init__, assignment, attr, params, setter name)])"""
    import ast as _ast
    from . import flow as _flow
    from .model import walk_no_nested as _wnn
    n = 0
    out = []
    for rel in rels:
        for c in model.mod(rel).classes.values():
            ini = c.methods.get('__init__')
            if ini is None:
                continue
            params = set(_flow.param_names(ini)) - {'self'}
            reconf = {}
            for x in _wnn(ini):
                if isinstance(x, _ast.Call) and isinstance(x.func, _ast.Attribute) and isinstance(x.func.value, _ast.Name) and x.func.value.id == 'self' and x.func.attr.startswith('set_'):
                    for a in list(x.args) + [k.value for k in x.keywords]:
                        if isinstance(a, _ast.Name) and a.id in params:
                            reconf.setdefault(a.id, x.func.attr)
            if not reconf:
                continue
            n += 1
            for a in _wnn(ini):
                if not (isinstance(a, (_ast.Assign, _ast.AugAssign))):
                    continue
                tgts = a.targets if isinstance(a, _ast.Assign) else [a.target]
                for t in tgts:
                    if not (isinstance(t, _ast.Attribute) and isinstance(t.value, _ast.Name) and t.value.id == 'self'):
                        continue
                    used = sorted({x.id for x in _ast.walk(a.value) if isinstance(x, _ast.Name)} & set(reconf))
                    if not used:
                        continue
                    # fine when the setter that receives the parameter assigns the attribute as well
                    ok = False
                    for u in used:
                        r = c.find_method(reconf[u])
                        if r and any(isinstance(y, _ast.Attribute) and isinstance(y.ctx, _ast.Store) and isinstance(y.value, _ast.Name) and y.value.id == 'self' and y.attr == t.attr
                                     for y in _wnn(r[1])):
                            ok = True
                    if not ok:
                        out.append((c, ini, a, t.attr, used, reconf[used[0]]))
            # ... and what is derived from the *attributes* the setter stores (directly or through a method of the object that reads them), after the setter ran
            for x in _wnn(ini):
                if not (isinstance(x, _ast.Call) and isinstance(x.func, _ast.Attribute) and isinstance(x.func.value, _ast.Name) and x.func.value.id == 'self' and x.func.attr.startswith('set_')):
                    continue
                r = c.find_method(x.func.attr)
                if r is None:
                    continue
                setter = r[1]
                stored = {y.attr for y in _wnn(setter) if isinstance(y, _ast.Attribute) and isinstance(y.ctx, _ast.Store) and isinstance(y.value, _ast.Name) and y.value.id == 'self'}

                def reads(e, depth=0):
                    got = {y.attr for y in _ast.walk(e) if isinstance(y, _ast.Attribute) and isinstance(y.ctx, _ast.Load) and isinstance(y.value, _ast.Name) and y.value.id == 'self'}
                    if depth < 2:
                        for y in _ast.walk(e):
                            if isinstance(y, _ast.Call) and isinstance(y.func, _ast.Attribute) and isinstance(y.func.value, _ast.Name) and y.func.value.id == 'self':
                                rr = c.find_method(y.func.attr)
                                if rr is not None and rr[1] is not ini:
                                    for st in rr[1].body:
                                        got |= reads(st, depth + 1)
                    return got
                for a in _wnn(ini):
                    if not isinstance(a, _ast.Assign) or a.lineno <= x.lineno:
                        continue
                    for t in a.targets:
                        if isinstance(t, _ast.Attribute) and isinstance(t.value, _ast.Name) and t.value.id == 'self' and t.attr not in stored:
                            used = sorted(reads(a.value) & stored)
                            # the setter refreshes it when it calls the same computing step
                            calls_same = any(isinstance(y, _ast.Call) and _ast.unparse(y.func) in {_ast.unparse(z.func) for z in _ast.walk(a.value) if isinstance(z, _ast.Call)
                                                                                                      and isinstance(z.func, _ast.Attribute) and isinstance(z.func.value, _ast.Name)
                                                                                                      and z.func.value.id == 'self'} for y in _wnn(setter))
                            if used and not calls_same and not any(o[2] is a for o in out):
                                out.append((c, ini, a, t.attr, ['self.' + u for u in used], setter.name))
    return n, out
