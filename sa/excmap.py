"""Exception-mapping facts that follow a function into the module-level helpers it hands its buffer to."""
import ast

from .model import walk_no_nested
from . import flow, sem


def buffer_helpers(f, buf, depth=2):
    """[(g, g's parameter bound to the buffer, call node)] for the functions of f's module that f calls with its buffer
    parameter `buf` as an argument (transitively, `depth` levels)."""
    out = []
    seen = {f}

    def walk(g, b, d):
        for n in walk_no_nested(g):
            if not (isinstance(n, ast.Call) and isinstance(n.func, ast.Name)):
                continue
            r = g._mod.resolve_name(n.func.id)
            if not isinstance(r, ast.FunctionDef) or r in seen:
                continue
            params = [a.arg for a in r.args.args]
            for pn, a in zip(params, n.args):
                if isinstance(a, ast.Name) and a.id == b:
                    seen.add(r)
                    out.append((r, pn, n))
                    if d > 1:
                        walk(r, pn, d - 1)
                    break
    walk(f, buf, depth)
    return out


def mapped(node, f, catches=('IndexError', 'Exception', 'LookupError'), raises='OutOfByteDataError'):
    """is the node inside a try whose handler catches one of `catches` and raises `raises` (directly or through an error factory)?"""
    for t in flow.enclosing_try_handlers(node, stop=f):
        for h in t.handlers:
            if flow.handler_catches(h, catches) and raises in sem.raised_names(h.body, f):
                return True
    return False


def index_sites(f, buf, raises='OutOfByteDataError'):
    """[(function, subscript node, mapped?)]: every non-slice subscript of the buffer in f and in the helpers that receive the buffer.
    A helper called from inside a mapping try is mapped as a whole."""
    out = []
    for n in walk_no_nested(f):
        if isinstance(n, ast.Subscript) and isinstance(n.value, ast.Name) and n.value.id == buf and not isinstance(n.slice, ast.Slice):
            out.append((f, n, mapped(n, f, raises=raises)))
    for g, pn, call in buffer_helpers(f, buf):
        caller = getattr(call, '_func', None)
        for n in walk_no_nested(g):
            if isinstance(n, ast.Subscript) and isinstance(n.value, ast.Name) and n.value.id == pn and not isinstance(n.slice, ast.Slice):
                out.append((g, n, mapped(n, g, raises=raises)))
    return out


def family_paths(f, buf):
    """path summaries of f and of the helpers that receive its buffer: [(function, paths or None)]"""
    out = [(f, sem.paths(f))]
    for g, pn, call in buffer_helpers(f, buf):
        out.append((g, sem.paths(g)))
    return out


CONVERSIONS = ('int.from_bytes', 'int', 'binascii.hexlify', 'hexlify', 'struct.unpack', 'unpack', 'struct.unpack_from')


def slice_conversions(f, buf):
    """Python slices truncate silently: a bounded slice `buf[a:b]` taken near the end of the data is shorter than b - a and
    int.from_bytes / int(hexlify(..), 16) of it is a *wrong number*, not an error.  For f and the helpers that receive its buffer:
    [(function, conversion text, slice text, guarded?)] for every conversion call whose argument contains a bounded slice of the buffer,
    on every path; guarded = a condition established before the conversion on that path mentions len(<buffer ...>) (the count of
    octets actually present was compared).  None for a function whose paths cannot be enumerated."""
    out = []
    fam = [(f, buf)] + [(g, pn) for g, pn, _c in buffer_helpers(f, buf)]
    for g, b in fam:
        ps = sem.paths(g)
        if ps is None:
            out.append((g, None, None, None))
            continue
        seen = {}
        for p in ps:
            k = 0
            for ev in p.events:
                if ev[0] == 'stmt':
                    k = ev[1]
                    continue
                if ev[0] != 'call' or len(ev) < 3 or not isinstance(ev[2], ast.Call):
                    continue
                try:
                    e = sem.parse_expr(ev[1])
                except SyntaxError:
                    continue
                if not isinstance(e, ast.Call) or ast.unparse(e.func) not in CONVERSIONS:
                    continue
                slices = [n for a in e.args for n in ast.walk(a) if isinstance(n, ast.Subscript) and isinstance(n.slice, ast.Slice)
                          and isinstance(n.value, ast.Name) and n.value.id == b and n.slice.upper is not None]
                # only the outermost conversion of a nest (int(hexlify(slice), 16) is one conversion)
                if not slices:
                    continue
                guarded = any('len(%s' % b in t for t, _pol in [(c[0], c[1]) for c in p.conds[:k]])
                key = (ev[2].lineno, ev[2].col_offset)
                prev = seen.get(key)
                if prev is None or (prev[3] and not guarded):
                    seen[key] = (g, ev[1], ast.unparse(slices[0]), guarded, ev[2])
        out.extend(seen.values())
    return out


def evaluate_decode_length(f):
    """Bounded evaluation (sa/evalexpr.py) of ber.decode_length on the length octets X.690 8.1.3 allows -- short form, minimal and non-minimal long forms -- followed
    by the contents, and on every proper prefix of them.  Expected: the complete header plus contents -> (length, offset behind the length octets); a prefix that
    ends inside the length octets -> OutOfByteDataError ("not yet known"); a complete header with contents missing -> MissingDataError.
    -> (cases that held, undecided, first failure text or None, first undecided reason or None)"""
    from . import evalexpr
    pn = flow.param_names(f)
    n_ok = n_und = 0
    bad = und = None
    headers = []
    for n in (0, 1, 5, 127, 128, 129, 200, 255, 256, 300):
        k = max(1, (n.bit_length() + 7) // 8)
        if n <= 127:
            headers.append((bytes([n]), n))
        headers.append((bytes([0x80 | k]) + n.to_bytes(k, 'big'), n))            # minimal long form (also for n <= 127: a legal BER form)
        headers.append((bytes([0x80 | (k + 1)]) + n.to_bytes(k + 1, 'big'), n))    # non-minimal long form
        headers.append((bytes([0x84]) + n.to_bytes(4, 'big'), n))
        headers.append((bytes([0x89]) + n.to_bytes(9, 'big'), n))                    # BER puts no bound on the number of length octets
    for header, n in headers:
        full = header + bytes(n)
        cases = [(full, (n, len(header))), (full + b'\x00\x01', (n, len(header)))]
        cases += [(header[:k], 'OutOfByteDataError') for k in range(0, len(header))]
        if n > 0:
            cases += [(header, 'MissingDataError'), (header + bytes(n - 1), 'MissingDataError')]
        for data, want, enforce_ in [(d_, w_, e_) for d_, w_ in cases for e_ in ((True, False) if len(pn) > 2 else (True,))]:
            env = {pn[0]: data, pn[1]: 0}
            if len(pn) > 2:
                env[pn[2]] = enforce_        # a definite length is treated alike whether or not the indefinite form would be allowed
            try:
                got, _e = evalexpr.run_function(f, env)
                got = tuple(got) if isinstance(got, (tuple, list)) else got
            except evalexpr.Raised as e:
                got = e.name
            except (evalexpr.Unsupported, KeyError, TypeError) as e:
                n_und += 1
                und = und or 'decode_length(%s): %s' % (data.hex(), e)
                continue
            if got != want:
                bad = bad or 'decode_length(%s, 0) gives %s, expected %s (length octets %s announce %d contents octets)' % (data.hex() or "b''", got, want, header.hex(), n)
            else:
                n_ok += 1
    # the indefinite form: (None, offset behind the 0x80 octet) where it is allowed, the library's decode error where it is not
    if len(pn) > 2:
        for enforce, want in ((False, (None, 1)), (True, 'DecodeError')):
            try:
                got, _e = evalexpr.run_function(f, {pn[0]: b'\x80\x02\x01\x00\x00\x00', pn[1]: 0, pn[2]: enforce})
                got = tuple(got) if isinstance(got, (tuple, list)) else got
            except evalexpr.Raised as e:
                got = e.name
            except (evalexpr.Unsupported, KeyError, TypeError) as e:
                n_und += 1
                und = und or 'decode_length(80.., enforce_definite=%s): %s' % (enforce, e)
                continue
            if got != want:
                bad = bad or 'decode_length(80 02 01 00 00 00, 0, enforce_definite=%s) gives %s, expected %s' % (enforce, got, want)
            else:
                n_ok += 1
    return n_ok, n_und, bad, und


def evaluate_is_end_of_data(f):
    """Bounded evaluation of ber.is_end_of_data(data, offset, end_offset): with a definite end, the end is reached iff offset >= end_offset and the offset is
    returned unchanged; with end_offset None (indefinite form) the end is the end-of-contents octets 00 00, which are consumed (offset + 2).
    -> (cases that held, undecided, first failure or None, first undecided reason or None)"""
    from . import evalexpr
    pn = flow.param_names(f)
    data = b'\x02\x01\x05\x00\x00\x04\x00'
    cases = [((data, 0, 3), (False, 0)), ((data, 3, 3), (True, 3)), ((data, 4, 3), (True, 4)), ((data, 2, 7), (False, 2)),
             ((data, 0, None), (False, 0)), ((data, 3, None), (True, 5)), ((data, 5, None), (False, 5)), ((data, 4, None), (False, 4))]
    n_ok = n_und = 0
    bad = und = None
    for args, want in cases:
        try:
            got, _e = evalexpr.run_function(f, dict(zip(pn, args)))
            got = (bool(got[0]), got[1]) if isinstance(got, (tuple, list)) and len(got) == 2 else got
        except evalexpr.Raised as e:
            got = e.name
        except (evalexpr.Unsupported, KeyError, TypeError) as e:
            n_und += 1
            und = und or 'is_end_of_data%s: %s' % (args[1:], e)
            continue
        if got != want:
            bad = bad or 'is_end_of_data(%s, %s, %s) gives %s, expected %s' % (args[0].hex(), args[1], args[2], got, want)
        else:
            n_ok += 1
    return n_ok, n_und, bad, und



def evaluate_probe(f):
    """Bounded evaluation of the BER length probe (decode_full_length and everything it calls: skip_tag_length_contents, skip_tag, decode_length, the exception
    classes and the handlers that map them to a result) on definite-length TLVs with low and high tag numbers, every length form, and *every prefix* of identifier +
    length octets as well as prefixes that end inside the contents or behind the message: the answer is None ("not yet known") while the identifier and length
    octets are incomplete and exactly len(header) + length afterwards -- never another number.
    -> (cases that held, undecided, first failure or None, first undecided reason or None)"""
    from . import evalexpr
    pn = flow.param_names(f)
    n_ok = n_und = 0
    bad = und = None
    for tag in (b'\x30', b'\x04', b'\xa0', b'\x7f\x21', b'\x5f\x81\x02', b'\x1f\x1f'):
        for n in (0, 1, 5, 127, 128, 200, 256, 300):
            k = max(1, (n.bit_length() + 7) // 8)
            forms = [bytes([0x80 | k]) + n.to_bytes(k, 'big'), bytes([0x80 | (k + 1)]) + n.to_bytes(k + 1, 'big')]
            if n <= 127:
                forms.append(bytes([n]))
            for lf in forms:
                header = tag + lf
                total = len(header) + n
                msg = header + bytes(n) + b'\x02\x01\x00'
                for cut in sorted(set(list(range(0, len(header) + 1)) + [len(header) + n // 2, total - 1, total, total + 2])):
                    if cut < 0 or cut > len(msg):
                        continue
                    want = None if cut < len(header) else total
                    try:
                        got, _e = evalexpr.run_function(f, {pn[0]: msg[:cut]})
                    except evalexpr.Raised as e:
                        got = 'raises %s' % e.name
                    except (evalexpr.Unsupported, KeyError, TypeError) as e:
                        n_und += 1
                        und = und or '%s(%s): %s' % (f.name, msg[:cut].hex(), e)
                        continue
                    if got != want:
                        bad = bad or '%s(%s) gives %s for a %d-octet prefix of a message of %d octets (identifier %s, length octets %s): expected %s' % (
                            f.name, msg[:cut][:12].hex() + ('..' if cut > 12 else ''), got, cut, total, tag.hex(), lf.hex(), want if want is not None else 'None ("not yet known")')
                    else:
                        n_ok += 1
    return n_ok, n_und, bad, und
