"""Regenerate /verif/MANIFEST.json from the property modules that exist (python -m sa.manifest)."""
import importlib
import json
import os

VERIF = os.path.dirname(os.path.dirname(os.path.abspath(__file__)))
PY = '/venv/bin/python'

LEVEL_TEXT = {
    'C01': 'Static necessary conditions of binary round-trip: encode/decode stream-protocol conformance of every PER/UPER/OER class (path-set inclusion under every configuration), encode/decode pairing in all dispatch tables, DEFAULT elide/restore pairing, derived-width consistency. Decides the shape, not value equality.',
    'C02': 'Static pairing/literal-agreement/REAL-formatting dataflow rules over jer.py and xer.py; decides structural necessary conditions, not document validity or value equality.',
    'C03': 'Static DER canonical-form obligations visible in code shape (SET sorted by tag, SET OF sorted, primitive-only encode paths, restricted time forms, definite lengths only, CHOICE forces EXPLICIT, minimal length/tag tables).',
    'C04': 'Static acceptance-shape rules for the BER decoder (indefinite allowed on constructed classes, length-is-None handling, constructed-tag aliases, order-insensitive member loop, no length minimality test, segments joined before text decoding).',
    'C05': 'Static agreement of PER Encoder/Decoder threshold and fragmentation tables with each other and the X.691 constants; UPER = PER minus alignment; SET ordering; PER-visible constraint plumbing.',
    'C06': 'Static agreement of OER width/short-form/tag tables between Encoder, Decoder and X.696 constants; universal tag table across codecs; fixed-size decisions; extension-bitmap arithmetic by bounded expression evaluation.',
    'C07': 'Static completeness of the unknown-extension path on every decode entry point of every decoding codec; skip-by-length def-use; lenient additions.',
    'C08': 'Static progress arguments: TAG_MISMATCH sentinel discipline, loop progress templates on every decode-reachable while loop, bounded wire-derived counts, decode purity.',
    'C09': 'Static analysis of the generated-code templates and C helper strings (pycparser): checked allocation before every buffer index, bounds check emitted before runtime-length access, encode/decode template pairing, helper registry closure/order, reject-not-mistranslate, C field type holds the range.',
    'C10': 'As C09 for the OER generator plus exact decision-table equivalence of static-length and integer-width tables between Python generator, C helpers and the Python OER codec.',
    'C11': 'Static constraint plumbing: every constrained kind reaches is_in_range -> ConstraintsError; check invoked on all three API entry points (must-pass-through); descriptor-key coverage on the reference path; extensible => unconstrained.',
    'C12': 'Static location-wrapper discipline at every named-child call and no-foreign-exception rule for data-keyed lookups.',
    'C13': 'Static who-may-write / idempotence-guard / option-taint rules over in-place rewrites of the specification dictionary.',
    'C14': 'Static lexer/grammar literal rules: comment pre-pass recognises string literals and preserves new-lines; no grammar literal fixes a white-space layout.',
    'C15': 'Static agreement of the length probe and the decoders (shared decode_length), exception->result mapping and handler order, no IndexError escape, tag continuation constants.',
    'C16': 'Static guard discipline of PER/OER Decoder primitives (every raw read of decoder state dominated by a remaining-bits test), no bypass, error hierarchy.',
    'C17': 'Static cache-key completeness/unambiguity and bypass rules (key clause only).',
    'C18': 'Effect analysis with interprocedural summaries: no runtime-reachable method writes state that outlives the call or its input; scratch objects are fresh per call.  A sufficient condition for statelessness under any interleaving.',
    'C19': 'Static shallow-copy discipline, DEFAULT conversion keyed on the resolved type, descriptor-key coverage on the reference path, lookup order.',
    'C20': 'Static quoting-sanitiser, emptiness-guard and REAL-format dataflow rules over gser.py.',
}
TECHNIQUE = {
    'C01': 'static analysis: AST path-set protocol conformance + dispatch-table pairing',
    'C02': 'static analysis: AST sibling pairing, literal agreement, def-use taint',
    'C03': 'static analysis: dispatch-table/sibling comparison, encode-path reachability, boundary tables',
    'C04': 'static analysis: class-attribute/MRO rules, dominance of length-is-None tests',
    'C05': 'static analysis: boundary-table extraction vs frozen X.691 constants, sibling path equality',
    'C06': 'static analysis: decision-table equivalence vs X.696 constants, tag-table agreement, bounded expression evaluation',
    'C07': 'static analysis: per-entry-point unknown-path completeness (contradiction rule), def-use',
    'C08': 'static analysis: sentinel result-check, loop progress templates, bound provenance, effect analysis',
    'C09': 'static analysis: pycparser bounds rules on C helper strings, template pairing, decision-table cell enumeration',
    'C10': 'static analysis: pycparser rules, template pairing, exact decision-table equivalence',
    'C11': 'static analysis: must-pass-through on API entry points, dispatch-table plumbing',
    'C12': 'static analysis: try/except wrapper discipline at named-child call sites, keyed-lookup taint',
    'C13': 'static analysis: taint of the specification dict, idempotence-guard table, option taint',
    'C14': 'static analysis: regex AST (re._parser) and grammar-literal lint',
    'C15': 'static analysis: shared-callee, except-order and constructor-argument rules',
    'C16': 'static analysis: guard dominance on decoder-state reads',
    'C17': 'static analysis: parameter-to-key dataflow completeness',
    'C18': 'static analysis: interprocedural effect (purity) analysis over the call graph',
    'C19': 'static analysis: copy-discipline effect rules, descriptor-key coverage',
    'C20': 'static analysis: sanitiser/taint and guard rules on text emission',
}
NOT_YET = 'check not built yet in this round (claimed partially in DESIGN.md; will be added)'


def main():
    checks = []
    na = []
    for i in range(1, 21):
        pid = 'C%02d' % i
        try:
            mod = importlib.import_module('sa.props.%s' % pid)
        except ImportError:
            na.append({'property_id': pid, 'reason': NOT_YET})
            continue
        checks.append({
            'property_id': pid,
            'quick_cmd': '%s -m sa.run --property %s --tier quick' % (PY, pid),
            'thorough_cmd': '%s -m sa.run --property %s --tier thorough' % (PY, pid),
            'evidence_file': 'evidence/%s.json' % pid,
            'replay_cmd_template': 'cat {path}',
            'engine': 'sa',
            'level_claimed': {'category': getattr(mod, 'LEVEL', 'other'), 'text': LEVEL_TEXT[pid], 'design_ref': 'DESIGN.md section 4 ' + pid},
            'level_note': getattr(mod, 'LEVEL_NOTE', None) or (
                'Decides structural necessary conditions only; the behavioural remainder (' + ' '.join(getattr(mod, 'EXPLANATION', '').split('Not decided:')[1:]).strip() +
                ') is not decided.  Trusted base: CPython ast, sa/model.py name/MRO/call resolution, rule tables in sa/props/%s.py.' % pid),
            'technique': TECHNIQUE[pid],
        })
    man = {
        'version': 1,
        'setup_cmd': '%s -m sa.selfcheck' % PY,
        'hooks': {'guard': 'ASN1TOOLS_VERIF', 'enable': 'none needed: the checks parse /repo sources with ast and never execute them',
                  'baseline_off_cmd': 'cd /repo && /venv/bin/python -m pytest -ra -q -p no:cacheprovider --timeout=900 --continue-on-collection-errors',
                  'source_commits': [], 'add_only': True},
        'engines': [{'name': 'sa', 'path': 'sa/', 'serves_properties': [c['property_id'] for c in checks],
                     'kind_free_text': 'custom static analysis over CPython ast (+ pycparser for the C helper strings): program model, call graph, '
                                       'effect analysis, path/protocol engine, loop templates, decision-table equivalence'}],
        'checks': checks,
        'notes': 'All checks are static: they parse /repo/asn1tools/**/*.py on every run and never import or execute repository code. '
                 'Exit 0 = all rule instances hold (KNOWN-FINDING lines for entries of KNOWN_FINDINGS.txt); exit 1 = unlisted violation; exit 2 = ANALYSIS-ERROR.',
        'not_applicable': na,
    }
    with open(os.path.join(VERIF, 'MANIFEST.json'), 'w') as fh:
        json.dump(man, fh, indent=1)
    print('MANIFEST.json: %d checks, %d not_applicable' % (len(checks), len(na)))


if __name__ == '__main__':
    main()
