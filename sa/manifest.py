"""Regenerate /verif/MANIFEST.json from the property modules that exist (python -m sa.manifest)."""
import importlib
import json
import os

VERIF = os.path.dirname(os.path.dirname(os.path.abspath(__file__)))
PY = '/venv/bin/python'

LEVEL_TEXT = {
    'C01': 'Static necessary conditions of binary round-trip: Paths(encode) <= Paths(decode) over the Encoder/Decoder token vocabulary for every PER/UPER/OER class under every configuration (abstract interpretation), pairing in all dispatch tables, DEFAULT elide/restore pairing on path summaries, decoder-derived widths by bounded evaluation, extension-marker state machine, alignment over the whole write position, delegation mirror (per configuration the decoder hands the data to the mirrored methods of the children the encoder used) on BER/DER/PER/UPER/OER. Decides the shape, not value equality. Time text written with fixed-width fields only (no strftime directive of platform-dependent width); the decoders of known-multiplier strings rebuild characters with the width of the unconstrained alphabet. OBJECT IDENTIFIER contents encoder / decoder and the BIT STRING value cleaning used for DEFAULT comparison decided by bounded evaluation. The converter of DEFAULT values has no path that answers "no DEFAULT" for a notation it does not understand.',
    'C02': 'Static pairing / literal-agreement / REAL-formatting rules over jer.py and xer.py on path summaries (special values excluded before formatting, pass-through shortcuts only over identity conversions; delegation mirror of encode/decode and encode_of/decode_of per configuration); structural necessary conditions, not document validity or value equality. A class whose XER encoder gives its element children never reads that element\'s own text (indentation lives there). XER element names derived from type names are sanitised. A carriage return in an XER string value is written as a character reference or refused.',
    'C03': 'Static DER canonical-form obligations visible in code shape (SET sorted by tag, SET OF sorted, primitive-only encode paths, restricted and zero-filled time forms, definite lengths only, CHOICE forces EXPLICIT on every path that sets a tag kind, minimal length/tag tables, base-128 thresholds, transparent wrappers decide DEFAULT equality by the wrapped type). Time values reach the conversion helpers without arithmetic; leaf encoders (tag, length, signed integer, SET sort key) decided by bounded evaluation first. BIT STRING value cleaning (DEFAULT comparison) decided by bounded evaluation.',
    'C04': 'Static acceptance-shape rules for the BER decoder (indefinite allowed on constructed classes, length-is-None handled before arithmetic wherever the length is handed to, end-of-contents typestate, constructed-tag aliases, order-insensitive member loop, no length minimality test, segments joined before text decoding). Every base / scaling factor / exponent form of the binary REAL encoding is decoded (bounded evaluation of decode_real).',
    'C05': 'PER/UPER primitives, INTEGER and the CHOICE index evaluated on boundary arguments by the checker\'s own bit-level interpreter against an X.691 oracle (encoder bits and decoder read-back); UPER = PER minus alignment on token paths; SET ordering; PER-visible constraint plumbing; copy discipline. Permitted alphabets: bits per character and the keep-values / renumber decision of X.691 30.5.4 by evaluation of both constructors on a grid of alphabets. Presence bits by membership; no attribute derived in a constructor alone from a parameter that a set_* method re-configures.',
    'C06': 'OER length/ENUMERATED/tag primitives and the INTEGER width table evaluated on boundary arguments against X.696; universal tag table across codecs; fixed-size decisions; extension-bitmap arithmetic by bounded evaluation; E1 conformance of the OER classes. REAL: fixed-size IEEE 754 forms selected exactly for the X.696 12 windows (constructor evaluated on a grid of WITH COMPONENTS constraints). Presence bits by membership; no stale derived attribute after set_* re-configuration. Presence bits collected by a loop that may stop early are moved to their positions; the fixed-size string form only for one-octet-per-character encodings.',
    'C07': 'Static completeness of the unknown-extension path on every decode entry point of every decoding codec (path summaries), in the universal form too (after a failed lookup only non-extensibility leads away from the absent value); skip-by-length def-use; lenient additions followed into the helpers that receive the flag. XER components are found by name among all children, never by position. Automatic tag numbers of root components do not depend on the additions present (tagging pass evaluated on version pairs); the open-type length counts every place the encoder keeps written bits in.',
    'C08': 'Static progress arguments: TAG_MISMATCH sentinel discipline, loop progress templates on every decode-reachable while loop, interprocedural provenance of wire-derived loop counts and of ** exponents, decode purity, and interval abstract interpretation of every amount handed to a consuming Decoder primitive (the read position never moves backwards). JER documents are parsed with the default bounded number conversions. The BER end-of-contents helper never returns an offset below the current one (bounded evaluation).',
    'C09': 'Static analysis of the generator templates and C helper strings (pycparser): checked allocation before every buffer index, bounds check emitted before runtime-length access, encode/decode template pairing along every path, dispatch agreement read off path summaries, helper registry closure/order, 64-bit rejection and C field type by bounded evaluation, integer append/read helper pairs evaluated by the checker\'s own C interpreter against the wire format, scratch variables of the generated code allocated per use. Re-entrant generator methods keep per-member maps in locals; a variable that receives a run-time-width read is not declared narrower than the maximum.',
    'C10': 'As C09 for the OER generator plus exact decision-table equivalence of static-length and integer-width tables between Python generator, C helpers and the Python OER codec. The CHOICE tag reader is interpreted on every valid 1-4 octet tag form.',
    'C11': 'Static constraint plumbing: every ranged checker class establishes is_in_range on every non-raising path (through base-class and helper calls); check invoked on all three API entry points (must-pass-through); descriptor-key coverage on the reference path; extensible => unconstrained. is_in_range decided by evaluation on a (bounds, value) grid; a path past the permitted-alphabet loop must be as strict as the loop (whole-string regular expression). Every returning path of a container check runs the loop over its children (must-pass-through).',
    'C12': 'Static location-wrapper discipline at every named-child call (try/except, function wrappers, context managers), add_location de-duplication only of the identical element, no-foreign-exception rule for data-keyed lookups, and both checkers visit every member / element / selected alternative. Encode errors are located by the containers only (no error constructed with its raiser as location). In the type checker a part of the value is used as a dictionary key only after an isinstance test on every path. What the type check admits, the binary codecs can encode or refuse with the library error (INTEGER str, OBJECT IDENTIFIER text evaluated).',
    'C13': 'Static who-may-write / idempotence-guard / option-taint rules over in-place rewrites of the specification dictionary (path summaries of the second run). No pre-processing pass runs under a switch of the compiler object.',
    'C14': 'Static lexer/grammar literal rules: comment pre-pass recognises string literals and preserves new-lines (regex ASTs); no grammar literal fixes a white-space layout; the parser parses the pre-passed text; the depth counter of nested comments sees every opener. Every alternative of the marker scanner is a bounded marker (state-independent scanning cannot match whole literals).',
    'C15': 'Static agreement of the length probe and the decoders (shared decode_length), exception->result mapping and handler order, no IndexError escape (followed into helpers), tag continuation constants, no open-ended slice of the whole input buffer, every conversion of a buffer slice into a number preceded by an octet-count comparison on its path. The length probe decode_full_length decided by bounded evaluation on ~1000 (message, prefix) pairs.',
    'C16': 'Static guard discipline of PER/OER Decoder primitives (every raw read of decoder state is preceded on every path by a remaining-bits test, directly or through a checking helper; re-windowing assignments compared with the remaining bits), no bypass, error hierarchy, BER length octets counted before conversion. BER: skipping a TLV fails on truncated data like reading it (bounded evaluation on every proper prefix).',
    'C17': 'Static cache-key completeness/unambiguity and bypass rules (key clause), lossless flow of the file contents into the key, compiled state kept in instances (what the pickled cache entry carries), and no pickling hook that rebuilds state by other code than __init__. The key iterates the very sequence of files handed to the producer.',
    'C18': 'Effect analysis with interprocedural summaries: no runtime-reachable method writes state that outlives the call or its input; scratch objects are fresh per call.  A sufficient condition for statelessness under any interleaving. A memoised function returns immutable objects only. Decoders hand out copies of DEFAULT values; elements built by a constructor are never placed into a result.',
    'C19': 'Static shallow-copy ownership on path summaries, DEFAULT conversion keyed on the resolved type (all parser functions), descriptor-key coverage on the reference path, lookup order, compiled-type cache key, names taken from a looked-up descriptor resolved in the module the lookup returned. Nothing found through a lookup / resolver in another module is filed or resolved under the starting module. No attribute is derived in a constructor alone from what a set_* method re-configures for a constrained reference.',
    'C20': 'Static quoting-sanitiser, emptiness-guard and REAL-format rules over gser.py (inlined return expressions); every component of a composite value flows into the emitted text on every path. Text returned by a child encoder is composed, never rewritten by content (interprocedural text taint).',
}
TECHNIQUE = {
    'C01': 'static analysis: abstract interpretation of encode/decode into token path sets (inclusion per configuration), path summaries, delegation-set comparison per configuration, bounded evaluation of extracted arithmetic',
    'C02': 'static analysis: path summaries (conditions before effects), sibling pairing, delegation-set comparison per configuration, literal agreement, class-hierarchy override closure',
    'C03': 'static analysis: dispatch-table evaluation, path summaries, encode-path reachability, boundary tables, bounded evaluation of leaf encoders',
    'C04': 'static analysis: class-attribute/MRO rules, path summaries with helper delegation, flag typestate dataflow, bounded evaluation of the REAL decoder',
    'C05': 'static analysis: bounded evaluation of primitive and type-level summaries by an own bit-level interpreter vs X.691 oracle; token-path comparison; bounded evaluation of the string-type constructors',
    'C06': 'static analysis: bounded evaluation vs X.696 oracle, decision-table equivalence, tag-table agreement; bounded evaluation of the REAL constructor',
    'C07': 'static analysis: per-entry-point unknown-path completeness on path summaries, def-use, token-path conformance, bounded evaluation of the tagging pass on version pairs',
    'C08': 'static analysis: sentinel result-check, loop progress templates, interprocedural bound provenance, interval abstract interpretation (flow-sensitive, widening, context-sensitive summaries of the Decoder methods), effect analysis',
    'C09': 'static analysis: pycparser bounds rules on C helper strings, template pairing along paths, decision-table cell enumeration, bounded evaluation of the helper strings by an own C interpreter, ownership rule for generated variables, call-graph cycle (re-entrancy) rule',
    'C10': 'static analysis: pycparser rules, template pairing along paths, exact decision-table equivalence, bounded evaluation of the helper strings by an own C interpreter, ownership rule for generated variables',
    'C11': 'static analysis: must-pass-through on API entry points (path summaries), dispatch-table plumbing, bounded evaluation of range predicates, regex-anchor rule on shortcut paths',
    'C12': 'static analysis: wrapper discipline at named-child call sites, path summaries of add_location, keyed-lookup taint, path-condition type guards for keyed lookups',
    'C13': 'static analysis: taint of the specification dict, idempotence guards on path summaries, option taint',
    'C14': 'static analysis: regex AST (re._parser) and grammar-literal lint, unbounded-alternative rule on the scanner regex AST',
    'C15': 'static analysis: shared-callee, except-order, exception-mapping and buffer-slice rules followed through helpers, guard-before-conversion on path summaries, bounded evaluation of the probe',
    'C16': 'static analysis: guard-before-access on path summaries (with checking helpers), raise-type rule over the decode call graph, bounded evaluation of the skip helper on prefixes',
    'C17': 'static analysis: parameter-to-key dataflow completeness, helper inlining, class-level state and pickling-hook rules',
    'C18': 'static analysis: interprocedural effect (purity) analysis over the call graph, memoisation rule',
    'C19': 'static analysis: copy-ownership on path summaries, descriptor-key coverage, sibling conversion agreement, def-use pairing of looked-up descriptors with their module',
    'C20': 'static analysis: sanitiser/taint and guard rules on text emission, component-to-text information flow on path summaries, interprocedural text taint (composition-only rule)',
}
NOT_YET = 'check not built yet in this round (claimed partially in DESIGN.md; will be added)'


def main():
    checks = []
    na = []
    for i in range(1, 21):
        pid = 'C%02d' % i
        try:
            mod = importlib.import_module('sa.props.%s' % pid)
        except ImportError:
            na.append({'property_id': pid, 'reason': NOT_YET})
            continue
        checks.append({
            'property_id': pid,
            'quick_cmd': '%s -m sa.run --property %s --tier quick' % (PY, pid),
            'thorough_cmd': '%s -m sa.run --property %s --tier thorough' % (PY, pid),
            'evidence_file': 'evidence/%s.json' % pid,
            'replay_cmd_template': 'cat {path}',
            'engine': 'sa',
            'level_claimed': {'category': getattr(mod, 'LEVEL', 'other'), 'text': LEVEL_TEXT[pid], 'design_ref': 'DESIGN.md section 4 ' + pid},
            'level_note': getattr(mod, 'LEVEL_NOTE', None) or (
                'Decides structural necessary conditions only; the behavioural remainder (' + ' '.join(getattr(mod, 'EXPLANATION', '').split('Not decided:')[1:]).strip() +
                ') is not decided.  Trusted base: CPython ast, sa/model.py name/MRO/call resolution, rule tables in sa/props/%s.py.' % pid),
            'technique': TECHNIQUE[pid],
        })
    man = {
        'version': 1,
        'setup_cmd': '%s -m sa.selfcheck' % PY,
        'hooks': {'guard': 'ASN1TOOLS_VERIF', 'enable': 'none needed: the checks parse /repo sources with ast and never execute them',
                  'baseline_off_cmd': 'cd /repo && /venv/bin/python -m pytest -ra -q -p no:cacheprovider --timeout=900 --continue-on-collection-errors',
                  'source_commits': [], 'add_only': True},
        'engines': [{'name': 'sa', 'path': 'sa/', 'serves_properties': [c['property_id'] for c in checks],
                     'kind_free_text': 'custom static analysis over CPython ast (+ pycparser for the C helper strings): program model, call graph, '
                                       'effect analysis, path/protocol engine, loop templates, decision-table equivalence'}],
        'checks': checks,
        'notes': 'All checks are static: they parse /repo/asn1tools/**/*.py on every run and never import or execute repository code. '
                 'Exit 0 = all rule instances hold (KNOWN-FINDING lines for entries of KNOWN_FINDINGS.txt); exit 1 = unlisted violation; exit 2 = ANALYSIS-ERROR.',
        'not_applicable': na,
    }
    with open(os.path.join(VERIF, 'MANIFEST.json'), 'w') as fh:
        json.dump(man, fh, indent=1)
    print('MANIFEST.json: %d checks, %d not_applicable' % (len(checks), len(na)))


if __name__ == '__main__':
    main()
