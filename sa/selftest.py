"""Two-sided self-test helpers used by the thorough tier.

fix_revert_variants(prop, repo): for every `fixed:` entry of KNOWN_FINDINGS.txt that names this
property, a variant of the current tree with that one `fix:` commit reverted (computed with
`git show` + `patch -R` on a scratch copy of the touched files, outside /repo and /verif).  The
check must report a violation of the property on it: this is how a rule that is silent on the
repaired tree is shown to still fire on the real defect, and how a returning defect is noticed.
Nothing of the repository is executed."""
import os
import re
import shutil
import subprocess
import tempfile

from . import core


def fixed_entries(prop=None):
    out = []
    if not os.path.exists(core.KNOWN_FILE):
        return out
    for ln in open(core.KNOWN_FILE, encoding='utf-8'):
        m = re.match(r'^fixed:\s+property=(\S+)\s+([0-9a-f]{7,40})\s+(.*)$', ln.strip())
        if m:
            rules = re.findall(r'(C\d\d)\.R\w+', m.group(3))
            props = {m.group(1)} | set(rules)
            if prop is None or prop in props:
                out.append((m.group(1), m.group(2), m.group(3)))
    return out


def revert_overlay(repo, commit):
    """{rel: text} of the files touched by `commit` with that commit's change reverted on top of the
    *current* working tree, or None when the commit is unknown / the reverse patch does not apply."""
    try:
        patch = subprocess.check_output(['git', '-C', repo, 'show', '--format=', '--no-color', commit], stderr=subprocess.DEVNULL)
        files = subprocess.check_output(['git', '-C', repo, 'show', '--format=', '--name-only', commit], stderr=subprocess.DEVNULL).decode().split()
    except (subprocess.CalledProcessError, FileNotFoundError):
        return None
    tmp = tempfile.mkdtemp(prefix='sa_revert_')
    try:
        for rel in files:
            src = os.path.join(repo, rel)
            if not os.path.exists(src):
                return None
            dst = os.path.join(tmp, rel)
            os.makedirs(os.path.dirname(dst), exist_ok=True)
            shutil.copy(src, dst)
        p = subprocess.run(['patch', '-R', '-p1', '-s', '-f', '--no-backup-if-mismatch', '-d', tmp], input=patch, stdout=subprocess.PIPE, stderr=subprocess.STDOUT)
        if p.returncode != 0:
            return None
        return {rel: open(os.path.join(tmp, rel), encoding='utf-8').read() for rel in files if rel.endswith('.py') and rel.startswith('asn1tools/')}
    finally:
        shutil.rmtree(tmp, ignore_errors=True)


def seed_entries(prop):
    """[(seed id, patch path, expected to be reported by this property's check)] for the confirmed seeded regressions of this property"""
    import json
    d = os.path.join(core.VERIF, 'seeded')
    out = []
    if not os.path.isdir(d):
        return out
    for sid in sorted(os.listdir(d)):
        mp = os.path.join(d, sid, 'meta.json')
        pp = os.path.join(d, sid, 'patch.diff')
        if not (os.path.exists(mp) and os.path.exists(pp)):
            continue
        try:
            m = json.load(open(mp))
        except ValueError:
            continue
        if m.get('breaks_property', m.get('property', sid[:3])) != prop:
            continue
        out.append((sid, pp, bool(m.get('caught_by_own_property_check'))))
    return out


def patch_overlay(repo, patch_path):
    """{rel: text} of the files a seeded patch touches with the patch applied on top of the *current* working tree (scratch copy outside
    /repo and /verif), or None when it does not apply."""
    try:
        patch = open(patch_path, 'rb').read()
    except OSError:
        return None
    files = re.findall(r'^diff --git a/(\S+) b/', patch.decode('utf-8', 'replace'), flags=re.M)
    if not files:
        return None
    tmp = tempfile.mkdtemp(prefix='sa_seed_')
    try:
        for rel in files:
            src = os.path.join(repo, rel)
            dst = os.path.join(tmp, rel)
            os.makedirs(os.path.dirname(dst), exist_ok=True)
            if os.path.exists(src):
                shutil.copy(src, dst)
        p = subprocess.run(['patch', '-p1', '-s', '-f', '--no-backup-if-mismatch', '-d', tmp], input=patch, stdout=subprocess.PIPE, stderr=subprocess.STDOUT)
        if p.returncode != 0:
            return None
        return {rel: open(os.path.join(tmp, rel), encoding='utf-8').read() for rel in files if rel.endswith('.py') and rel.startswith('asn1tools/')}
    finally:
        shutil.rmtree(tmp, ignore_errors=True)
