"""E9 -- analysis of the C helper functions that the generators emit (string constants of
source/c/*_functions.py and utils.py), parsed with pycparser.

Nothing is compiled or run: the C text is parsed into an AST and rules are checked on it; index
bounds are established by evaluating the *extracted index arithmetic* with the checker's own
evaluator over a small finite domain (bit position, size, loop index) against the allocation lemma:
allocating N bits at bit position p (p + N <= size of the buffer in bits) covers the bytes
floor(p/8) .. floor((p+N-1)/8)."""
import ast
import re

from .model import AnalysisError

PRELUDE = '''
typedef unsigned char uint8_t; typedef unsigned short uint16_t; typedef unsigned int uint32_t; typedef unsigned long long uint64_t;
typedef signed char int8_t; typedef short int16_t; typedef int int32_t; typedef long long int64_t;
typedef unsigned long size_t; typedef long ssize_t; typedef _Bool bool;
void *memcpy(void *d, const void *s, size_t n); void *memset(void *d, int c, size_t n); int memcmp(const void *a, const void *b, size_t n);
'''
ERRNOS = {'ENOMEM': 12, 'EINVAL': 22, 'EOUTOFDATA': 500, 'EBADCHOICE': 501, 'EBADLENGTH': 502, 'EBADENUM': 503, 'true': 1, 'false': 0}


def load_helpers(model, rel, utils_rel='asn1tools/source/c/utils.py'):
    """-> (ordered list of (pattern, const name, C text), structs text)"""
    m = model.mod(rel)
    u = model.mod(utils_rel)
    if 'functions' not in m.consts:
        raise AnalysisError('%s: `functions` registry vanished' % rel)
    reg = m.consts['functions']
    if not isinstance(reg, ast.List):
        raise AnalysisError('%s: functions is not a list display' % rel)
    out = []
    for e in reg.elts:
        if not (isinstance(e, ast.Tuple) and len(e.elts) == 2 and isinstance(e.elts[0], ast.Constant) and isinstance(e.elts[1], ast.Name)):
            raise AnalysisError('%s: unexpected registry entry %s' % (rel, ast.unparse(e)))
        name = e.elts[1].id
        r = m.resolve_name(name)
        if not (isinstance(r, tuple) and r[0] == 'const'):
            raise AnalysisError('%s: helper constant %s not found' % (rel, name))
        text = model.literal(r[1], r[2])
        out.append((e.elts[0].value, name, text))
    structs = model.literal(u.consts['ENCODER_AND_DECODER_STRUCTS'], u)
    return out, structs


def parse_c(text, structs):
    import pycparser
    src = PRELUDE + structs + '\n' + text
    # comments are not C tokens: /* ... */ becomes its new-lines (line numbers kept), // ... is cut at the end of the line
    src = re.sub(r'/\*.*?\*/', lambda m_: '\n' * m_.group(0).count('\n') or ' ', src, flags=re.S)
    src = re.sub(r'//[^\n]*', '', src)
    for k, v in ERRNOS.items():
        src = re.sub(r'\b%s\b' % k, str(v), src)
    try:
        return pycparser.CParser().parse(src)
    except Exception as e:
        raise AnalysisError('pycparser failed: %s' % e)


def func_defs(tree):
    from pycparser import c_ast
    return [n for n in tree.ext if isinstance(n, c_ast.FuncDef)]


# ---------------------------------------------------------------- C expression evaluation
def cint(s):
    s = s.rstrip('uUlL')
    return int(s, 0)


def cev(node, env):
    from pycparser import c_ast
    if isinstance(node, c_ast.Constant):
        if node.type in ('int', 'unsigned int', 'long', 'unsigned long', 'long long', 'unsigned long long', 'long int', 'unsigned long int',
                         'long long int', 'unsigned long long int') or re.match(r'^[0-9]', node.value):
            return cint(node.value)
        raise KeyError('constant %s' % node.value)
    if isinstance(node, c_ast.ID):
        return env[node.name]
    if isinstance(node, c_ast.Cast):
        return cev(node.expr, env)
    if isinstance(node, c_ast.StructRef):
        return env[cname(node)]
    if isinstance(node, c_ast.UnaryOp):
        if node.op == '-':
            return -cev(node.expr, env)
        if node.op == '!':
            return int(not cev(node.expr, env))
        if node.op == 'sizeof':
            return env['sizeof(%s)' % cname(node.expr)]
        if node.op in ('p++', '++', 'p--', '--'):
            raise KeyError('side effect')
        raise KeyError('unary %s' % node.op)
    if isinstance(node, c_ast.BinaryOp):
        a, b = cev(node.left, env), cev(node.right, env)
        op = node.op
        if op == '+':
            return a + b
        if op == '-':
            return a - b
        if op == '*':
            return a * b
        if op == '/':
            return int(a / b) if b else 0
        if op == '%':
            return a - b * int(a / b) if b else 0
        if op == '<<':
            return a << b
        if op == '>>':
            return a >> b
        if op == '&':
            return a & b
        if op == '|':
            return a | b
        if op == '==':
            return int(a == b)
        if op == '!=':
            return int(a != b)
        if op == '<':
            return int(a < b)
        if op == '<=':
            return int(a <= b)
        if op == '>':
            return int(a > b)
        if op == '>=':
            return int(a >= b)
        if op == '&&':
            return int(bool(a) and bool(b))
        if op == '||':
            return int(bool(a) or bool(b))
        raise KeyError('binary %s' % op)
    raise KeyError(type(node).__name__)


def cname(node):
    from pycparser import c_ast
    if isinstance(node, c_ast.ID):
        return node.name
    if isinstance(node, c_ast.StructRef):
        return '%s%s%s' % (cname(node.name), node.type, node.field.name)
    if isinstance(node, c_ast.ArrayRef):
        return '%s[%s]' % (cname(node.name), csrc(node.subscript))
    if isinstance(node, c_ast.UnaryOp):
        return '%s%s' % (node.op, cname(node.expr))
    if isinstance(node, c_ast.Cast):
        return cname(node.expr)
    return type(node).__name__


def csrc(node):
    from pycparser import c_generator
    return c_generator.CGenerator().visit(node)


# ---------------------------------------------------------------- buffer access rule
class Access(object):
    def __init__(self, node, index, conds, loops, kind, count=None):
        self.node, self.index, self.conds, self.loops, self.kind, self.count = node, index, conds, loops, kind, count


def collect_buffer_accesses(fd):
    """All accesses to self_p->buf_p in a function: ArrayRef (kind 'index') and memcpy with
    &self_p->buf_p[...] (kind 'memcpy', with the byte count), each with the path conditions and
    enclosing for-loops."""
    from pycparser import c_ast
    out = []

    def is_buf(n):
        return isinstance(n, c_ast.StructRef) and cname(n) == 'self_p->buf_p'

    def walk(node, conds, loops, in_memcpy=False):
        if node is None:
            return
        if isinstance(node, c_ast.If):
            walk(node.cond, conds, loops)
            walk(node.iftrue, conds + [(node.cond, True)], loops)
            walk(node.iffalse, conds + [(node.cond, False)], loops)
            return
        if isinstance(node, c_ast.For):
            walk(node.init, conds, loops)
            walk(node.stmt, conds, loops + [node])
            return
        if isinstance(node, c_ast.While):
            walk(node.stmt, conds, loops + [node])
            return
        if isinstance(node, c_ast.FuncCall) and isinstance(node.name, c_ast.ID) and node.name.id if False else False:
            pass
        if isinstance(node, c_ast.FuncCall) and isinstance(node.name, c_ast.ID) and node.name.name in ('memcpy', 'memset', 'memcmp'):
            args = node.args.exprs
            for a in args[:2]:
                b = a
                while isinstance(b, c_ast.Cast):
                    b = b.expr
                if isinstance(b, c_ast.UnaryOp) and b.op == '&' and isinstance(b.expr, c_ast.ArrayRef) and is_buf(b.expr.name):
                    out.append(Access(node, b.expr.subscript, conds, loops, 'memcpy', args[2]))
                elif is_buf(b):
                    out.append(Access(node, c_ast.Constant('int', '0'), conds, loops, 'memcpy', args[2]))
            return
        if isinstance(node, c_ast.ArrayRef) and is_buf(node.name):
            out.append(Access(node, node.subscript, conds, loops, 'index'))
            walk(node.subscript, conds, loops)
            return
        for _n, ch in node.children():
            walk(ch, conds, loops)
    walk(fd.body, [], [])
    return out


def allocation(fd):
    """pos = encoder_alloc(self_p, N) / decoder_free(self_p, N) in fd -> (var, N expr, stmt index) or None"""
    from pycparser import c_ast
    for i, s in enumerate(fd.body.block_items or []):
        if isinstance(s, c_ast.Assignment) and isinstance(s.rvalue, c_ast.FuncCall) and isinstance(s.rvalue.name, c_ast.ID) \
                and s.rvalue.name.name in ('encoder_alloc', 'decoder_free') and isinstance(s.lvalue, c_ast.ID):
            return s.lvalue.name, s.rvalue.args.exprs[1], i
    return None


def neg_check(fd, var, after):
    """Index of the top-level statement `if (var < 0) return;` after the allocation, or None."""
    from pycparser import c_ast
    items = fd.body.block_items or []
    for i in range(after + 1, len(items)):
        s = items[i]
        if isinstance(s, c_ast.If) and csrc(s.cond).replace(' ', '') in ('%s<0' % var,) and s.iffalse is None:
            body = s.iftrue.block_items if isinstance(s.iftrue, c_ast.Compound) else [s.iftrue]
            if body and isinstance(body[-1], c_ast.Return):
                return i
    return None


def local_defs(fd):
    """Top-level assignments  name = expr  (for byte_pos, pos_in_byte ...)."""
    from pycparser import c_ast
    out = {}
    for s in fd.body.block_items or []:
        if isinstance(s, c_ast.Assignment) and s.op == '=' and isinstance(s.lvalue, c_ast.ID):
            out.setdefault(s.lvalue.name, []).append(s.rvalue)
    return out


def check_access_in_bounds(fd, acc, unit_bits):
    """Bounded verification of one buffer access against the allocation lemma.
    unit_bits = 1 when the cursor counts bits (UPER), 8 when it counts bytes (OER).
    -> (ok, why)"""
    from pycparser import c_ast
    al = allocation(fd)
    if al is None:
        return False, 'no encoder_alloc/decoder_free in this function'
    var, nexpr, idx = al
    defs = local_defs(fd)
    # the access must be on a path where var >= 0 is known: after `if (var < 0) return;` or inside if (var >= 0)
    guarded = neg_check(fd, var, idx) is not None or any(csrc(c).replace(' ', '') == '%s>=0' % var and pol for c, pol in acc.conds)
    if not guarded:
        return False, 'no `%s < 0` check between the allocation and the access' % var
    params = [p.name for p in fd.decl.type.args.params] if fd.decl.type.args else []
    size_param = 'size' if 'size' in params else None
    checked = 0
    for p in range(0, 41):
        for size in range(0, 5):
            env = {var: p, 'size': size}
            try:
                n_units = cev(nexpr, env)
            except KeyError as e:
                return False, 'cannot evaluate the allocated amount %s (%s)' % (csrc(nexpr), e)
            # loop index ranges
            ranges = [{}]
            for lp in acc.loops:
                if not isinstance(lp, c_ast.For) or lp.cond is None:
                    return False, 'buffer access inside a loop without a bound'
                c = lp.cond
                if not (isinstance(c, c_ast.BinaryOp) and c.op == '<' and isinstance(c.left, c_ast.ID)):
                    return False, 'loop condition %s is not `i < bound`' % csrc(c)
                iv = c.left.name
                if not (isinstance(lp.next, c_ast.UnaryOp) and lp.next.op in ('p++', '++') and cname(lp.next.expr) == iv):
                    return False, 'loop step is not %s++' % iv
                new = []
                for r in ranges:
                    e2 = dict(env)
                    e2.update(r)
                    try:
                        b = cev(c.right, e2)
                    except KeyError as e:
                        return False, 'cannot evaluate the loop bound %s' % csrc(c.right)
                    for i in range(0, b):
                        r2 = dict(r)
                        r2[iv] = i
                        new.append(r2)
                ranges = new
            for r in ranges:
                e2 = dict(env)
                e2.update(r)
                # locals
                for nm, exprs in defs.items():
                    if nm == var:
                        continue
                    try:
                        e2[nm] = cev(exprs[-1], e2)
                    except KeyError:
                        pass
                try:
                    if not all(bool(cev(c, e2)) == pol for c, pol in acc.conds):
                        continue
                    index = cev(acc.index, e2)
                    count = cev(acc.count, e2) if acc.count is not None else 1
                except KeyError as e:
                    return False, 'cannot evaluate %s (%s)' % (csrc(acc.index), e)
                checked += 1
                if acc.kind == 'memcpy' and count == 0:
                    continue
                first_bit = p * unit_bits
                last_bit = (p + n_units) * unit_bits - 1
                lo, hi = first_bit // 8, last_bit // 8
                if n_units <= 0:
                    return False, 'access with nothing allocated (p=%d size=%d)' % (p, size)
                if index < lo or index + count - 1 > hi:
                    return False, ('index %s = %d (count %d) is outside the allocated bytes %d..%d for cursor %d, size %d'
                                   % (csrc(acc.index), index, count, lo, hi, p, size))
    return True, '%d index valuations inside the allocated range' % checked


# ---------------------------------------------------------------- decision tables written in C
class CReturn(Exception):
    def __init__(self, v):
        self.v = v


def c_run(fd, env):
    """Interpret a C decision-table function (if / else-if chain of comparisons assigning constants,
    then return) on integer arguments with the checker's own evaluator."""
    from pycparser import c_ast
    env = dict(env)

    def block(node):
        if node is None:
            return
        if isinstance(node, c_ast.Compound):
            for s in node.block_items or []:
                block(s)
        elif isinstance(node, c_ast.Decl):
            if node.init is not None:
                env[node.name] = cev(node.init, env)
        elif isinstance(node, c_ast.Assignment) and node.op == '=':
            env[cname(node.lvalue)] = cev(node.rvalue, env)
        elif isinstance(node, c_ast.If):
            block(node.iftrue if cev(node.cond, env) else node.iffalse)
        elif isinstance(node, c_ast.Return):
            raise CReturn(cev(node.expr, env))
        elif isinstance(node, c_ast.EmptyStatement):
            pass
        else:
            raise AnalysisError('unsupported C statement %s in decision table %s' % (type(node).__name__, fd.decl.name))
    try:
        block(fd.body)
    except CReturn as r:
        return r.v
    except KeyError as e:
        raise AnalysisError('cannot evaluate C decision table %s: %s' % (fd.decl.name, e))
    return None


def c_boundaries(fd):
    """Integer constants compared against in a C function (+-1)."""
    from pycparser import c_ast
    out = set()

    def walk(n):
        if isinstance(n, c_ast.BinaryOp) and n.op in ('<', '<=', '>', '>=', '==', '!='):
            for s in (n.left, n.right):
                try:
                    v = cev(s, {})
                    out.update({v - 1, v, v + 1})
                except Exception:
                    pass
        for _k, ch in n.children():
            walk(ch)
    walk(fd.body)
    return out


def find_func(model, rel, cname_, structs=None):
    helpers, st = load_helpers(model, rel)
    for pat, name, text in helpers:
        if pat[:-1] == cname_:
            tree = parse_c(text, st)
            fds = [f for f in func_defs(tree) if f.decl.name == cname_]
            if fds:
                return fds[0]
    raise AnalysisError('C helper %s vanished from %s' % (cname_, rel))
