"""Name-resolved call graph over the repository model (part of E0).

Resolution (no type checker is available in the sandbox):
  f(...)                 module-level name -> function, class constructor (__init__), import
  mod.f(...) / pkg.mod.f resolved through the import table
  self.m(...)            method m through the MRO of the enclosing class *and* every override
                         in a subclass (self may be an instance of a subclass)
  super().m(...)         every definition of m in a proper ancestor
  Cls.m(...)             that class's MRO
  <other>.m(...)         conservatively every method named m in the *family* of the calling
                         module (the module itself plus the repository modules it imports,
                         transitively), restricted to classes (not module functions)
"""
import ast

from .model import Model, ClassInfo, Module, walk_no_nested

# Receivers whose class cannot be inferred from the trees (attached through containers), with
# the reason; each hint is *verified* by C18.R0 (bridge assumptions) on every run.
RECEIVER_HINTS = {
    # Specification._types / _modules hold what Compiler.process() returns: the objects
    # produced by process_type(), i.e. CompiledType (or CompiledOpenTypes wrapping one)
    ('asn1tools/compiler.py', 'type_'): ('CompiledType', 'CompiledOpenTypes'),
}

IGNORED_ATTR_CALLS = {
    # methods of builtins that share a name with nothing in the repo are resolved to nothing
}


class CallGraph(object):

    def __init__(self, model):
        self.model = model
        self.methods_by_name = {}
        for c in model.all_classes():
            for n, f in c.methods.items():
                self.methods_by_name.setdefault(n, []).append((c, f))
        self._family = {}
        self._ctor_sites = None
        self._ft_cache = {}
        self._rt_cache = {}
        self.edges = {}       # FunctionDef -> set(FunctionDef)
        self.sites = {}       # FunctionDef -> list of (Call, [targets])
        for f in model.all_functions():
            self._build(f)

    def family(self, mod):
        """The module itself, the repository modules it imports *directly*, and (transitively)
        the modules that define base classes of classes in the family."""
        if mod.rel in self._family:
            return self._family[mod.rel]
        seen = {mod.dotted}
        for base, attr in mod.imports.values():
            for d in ((base + '.' + attr) if attr else None, base):
                if d and d in self.model.by_dotted:
                    seen.add(d)
                    break
        changed = True
        while changed:
            changed = False
            for d in list(seen):
                for c in self.model.by_dotted[d].classes.values():
                    for b in c.mro():
                        if b.mod.dotted not in seen:
                            seen.add(b.mod.dotted)
                            changed = True
        self._family[mod.rel] = seen
        return seen

    @staticmethod
    def is_builtin_text_method(call):
        """bytes/str .encode()/.decode() calls: a single argument that is a string constant or
        an ENCODING class attribute, or a receiver that is evidently bytes/str (slice, join(),
        format(), str(), bytes(), bytearray(), string constant)."""
        fn = call.func
        if not (isinstance(fn, ast.Attribute) and fn.attr in ('encode', 'decode')):
            return False
        if len(call.args) == 1 and not call.keywords:
            a = call.args[0]
            if isinstance(a, ast.Constant) and isinstance(a.value, str):
                return True
            if isinstance(a, ast.Attribute) and a.attr == 'ENCODING':
                return True
        r = fn.value
        if isinstance(r, ast.Constant) and isinstance(r.value, (str, bytes)):
            return True
        if isinstance(r, ast.Subscript) and isinstance(r.slice, ast.Slice):
            return True
        if isinstance(r, ast.Call):
            f2 = r.func
            if isinstance(f2, ast.Attribute) and f2.attr in ('join', 'format', 'replace', 'strip', 'lower', 'upper'):
                return True
            if isinstance(f2, ast.Name) and f2.id in ('str', 'bytes', 'bytearray'):
                return True
        if len(call.args) == 0 and not call.keywords:
            return True     # x.encode() / x.decode() without arguments: text methods
        return False

    def resolve_call(self, f, call):
        mod = f._mod
        cls = getattr(f, '_cls', None)
        fn = call.func
        out = []
        if isinstance(fn, ast.Name):
            r = mod.resolve_name(fn.id)
            # a local variable / parameter shadows the module-level name
            if isinstance(r, ast.FunctionDef):
                out.append(r)
            elif isinstance(r, ClassInfo):
                m = r.find_method('__init__')
                if m:
                    out.append(m[1])
            return out
        if not isinstance(fn, ast.Attribute):
            return out
        name = fn.attr
        recv = fn.value
        # self.m()
        if isinstance(recv, ast.Name) and recv.id in ('self', 'cls') and cls is not None:
            found = False
            m = cls.find_method(name)
            if m:
                out.append(m[1])
                found = True
            for sub in cls.subclasses(self.model):
                if name in sub.methods:
                    out.append(sub.methods[name])
                    found = True
                else:
                    m2 = sub.find_method(name)
                    if m2 and m2[1] not in out:
                        out.append(m2[1])
                        found = True
            if found:
                return out
            # attribute holding a callable or inherited from an external base
            return out
        # super().m()
        if isinstance(recv, ast.Call) and isinstance(recv.func, ast.Name) and recv.func.id == 'super' and cls is not None:
            for a in cls.mro()[1:]:
                if name in a.methods:
                    out.append(a.methods[name])
            return out
        # module or class qualified
        r = mod.resolve(recv) if isinstance(recv, (ast.Name, ast.Attribute)) else None
        if isinstance(r, Module):
            t = r.resolve_name(name)
            if isinstance(t, ast.FunctionDef):
                return [t]
            if isinstance(t, ClassInfo):
                m = t.find_method('__init__')
                return [m[1]] if m else []
            return []
        if isinstance(r, ClassInfo):
            m = r.find_method(name)
            return [m[1]] if m else []
        # unknown receiver: every method of that name in the family
        if self.is_builtin_text_method(call):
            return out
        hint = RECEIVER_HINTS.get((mod.rel, ast.unparse(recv)))
        if hint:
            for c, g in self.methods_by_name.get(name, []):
                if c.name in hint:
                    out.append(g)
            return out
        # receiver whose class can be inferred (field assigned from constructor calls only)
        ts = self.expr_types(recv, f)
        if ts and None not in ts:
            for t in ts:
                if t == 'builtin':
                    continue
                for c in [t] + t.subclasses(self.model):
                    m = c.find_method(name)
                    if m and m[1] not in out:
                        out.append(m[1])
            return out
        fam = self.family(mod)
        for c, g in self.methods_by_name.get(name, []):
            if c.mod.dotted in fam:
                out.append(g)
        return out

    # ------------------------------------------------------------ light type inference
    UNKNOWN = None

    def ctor_sites(self):
        if self._ctor_sites is None:
            self._ctor_sites = {}
            for g in self.model.all_functions():
                for n in walk_no_nested(g):
                    if isinstance(n, ast.Call) and isinstance(n.func, (ast.Name, ast.Attribute)):
                        r = g._mod.resolve(n.func)
                        if isinstance(r, ClassInfo):
                            self._ctor_sites.setdefault(r, []).append((n, g))
        return self._ctor_sites

    def return_types(self, g, depth=0):
        if g in self._rt_cache:
            return self._rt_cache[g]
        self._rt_cache[g] = set()
        out = set()
        for n in walk_no_nested(g):
            if isinstance(n, ast.Return) and n.value is not None:
                out |= self.expr_types(n.value, g, depth + 1)
        self._rt_cache[g] = out
        return out

    def field_types(self, cls, attr, depth=0):
        key = (cls, attr)
        if key in self._ft_cache:
            return self._ft_cache[key]
        self._ft_cache[key] = set()
        out = set()
        classes = list(cls.mro()) + cls.subclasses(self.model)
        found = False
        for c in classes:
            if attr in c.attrs:
                found = True
                out |= self.expr_types(c.attrs[attr], None, depth + 1, mod=c.mod)
            for g in c.methods.values():
                for n in walk_no_nested(g):
                    if isinstance(n, ast.Assign):
                        for t in n.targets:
                            if isinstance(t, ast.Attribute) and t.attr == attr and isinstance(t.value, ast.Name) and t.value.id == 'self':
                                found = True
                                out |= self.expr_types(n.value, g, depth + 1)
        if not found:
            out.add(None)
        self._ft_cache[key] = out
        return out

    def expr_types(self, e, f, depth=0, mod=None):
        """Set of ClassInfo the value of e may be an instance of; contains None when unknown."""
        if depth > 14:
            return {None}
        mod = mod or (f._mod if f is not None else None)
        if isinstance(e, ast.Constant):
            return set() if e.value is None else {'builtin'}
        if isinstance(e, (ast.List, ast.Dict, ast.Tuple, ast.Set, ast.ListComp, ast.DictComp, ast.SetComp, ast.JoinedStr,
                          ast.Compare, ast.BinOp)):
            return {'builtin'}
        if isinstance(e, ast.IfExp):
            return self.expr_types(e.body, f, depth + 1, mod) | self.expr_types(e.orelse, f, depth + 1, mod)
        if isinstance(e, ast.BoolOp):
            out = set()
            for v in e.values:
                out |= self.expr_types(v, f, depth + 1, mod)
            return out
        if isinstance(e, ast.Call):
            fn = e.func
            if isinstance(fn, (ast.Name, ast.Attribute)) and mod is not None:
                r = mod.resolve(fn) if not (isinstance(fn, ast.Attribute) and isinstance(fn.value, ast.Name) and fn.value.id in ('self', 'cls')) else None
                if isinstance(r, ClassInfo):
                    return {r}
                if isinstance(r, ast.FunctionDef):
                    return self.return_types(r, depth + 1) or {None}
            if isinstance(fn, ast.Attribute) and isinstance(fn.value, ast.Name) and fn.value.id == 'self' and f is not None \
                    and getattr(f, '_cls', None) is not None:
                out = set()
                ts = []
                m = f._cls.find_method(fn.attr)
                if m:
                    ts.append(m[1])
                for sub in f._cls.subclasses(self.model):
                    if fn.attr in sub.methods:
                        ts.append(sub.methods[fn.attr])
                if not ts:
                    return {None}
                for t in ts:
                    out |= (self.return_types(t, depth + 1) or {None})
                return out
            return {None}
        if isinstance(e, ast.Attribute) and isinstance(e.value, ast.Name) and e.value.id in ('self', 'cls') and f is not None \
                and getattr(f, '_cls', None) is not None:
            return self.field_types(f._cls, e.attr, depth + 1)
        if isinstance(e, ast.Name) and f is not None:
            from . import flow
            params = flow.param_names(f)
            out = set()
            bound = False
            for n in walk_no_nested(f):
                if isinstance(n, ast.Assign) and any(isinstance(t, ast.Name) and t.id == e.id for t in n.targets):
                    bound = True
                    out |= self.expr_types(n.value, f, depth + 1)
                elif isinstance(n, (ast.For, ast.comprehension, ast.With, ast.AugAssign, ast.ExceptHandler, ast.Assign)):
                    # other binding forms of that name: unknown
                    names = set()
                    if isinstance(n, (ast.For, ast.comprehension)):
                        names = {x.id for x in ast.walk(n.target) if isinstance(x, ast.Name)}
                    elif isinstance(n, ast.AugAssign) and isinstance(n.target, ast.Name):
                        names = {n.target.id}
                    elif isinstance(n, ast.ExceptHandler) and n.name:
                        names = {n.name}
                    elif isinstance(n, ast.With):
                        names = {x.id for it in n.items if it.optional_vars is not None for x in ast.walk(it.optional_vars) if isinstance(x, ast.Name)}
                    elif isinstance(n, ast.Assign):
                        names = {x.id for t in n.targets if isinstance(t, (ast.Tuple, ast.List)) for x in ast.walk(t) if isinstance(x, ast.Name)}
                    if e.id in names:
                        return {None}
            if e.id in params:
                if f.name == '__init__' and getattr(f, '_cls', None) is not None:
                    bound = True
                    out |= self._init_param_types(f, e.id, depth + 1)
                else:
                    return {None}
            if not bound:
                return {None}
            return out
        return {None}

    def _init_param_types(self, init, pname, depth):
        cls = init._cls
        out = set()
        a = init.args
        names = [x.arg for x in a.posonlyargs + a.args][1:]
        # default
        defaults = dict(zip(reversed(names), reversed(a.defaults)))
        if pname in defaults:
            out |= self.expr_types(defaults[pname], None, depth + 1, mod=init._mod)
        sites = []
        for c in [cls] + cls.subclasses(self.model):
            m = c.find_method('__init__')
            if m and m[1] is init:
                sites.extend(self.ctor_sites().get(c, []))
        # super().__init__(...) calls from subclasses
        for c in cls.subclasses(self.model):
            g = c.methods.get('__init__')
            if g is None:
                continue
            for n in walk_no_nested(g):
                if isinstance(n, ast.Call) and isinstance(n.func, ast.Attribute) and n.func.attr == '__init__' \
                        and isinstance(n.func.value, ast.Call) and isinstance(n.func.value.func, ast.Name) and n.func.value.func.id == 'super':
                    nxt = c.find_method('__init__', after=c)
                    if nxt and nxt[1] is init:
                        sites.append((n, g))
        if not sites and pname not in defaults:
            return {None}
        for call, g in sites:
            arg = None
            for k in call.keywords:
                if k.arg == pname:
                    arg = k.value
            if arg is None and pname in names:
                i = names.index(pname)
                if any(isinstance(x, ast.Starred) for x in call.args[:i + 1]) or any(k.arg is None for k in call.keywords):
                    if i < len(call.args) or any(isinstance(x, ast.Starred) for x in call.args):
                        out.add(None)
                    continue
                if i < len(call.args):
                    arg = call.args[i]
            if arg is None:
                continue     # default used
            out |= self.expr_types(arg, g, depth + 1)
        return out

    def _build(self, f):
        tg = set()
        sites = []
        for n in walk_no_nested(f):
            if isinstance(n, ast.Call):
                ts = self.resolve_call(f, n)
                sites.append((n, ts))
                tg.update(ts)
            elif isinstance(n, (ast.FunctionDef, ast.Lambda)) and n is not f:
                if isinstance(n, ast.FunctionDef):
                    tg.add(n)   # nested def: assume called
        self.edges[f] = tg
        self.sites[f] = sites

    def reachable(self, roots, stop=None):
        seen = set()
        todo = list(roots)
        while todo:
            f = todo.pop()
            if f in seen:
                continue
            if stop is not None and stop(f):
                continue
            seen.add(f)
            todo.extend(self.edges.get(f, ()))
        return seen

    def path(self, roots, target):
        """A shortest call path from one of roots to target (for reports)."""
        from collections import deque
        prev = {}
        dq = deque()
        for r in roots:
            prev[r] = None
            dq.append(r)
        while dq:
            f = dq.popleft()
            if f is target:
                out = []
                while f is not None:
                    out.append(Model.qual(f))
                    f = prev[f]
                return list(reversed(out))
            for g in self.edges.get(f, ()):
                if g not in prev:
                    prev[g] = f
                    dq.append(g)
        return None
