"""Small intraprocedural dataflow helpers (E3/E6): dependency sets, dominance-by-guard,
try/except enclosure, def-use on the statement tree."""
import ast

from .model import walk_no_nested, names_in

MUTATORS = {'append', 'extend', 'insert', 'add', 'update', 'setdefault', 'write'}


def param_names(f):
    a = f.args
    return [x.arg for x in a.posonlyargs + a.args + a.kwonlyargs] + \
        ([a.vararg.arg] if a.vararg else []) + ([a.kwarg.arg] if a.kwarg else [])


def target_names(t):
    """Names bound by an assignment target (not attribute/subscript stores)."""
    out = []
    if isinstance(t, ast.Name):
        out.append(t.id)
    elif isinstance(t, (ast.Tuple, ast.List)):
        for e in t.elts:
            out.extend(target_names(e))
    elif isinstance(t, ast.Starred):
        out.extend(target_names(t.value))
    return out


def deps(f, sources=None, cut=None):
    """Flow-insensitive dependency closure: for each local name, the set of `sources`
    (default: the parameters) whose value can flow into it through assignments,
    augmented assignments, for/with/comprehension bindings and mutator calls
    (x.append(y) makes x depend on y).  Control dependence is not included."""
    params = param_names(f)
    if sources is None:
        sources = set(params)
    d = {p: ({p} if p in sources else set()) for p in params}
    for s in sources:
        d.setdefault(s, {s})

    def ed(expr):
        if cut is not None and cut(expr):
            return set()
        out = set()
        for n in names_in(expr):
            out |= d.get(n, set())
        return out

    changed = True
    rounds = 0
    while changed and rounds < 50:
        changed = False
        rounds += 1

        def bind(names, val):
            nonlocal changed
            for n in names:
                cur = d.setdefault(n, set())
                if not val <= cur:
                    cur |= val
                    changed = True

        for n in walk_no_nested(f):
            if isinstance(n, ast.Assign):
                v = ed(n.value)
                for t in n.targets:
                    bind(target_names(t), v)
                    if isinstance(t, (ast.Subscript, ast.Attribute)):
                        r = _root(t)
                        if r:
                            bind([r], v | ed(t))
            elif isinstance(n, ast.AugAssign):
                r = _root(n.target)
                if r:
                    bind([r], ed(n.value))
            elif isinstance(n, ast.AnnAssign) and n.value is not None:
                bind(target_names(n.target), ed(n.value))
            elif isinstance(n, (ast.For, ast.comprehension)):
                bind(target_names(n.target), ed(n.iter))
            elif isinstance(n, ast.With):
                for it in n.items:
                    if it.optional_vars is not None:
                        bind(target_names(it.optional_vars), ed(it.context_expr))
            elif isinstance(n, ast.NamedExpr):
                bind(target_names(n.target), ed(n.value))
            elif isinstance(n, ast.Call) and isinstance(n.func, ast.Attribute) and n.func.attr in MUTATORS:
                r = _root(n.func.value)
                if r:
                    v = set()
                    for a in n.args:
                        v |= ed(a)
                    for k in n.keywords:
                        v |= ed(k.value)
                    bind([r], v)
    return d, ed


def _root(e):
    while True:
        if isinstance(e, ast.Name):
            return e.id
        if isinstance(e, (ast.Attribute, ast.Subscript, ast.Starred)):
            e = e.value
        else:
            return None


def ancestors(node):
    p = getattr(node, '_parent', None)
    while p is not None:
        yield p
        p = getattr(p, '_parent', None)


def enclosing_try_handlers(node, stop=None):
    """Yield (Try, handler_list) for every try whose *body* encloses node."""
    child = node
    for p in ancestors(node):
        if p is stop:
            return
        if isinstance(p, ast.Try) and any(child is s or _contains(s, child) for s in p.body):
            yield p
        child = p


def _contains(root, node):
    for n in ast.walk(root):
        if n is node:
            return True
    return False


def handler_catches(handler, names):
    """Does the except clause name one of `names` (bare except catches everything)?"""
    if handler.type is None:
        return True
    ts = handler.type.elts if isinstance(handler.type, ast.Tuple) else [handler.type]
    for t in ts:
        n = t.attr if isinstance(t, ast.Attribute) else (t.id if isinstance(t, ast.Name) else None)
        if n in names:
            return True
    return False


def stmts_before(f, node):
    """Statements of function f that start before `node` in source order (same function)."""
    ln = (node.lineno, node.col_offset)
    return [s for s in walk_no_nested(f) if isinstance(s, ast.stmt) and (s.lineno, s.col_offset) < ln]


def in_branch(node, if_node):
    """'body' / 'orelse' / None: which arm of if_node contains node."""
    for s in if_node.body:
        if s is node or _contains(s, node):
            return 'body'
    for s in if_node.orelse:
        if s is node or _contains(s, node):
            return 'orelse'
    return None


def terminates(stmts):
    """Does the statement list always leave (return / raise / continue / break) ?"""
    if not stmts:
        return False
    last = stmts[-1]
    if isinstance(last, (ast.Return, ast.Raise, ast.Continue, ast.Break)):
        return True
    if isinstance(last, ast.If):
        return terminates(last.body) and terminates(last.orelse)
    return False


def guards_of(node, f):
    """Conditions known to hold when `node` executes, from enclosing ifs and from earlier
    sibling `if c: <terminates>` statements (then `not c` holds afterwards).
    Returns list of (test_expr, polarity)."""
    out = []
    child = node
    for p in ancestors(node):
        if isinstance(p, ast.If):
            arm = in_branch(child, p) if child is not p else None
            if arm == 'body':
                out.append((p.test, True))
            elif arm == 'orelse':
                out.append((p.test, False))
        if isinstance(p, ast.While):
            if any(child is s for s in p.body):
                out.append((p.test, True))
        # earlier siblings that terminate
        for field in ('body', 'orelse', 'finalbody'):
            seq = getattr(p, field, None)
            if isinstance(seq, list) and child in seq:
                for s in seq[:seq.index(child)]:
                    if isinstance(s, ast.If) and terminates(s.body) and not s.orelse:
                        out.append((s.test, False))
                    elif isinstance(s, ast.If) and s.orelse and terminates(s.orelse) and not terminates(s.body):
                        out.append((s.test, True))
        if p is f:
            break
        child = p
    return out
