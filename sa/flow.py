"""Small intraprocedural dataflow helpers (E3/E6): dependency sets, dominance-by-guard,
try/except enclosure, def-use on the statement tree."""
import ast

from .model import walk_no_nested, names_in

MUTATORS = {'append', 'extend', 'insert', 'add', 'update', 'setdefault', 'write'}


def param_names(f):
    a = f.args
    return [x.arg for x in a.posonlyargs + a.args + a.kwonlyargs] + \
        ([a.vararg.arg] if a.vararg else []) + ([a.kwarg.arg] if a.kwarg else [])


def target_names(t):
    """Names bound by an assignment target (not attribute/subscript stores)."""
    out = []
    if isinstance(t, ast.Name):
        out.append(t.id)
    elif isinstance(t, (ast.Tuple, ast.List)):
        for e in t.elts:
            out.extend(target_names(e))
    elif isinstance(t, ast.Starred):
        out.extend(target_names(t.value))
    return out


def deps(f, sources=None, cut=None):
    """Flow-insensitive dependency closure: for each local name, the set of `sources`
    (default: the parameters) whose value can flow into it through assignments,
    augmented assignments, for/with/comprehension bindings and mutator calls
    (x.append(y) makes x depend on y).  Control dependence is not included."""
    params = param_names(f)
    if sources is None:
        sources = set(params)
    d = {p: ({p} if p in sources else set()) for p in params}
    for s in sources:
        d.setdefault(s, {s})

    def ed(expr):
        if cut is not None and cut(expr):
            return set()
        out = set()
        for n in names_in(expr):
            out |= d.get(n, set())
        return out

    changed = True
    rounds = 0
    while changed and rounds < 50:
        changed = False
        rounds += 1

        def bind(names, val):
            nonlocal changed
            for n in names:
                cur = d.setdefault(n, set())
                if not val <= cur:
                    cur |= val
                    changed = True

        for n in walk_no_nested(f):
            if isinstance(n, ast.Assign):
                v = ed(n.value)
                for t in n.targets:
                    bind(target_names(t), v)
                    if isinstance(t, (ast.Subscript, ast.Attribute)):
                        r = _root(t)
                        if r:
                            bind([r], v | ed(t))
            elif isinstance(n, ast.AugAssign):
                r = _root(n.target)
                if r:
                    bind([r], ed(n.value))
            elif isinstance(n, ast.AnnAssign) and n.value is not None:
                bind(target_names(n.target), ed(n.value))
            elif isinstance(n, (ast.For, ast.comprehension)):
                bind(target_names(n.target), ed(n.iter))
            elif isinstance(n, ast.With):
                for it in n.items:
                    if it.optional_vars is not None:
                        bind(target_names(it.optional_vars), ed(it.context_expr))
            elif isinstance(n, ast.NamedExpr):
                bind(target_names(n.target), ed(n.value))
            elif isinstance(n, ast.Call) and isinstance(n.func, ast.Attribute) and n.func.attr in MUTATORS:
                r = _root(n.func.value)
                if r:
                    v = set()
                    for a in n.args:
                        v |= ed(a)
                    for k in n.keywords:
                        v |= ed(k.value)
                    bind([r], v)
    return d, ed


def _root(e):
    while True:
        if isinstance(e, ast.Name):
            return e.id
        if isinstance(e, (ast.Attribute, ast.Subscript, ast.Starred)):
            e = e.value
        else:
            return None


def ancestors(node):
    p = getattr(node, '_parent', None)
    while p is not None:
        yield p
        p = getattr(p, '_parent', None)


def enclosing_try_handlers(node, stop=None):
    """Yield (Try, handler_list) for every try whose *body* encloses node."""
    child = node
    for p in ancestors(node):
        if p is stop:
            return
        if isinstance(p, ast.Try) and any(child is s or _contains(s, child) for s in p.body):
            yield p
        child = p


def _contains(root, node):
    for n in ast.walk(root):
        if n is node:
            return True
    return False


def handler_catches(handler, names):
    """Does the except clause name one of `names` (bare except catches everything)?"""
    if handler.type is None:
        return True
    ts = handler.type.elts if isinstance(handler.type, ast.Tuple) else [handler.type]
    for t in ts:
        n = t.attr if isinstance(t, ast.Attribute) else (t.id if isinstance(t, ast.Name) else None)
        if n in names:
            return True
    return False


def stmts_before(f, node):
    """Statements of function f that start before `node` in source order (same function)."""
    ln = (node.lineno, node.col_offset)
    return [s for s in walk_no_nested(f) if isinstance(s, ast.stmt) and (s.lineno, s.col_offset) < ln]


def in_branch(node, if_node):
    """'body' / 'orelse' / None: which arm of if_node contains node."""
    for s in if_node.body:
        if s is node or _contains(s, node):
            return 'body'
    for s in if_node.orelse:
        if s is node or _contains(s, node):
            return 'orelse'
    return None


def terminates(stmts):
    """Does the statement list always leave (return / raise / continue / break) ?"""
    if not stmts:
        return False
    last = stmts[-1]
    if isinstance(last, (ast.Return, ast.Raise, ast.Continue, ast.Break)):
        return True
    if isinstance(last, ast.If):
        return terminates(last.body) and terminates(last.orelse)
    return False


def guards_of(node, f):
    """Conditions known to hold when `node` executes, from enclosing ifs and from earlier
    sibling `if c: <terminates>` statements (then `not c` holds afterwards).
    Returns list of (test_expr, polarity)."""
    out = []
    child = node
    for p in ancestors(node):
        if isinstance(p, ast.If):
            arm = in_branch(child, p) if child is not p else None
            if arm == 'body':
                out.append((p.test, True))
            elif arm == 'orelse':
                out.append((p.test, False))
        if isinstance(p, ast.While):
            if any(child is s for s in p.body):
                out.append((p.test, True))
        # earlier siblings that terminate
        for field in ('body', 'orelse', 'finalbody'):
            seq = getattr(p, field, None)
            if isinstance(seq, list) and child in seq:
                for s in seq[:seq.index(child)]:
                    if isinstance(s, ast.If) and terminates(s.body) and not s.orelse:
                        out.append((s.test, False))
                    elif isinstance(s, ast.If) and s.orelse and terminates(s.orelse) and not terminates(s.body):
                        out.append((s.test, True))
        if p is f:
            break
        child = p
    return out


def local_reach(model, f, limit=4):
    """Functions reachable from f through calls of plain module-level names and self.<method> (the class of f),
    to a small depth: the helpers a refactoring may have extracted."""
    seen = {f}
    frontier = [f]
    for _ in range(limit):
        nxt = []
        for g in frontier:
            cls = getattr(g, '_cls', None)
            for c in walk_no_nested(g):
                if not isinstance(c, ast.Call):
                    continue
                t = None
                if isinstance(c.func, ast.Name):
                    r = g._mod.resolve_name(c.func.id)
                    t = r if isinstance(r, ast.FunctionDef) else None
                elif isinstance(c.func, ast.Attribute) and isinstance(c.func.value, ast.Name) and c.func.value.id == 'self' and cls is not None:
                    r = cls.find_method(c.func.attr)
                    t = r[1] if r else None
                elif isinstance(c.func, ast.Attribute):
                    r = g._mod.resolve(c.func)
                    t = r if isinstance(r, ast.FunctionDef) else None
                if t is not None and t not in seen:
                    seen.add(t)
                    nxt.append(t)
        frontier = nxt
    return seen


def inline_helpers(f, rounds=3, exclude=()):
    """A copy of function f in which calls of single-exit helper functions of the same module are expanded in place
    (`x = helper(a)` / `return helper(a)` / `helper(a)`): parameters become prefixed locals, the helper's final
    `return e` becomes the assignment / return.  Only one-expression helpers and helpers with a single call site in the module
    are expanded; helpers with early returns, *args or nested definitions are left as calls.
    The copy carries f's module, class and name, and the line numbers of f's definition.  Returns f itself when nothing
    was expanded."""
    mod = getattr(f, '_mod', None)
    if mod is None:
        return f
    counter = [0]
    changed = [False]
    uses = {}

    def helper_of(call):
        if not isinstance(call, ast.Call) or not isinstance(call.func, ast.Name) or call.func.id in exclude:
            return None
        g = mod.resolve_name(call.func.id)
        if not isinstance(g, ast.FunctionDef) or g is f or getattr(g, '_mod', None) is not mod or g.decorator_list:
            return None
        a = g.args
        if a.vararg or a.kwarg or a.kwonlyargs or a.posonlyargs:
            return None
        if any(isinstance(x, ast.Starred) for x in call.args) or any(k.arg is None for k in call.keywords):
            return None
        body = [s for s in g.body if not (isinstance(s, ast.Expr) and isinstance(s.value, ast.Constant))]
        if not body:
            return None
        for n in ast.walk(g):
            if isinstance(n, (ast.Yield, ast.YieldFrom, ast.Global, ast.Nonlocal, ast.Lambda)) or (isinstance(n, (ast.FunctionDef, ast.ClassDef)) and n is not g):
                return None
        rets = [n for s in body for n in ast.walk(s) if isinstance(n, ast.Return)]
        if len(rets) > 1 or (rets and rets[0] is not body[-1]):
            return None
        params = [x.arg for x in a.args]
        if len(call.args) > len(params):
            return None
        # only what a refactoring extracts: a one-expression helper, or a helper with a single call site in its module
        one_expr = len(body) == 1 and isinstance(body[0], ast.Return)
        if not one_expr:
            if g.name not in uses:
                uses[g.name] = sum(1 for n in ast.walk(mod.tree) if isinstance(n, ast.Call) and isinstance(n.func, ast.Name) and n.func.id == g.name)
            if uses[g.name] != 1:
                return None
        return g, body, params

    def expand(call, sink):
        """statements computing helper(call) and handing the result to sink(expr) -> stmt, or None"""
        h = helper_of(call)
        if h is None:
            return None
        g, body, params = h
        counter[0] += 1
        pre = '_%s%d_' % (g.name.strip('_'), counter[0])
        local = set(params)
        for s in body:
            for n in ast.walk(s):
                if isinstance(n, ast.Name) and isinstance(n.ctx, (ast.Store, ast.Del)):
                    local.add(n.id)
        bound = {}
        for pn, a_ in zip(params, call.args):
            bound[pn] = a_
        for k in call.keywords:
            if k.arg not in params or k.arg in bound:
                return None
            bound[k.arg] = k.value
        defaults = dict(zip(params[len(params) - len(g.args.defaults):], g.args.defaults))
        if len(body) == 1 and isinstance(body[0], ast.Return) and body[0].value is not None \
                and all(isinstance(bound.get(pn, defaults.get(pn)), (ast.Name, ast.Constant)) for pn in params):
            # a one-expression helper with plain arguments: the expression itself, arguments substituted
            sub = {pn: bound.get(pn, defaults.get(pn)) for pn in params}

            class Sub(ast.NodeTransformer):
                def visit_Name(s, n):
                    if n.id in sub and isinstance(n.ctx, ast.Load):
                        return ast.copy_location(ast.parse(ast.unparse(sub[n.id]), mode='eval').body, n)
                    return n
            e = Sub().visit(ast.parse(ast.unparse(body[0].value), mode='eval').body)
            changed[0] = True
            return [sink(e)]
        out = []
        # a parameter that the helper never re-binds and that is given a plain name keeps the caller's name (no copy): what the helper does to it is visibly done
        # to the caller's object
        rebound = {n.id for s_ in body for n in ast.walk(s_) if isinstance(n, ast.Name) and isinstance(n.ctx, (ast.Store, ast.Del))}
        direct = {}
        for pn in params:
            v = bound.get(pn, defaults.get(pn))
            if v is None:
                return None
            if isinstance(v, ast.Name) and pn not in rebound and v.id not in rebound:
                direct[pn] = v.id
                continue
            out.append(ast.Assign(targets=[ast.Name(id=pre + pn, ctx=ast.Store())], value=v, lineno=call.lineno, col_offset=0))

        class Ren(ast.NodeTransformer):
            def visit_Name(s, n):
                if n.id in direct:
                    return ast.copy_location(ast.Name(id=direct[n.id], ctx=n.ctx), n)
                if n.id in local:
                    return ast.copy_location(ast.Name(id=pre + n.id, ctx=n.ctx), n)
                return n
        copied = ast.parse(ast.unparse(ast.Module(body=body, type_ignores=[]))).body
        copied = [Ren().visit(s) for s in copied]
        if isinstance(copied[-1], ast.Return):
            last = copied.pop()
            out.extend(copied)
            out.append(sink(last.value if last.value is not None else ast.Constant(None)))
        else:
            out.extend(copied)
            out.append(sink(ast.Constant(None)))
        changed[0] = True
        return out

    def block(stmts):
        res = []
        for s in stmts:
            rep = None
            if isinstance(s, ast.Assign) and len(s.targets) == 1 and isinstance(s.value, ast.Call):
                rep = expand(s.value, lambda e, s=s: ast.Assign(targets=s.targets, value=e, lineno=s.lineno, col_offset=0))
            elif isinstance(s, ast.Return) and isinstance(s.value, ast.Call):
                rep = expand(s.value, lambda e, s=s: ast.Return(value=e, lineno=s.lineno, col_offset=0))
            elif isinstance(s, ast.Expr) and isinstance(s.value, ast.Call):
                rep = expand(s.value, lambda e, s=s: ast.Expr(value=e, lineno=s.lineno, col_offset=0))
            if rep is not None:
                res.extend(rep)
                continue
            for fld in ('body', 'orelse', 'finalbody'):
                if isinstance(getattr(s, fld, None), list) and getattr(s, fld) and isinstance(getattr(s, fld)[0], ast.stmt):
                    setattr(s, fld, block(getattr(s, fld)))
            if isinstance(s, ast.Try):
                for h_ in s.handlers:
                    h_.body = block(h_.body)
            res.append(s)
        return res

    cur = ast.parse(ast.unparse(f)).body[0]
    for _ in range(rounds):
        changed[0] = False
        cur.body = block(cur.body)
        if not changed[0]:
            break
        ast.fix_missing_locations(cur)
        cur = ast.parse(ast.unparse(cur)).body[0]
    if counter[0] == 0:
        return f
    ast.increment_lineno(cur, f.lineno - 1)
    for par in ast.walk(cur):
        for ch in ast.iter_child_nodes(par):
            ch._parent = par
    cur._parent = getattr(f, '_parent', None)
    cur._mod = mod
    cur._cls = getattr(f, '_cls', None)
    cur._inlined_from = f
    return cur


def unwrap_delegate(f, depth=3):
    """Follow thin delegation: while the body of f (docstring aside) is a single `return g(<its own parameters, in order>)` where g is a function of f's module or a method
    of f's class, continue with g.  Returns the function whose body does the work (f itself when it does)."""
    for _ in range(depth):
        body = [s for s in f.body if not (isinstance(s, ast.Expr) and isinstance(s.value, ast.Constant))]
        if len(body) != 1 or not isinstance(body[0], ast.Return) or not isinstance(body[0].value, ast.Call):
            return f
        call = body[0].value
        params = [p for p in param_names(f) if p not in ('self', 'cls')]
        args = [a.id for a in call.args if isinstance(a, ast.Name)]
        if len(args) != len(call.args) or call.keywords or args != params[:len(args)]:
            return f
        g = None
        if isinstance(call.func, ast.Name) and getattr(f, '_mod', None) is not None:
            r = f._mod.resolve_name(call.func.id)
            if isinstance(r, ast.FunctionDef):
                g = r
        elif isinstance(call.func, ast.Attribute) and isinstance(call.func.value, ast.Name) and call.func.value.id in ('self', 'cls') and getattr(f, '_cls', None) is not None:
            r = f._cls.find_method(call.func.attr)
            if r:
                g = r[1]
        if g is None or g is f:
            return f
        f = g
    return f
