"""Check context: rule instances, violations, known findings, evidence, exit codes."""
import hashlib
import json
import os
import re
import time

from .model import Model, AnalysisError, norm_stmt

VERIF = os.path.dirname(os.path.dirname(os.path.abspath(__file__)))
KNOWN_FILE = os.path.join(VERIF, 'KNOWN_FINDINGS.txt')


class Finding(object):
    def __init__(self, prop, rule, file, line, construct, stmt, msg, extra=None):
        self.prop, self.rule, self.file, self.line = prop, rule, file, line
        self.construct, self.stmt, self.msg = construct, stmt, msg
        self.extra = extra or {}

    def key(self):
        return (self.prop, self.rule, self.construct, self.stmt)

    def as_dict(self):
        d = dict(property=self.prop, rule=self.rule, file=self.file, line=self.line,
                 construct=self.construct, statement=self.stmt, message=self.msg)
        d.update(self.extra)
        return d


class Known(object):
    """KNOWN_FINDINGS.txt:

    known: property=C14 rule=C14.R3 construct=<construct> [stmt=<normalised statement>] :: <what fails>
    fixed: property=C08 <commit> <what failed>

    A `known:` entry matches findings with the same property, rule and construct (and
    statement, when given).  `fixed:` entries suppress nothing.  Never written at run time."""

    LINE = re.compile(r'^known:\s+property=(\S+)\s+rule=(\S+)\s+construct=(.*?)(?:\s+stmt=(.*?))?\s+::\s+(.*)$')

    def __init__(self, path=KNOWN_FILE):
        self.entries = []
        self.fixed = []
        if os.path.exists(path):
            for ln in open(path, encoding='utf-8'):
                ln = ln.rstrip('\n')
                if ln.startswith('known:'):
                    m = self.LINE.match(ln)
                    if not m:
                        raise AnalysisError('malformed KNOWN_FINDINGS line: %s' % ln)
                    self.entries.append(dict(prop=m.group(1), rule=m.group(2), construct=m.group(3).strip(),
                                             stmt=(m.group(4) or '').strip() or None, what=m.group(5), used=False))
                elif ln.startswith('fixed:'):
                    self.fixed.append(ln)

    def match(self, f):
        for e in self.entries:
            if e['prop'] == f.prop and e['rule'] == f.rule and e['construct'] == f.construct \
                    and (e['stmt'] is None or e['stmt'] == f.stmt):
                e['used'] = True
                return e
        return None


class Ctx(object):
    """What a property check talks to."""

    def __init__(self, prop, model, tier='quick', quiet=False):
        self.prop = prop
        self.model = model
        self.tier = tier
        self.quiet = quiet
        self.findings = []
        self.instances = []          # (rule, construct, verdict, note)
        self.rule_counts = {}        # rule -> [instances, nontrivial]
        self.rule_doc = {}
        self.notes = []
        self.extra = {}
        self.problems = []           # analysis problems (missed floors, an AnalysisError that ended the check early)

    # -- recording
    def rule(self, rid, doc):
        self.rule_doc[rid] = doc
        self.rule_counts.setdefault(rid, [0, 0])

    def instance(self, rid, construct, verdict='ok', note='', nontrivial=True, node=None, file=None):
        c = self.rule_counts.setdefault(rid, [0, 0])
        c[0] += 1
        if nontrivial:
            c[1] += 1
        loc = ''
        if node is not None and file is not None:
            loc = '%s:%d ' % (file, getattr(node, 'lineno', 0))
        self.instances.append((rid, '%s%s' % (loc, construct), verdict, note, bool(nontrivial)))

    def violation(self, rid, file, node, construct, msg, stmt=None, extra=None):
        line = getattr(node, 'lineno', 0) if node is not None else 0
        if stmt is None:
            stmt = norm_stmt(node) if node is not None else ''
        f = Finding(self.prop, rid, file, line, construct, stmt, msg, extra)
        # de-duplicate identical keys (same construct reached twice)
        for g in self.findings:
            if g.key() == f.key():
                return g
        self.findings.append(f)
        return f

    def floor(self, rid, floor):
        n = self.rule_counts.get(rid, [0, 0])[0]
        if any(f.rule == rid for f in self.findings):
            return      # the rule fired: report the violation rather than a missed floor
        if n < floor:
            # deferred: the other rules still run, so that a change which both moves an anchor and breaks a rule is reported as the violation it is
            self.problems.append('%s matched %d instances, fewer than its floor %d (rule vacuous or anchor moved)' % (rid, n, floor))

    def note(self, s):
        self.notes.append(s)


def fn_construct(f):
    return Model.qual(f)


def run_property(prop, check, tier, repo=None, overlay=None, quiet=True):
    """Run `check(ctx)` on a model; return ctx (raises AnalysisError)."""
    model = Model(repo, overlay)
    ctx = Ctx(prop, model, tier, quiet)
    try:
        check(ctx)
    except AnalysisError as e:
        # the check stopped early: keep what the rules before it found (a violation is still a violation); without findings this is exit 2
        if not ctx.findings:
            raise
        ctx.problems.append('check ended early: %s' % e)
    return ctx


def write_replay(f, outdir):
    os.makedirs(outdir, exist_ok=True)
    h = hashlib.sha1(repr(f.key()).encode()).hexdigest()[:12]
    p = os.path.join(outdir, '%s-%s-%s.json' % (f.prop, f.rule.replace('.', '_'), h))
    with open(p, 'w') as fh:
        json.dump(f.as_dict(), fh, indent=1, default=str)
    return p


def finish(ctx, known, t0, controls=None, selftest=None, seed=0, level='other',
           evidence_dir=None, explanation='', trusted=None, assumptions=None, checker_cmd=''):
    """Print verdict lines, write evidence, return exit code."""
    evidence_dir = evidence_dir or os.path.join(VERIF, 'evidence')
    os.makedirs(evidence_dir, exist_ok=True)
    unlisted = []
    known_hit = []
    for f in ctx.findings:
        e = known.match(f)
        if e is not None:
            known_hit.append((f, e))
        else:
            unlisted.append(f)
    for f, e in known_hit:
        print('KNOWN-FINDING: property=%s rule=%s %s:%d %s -- %s' % (f.prop, f.rule, f.file, f.line, f.construct, e['what']))
    replay_dir = os.path.join(evidence_dir, 'replay')
    for f in unlisted:
        p = write_replay(f, replay_dir)
        print('  %s %s:%d %s\n      stmt: %s\n      %s' % (f.rule, f.file, f.line, f.construct, f.stmt, f.msg))
        print('VIOLATION property=%s replay=%s' % (f.prop, p))
    evaluations = sum(c[0] for c in ctx.rule_counts.values())
    nontrivial = len({(i[0], i[1]) for i in ctx.instances if i[4]})
    samples = []
    seen_rules = {}
    for rid, cons, verdict, note, _nt in ctx.instances:
        k = seen_rules.get(rid, 0)
        if k < 4:
            samples.append('%s | %s -> %s%s' % (rid, cons, verdict, (' (' + note + ')') if note else ''))
            seen_rules[rid] = k + 1
    obligations = evaluations
    discharged = evaluations - len(ctx.findings) - len([i for i in ctx.instances if str(i[2]).startswith(('undecided', 'not-analysed'))])
    ev = {
        'property_id': ctx.prop,
        'tier': ctx.tier,
        'seed': seed,
        'level': level,
        'coverage': {
            'explanation': explanation,
            'evaluations': evaluations,
            'distinct_nontrivial': nontrivial,
            'rule': 'one evaluation = one rule instance (a construct of /repo on which a rule had to decide); '
                    'non-trivial = the rule had something to decide there (not discharged vacuously: e.g. a function without stores for the purity rule, an exempt receiver, '
                    'a loop that is not on a decode path are counted as evaluations but not as non-trivial); distinct by (rule, construct)',
            'samples': samples,
            'obligations': obligations,
            'discharged': discharged,
            'checker_cmd': checker_cmd,
            'trusted_base': trusted or ['CPython ast', 'sa/model.py name/MRO resolution', 'rule tables in sa/props/%s.py' % ctx.prop],
            'exhaustive': True,
            'rules': {rid: {'doc': ctx.rule_doc.get(rid, ''), 'instances': c[0], 'nontrivial': c[1],
                            'findings': len([f for f in ctx.findings if f.rule == rid])}
                      for rid, c in sorted(ctx.rule_counts.items())},
            'modules_analysed': len(ctx.model.modules),
            'known_findings_matched': [dict(rule=f.rule, construct=f.construct, what=e['what']) for f, e in known_hit],
            'notes': ctx.notes,
            'undecided_instances': ['%s | %s%s' % (i[0], i[1], (' (' + i[3] + ')') if i[3] else '') for i in ctx.instances
                                    if str(i[2]).startswith(('undecided', 'not-analysed'))],
        },
        'assumptions': assumptions or [],
        'wall_s': round(time.time() - t0, 3),
        'violations': len(unlisted),
    }
    ev['coverage'].update(ctx.extra)
    if controls is not None:
        ev['coverage']['positive_controls'] = controls
    if selftest is not None:
        ev['coverage']['selftest'] = selftest
    with open(os.path.join(evidence_dir, '%s.json' % ctx.prop), 'w') as fh:
        json.dump(ev, fh, indent=1, default=str)
    return 1 if unlisted else 0
