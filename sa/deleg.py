"""Delegation mirror (E11): which child codec methods an encode method hands the value to, per configuration, and whether the partner decode
method hands the element to the mirrored methods of the same children under that configuration.

For a class with the pair (encode, decode) or (encode_of, decode_of): every path of both methods is summarised (sa/sem.py) as
(configuration literals, set of (receiver, method)) where receiver is the canonical text of the child object (subscript keys blanked) and the
method is mirrored to the decode side (encode -> decode, encode_of -> decode_of); a call on `self` is expanded into the delegations of that
method.  For every truth assignment of the configuration atoms: each delegation set a feasible decoder path can take must be one a feasible
encoder path takes.  A decoder that, depending on the *document* (element tag, key), hands the same encoder output to a different child
protocol is what the rule reports; decoder paths without delegation (absent value, unknown extension) are not constrained."""
import ast
import itertools
import re

from . import flow, sem

DELEG = re.compile(r'^([\w\.\[\]\'"\*]+?)\.(encode|decode|encode_of|decode_of|encode_content|decode_content)\(')
SELF_CALL = re.compile(r'^self\.(\w+)\(')
TEXT_CODEC = re.compile(r'''^\s*(\)|['"][\w-]+['"]\s*[,)]|(?:self|cls|\w+)\.[A-Z_]*ENCODING[A-Z_]*\s*[,)])''')
HELPER_CALL = re.compile(r'^(\w+)\(')
_HELPERS = {}


def _helper_delegations(mod, name):
    """[(parameter index, codec method)] for a module-level function that calls <parameter>.encode / decode / ... on one of its parameters"""
    key = (id(mod), name)
    if key in _HELPERS and _HELPERS[key][0] is mod:
        return _HELPERS[key][1]
    out = []
    try:
        r = mod.resolve_name(name)
    except Exception:
        r = None
    if isinstance(r, ast.FunctionDef):
        ps = [a.arg for a in r.args.args]
        for n in ast.walk(r):
            if isinstance(n, ast.Call) and isinstance(n.func, ast.Attribute) and n.func.attr in MIRROR and isinstance(n.func.value, ast.Name) and n.func.value.id in ps:
                out.append((ps.index(n.func.value.id), n.func.attr))
    _HELPERS[key] = (mod, out)
    return out
MIRROR = {'encode': 'decode', 'encode_of': 'decode_of', 'decode': 'decode', 'decode_of': 'decode_of', 'encode_content': 'decode_content', 'decode_content': 'decode_content'}


def norm_recv(text):
    """receiver classes: a direct child attribute (self.inner, self.element_type, self._type) keeps its name; an element of one of the object's member
    collections -- a loop variable, self.members[..], self.tag_to_member.get(..) -- is `member` (which collection it came from differs legitimately between the two sides:
    by name when encoding, by tag or index when decoding)"""
    t = re.sub(r'\s*@\s*\d+', '', text).strip()
    if re.match(r'^self\.\w+$', t):
        return t
    return 'member'


def _flat_events(events, depth=0):
    """the events of a path with, in place of every loop, the events of all paths of one generic iteration of its body (union)"""
    for ev in events:
        if ev[0] in ('loop', 'in-loop:loop') and len(ev) > 3 and depth < 4:
            for bp in ev[3]:
                for e2 in _flat_events(bp.events, depth + 1):
                    yield e2
        else:
            yield ev


def deleg_paths(cls, f, depth=0):
    """[(configuration literals, frozenset of (receiver, mirrored method))] per non-raising path, or None (too many paths)"""
    params = set(flow.param_names(f)[1:])
    if depth > 0:
        # in a helper of the object a parameter may be the child handed in (encode_member(self, member, data, ..)): only the parameters that carry the value or
        # the stream are not children
        params = {p_ for p_ in params if p_ in ('data', 'value', 'values', 'encoded', 'encoder', 'decoder', 'element', 'string', 'text', 'offset')}
    ps = sem.paths(f)
    if ps is None:
        return None
    out = []
    for p in ps:
        if p.outcome[0] == 'raise':
            continue
        cfg = frozenset((c[0], c[1]) for c in p.conds if not (set(re.findall(r'[A-Za-z_]\w*', c[0])) & set(flow.param_names(f)[1:])))
        ds = set()
        subs = [frozenset()]
        for ev in _flat_events(p.events):
            if ev[0] != 'call':
                continue
            m = DELEG.match(ev[1])
            if not m:
                # a module-level helper that is handed a child and calls the child's codec method (encode_located(member, ..), decode_located(member, ..))
                mh = HELPER_CALL.match(ev[1])
                if mh and getattr(f, '_mod', None) is not None:
                    hd = _helper_delegations(f._mod, mh.group(1))
                    if hd:
                        try:
                            ce = sem.parse_expr(ev[1])
                        except SyntaxError:
                            ce = None
                        if isinstance(ce, ast.Call):
                            for idx, meth_ in hd:
                                if idx < len(ce.args):
                                    recv_ = ast.unparse(ce.args[idx])
                                    if recv_.split('.')[0].split('[')[0] not in params:
                                        ds.add((norm_recv(recv_), MIRROR[meth_]))
                        continue
                ms = SELF_CALL.match(ev[1])
                if ms and depth < 2 and ms.group(1) != f.name:
                    # a helper of the same object: its delegations are the caller's
                    r = cls.find_method(ms.group(1))
                    if r:
                        sub = deleg_paths(cls, r[1], depth + 1)
                        if sub and any(d for _k, d in sub):
                            subs = list({s | d for s in subs for (_k, d) in sub})[:64]
                continue
            recv, meth = m.group(1), m.group(2)
            if recv.split('.')[0].split('[')[0] in params or recv.startswith('super('):
                continue
            if TEXT_CODEC.match(ev[1][m.end():]):
                continue        # str.encode('ascii') / bytes.decode(self.ENCODING): a character set conversion, not a child codec
            if recv == 'self':
                r = cls.find_method(meth)
                if r and depth < 2:
                    sub = deleg_paths(cls, r[1], depth + 1)
                    if sub:
                        subs = list({s | d for s in subs for (_k, d) in sub})[:64]
                        continue
            ds.add((norm_recv(recv) if recv != 'self' else recv, MIRROR[meth]))
        for s_ in subs:
            out.append((cfg, frozenset(ds | s_)))
    return out


def mismatches(cls, enc_name, dec_name, max_atoms=8):
    """-> None (undecided) or list of (assignment, extra decoder delegation sets, encoder delegation sets)"""
    er, dr = cls.find_method(enc_name), cls.find_method(dec_name)
    if not er or not dr:
        return []
    E, D = deleg_paths(cls, er[1]), deleg_paths(cls, dr[1])
    if E is None or D is None:
        return None
    atoms = sorted({t for k, _ in E + D for t, _p in k})
    if len(atoms) > max_atoms:
        return None
    out = []
    for vals in itertools.product([True, False], repeat=len(atoms)):
        asg = dict(zip(atoms, vals))
        es = {d for k, d in E if all(asg.get(t, pol) == pol for t, pol in k)}
        ds = {d for k, d in D if d and all(asg.get(t, pol) == pol for t, pol in k)}
        extra = [d for d in ds if d not in es]
        if extra and es:
            out.append((asg, extra, es))
            break

    return out
