"""C14 -- parsing depends only on the token sequence (lexer / grammar literal rules; DESIGN.md section 4 C14)."""
import ast
import re
import re._parser as sre_parse
import re._constants as sre_c

from ..model import AnalysisError, Model, walk_no_nested, norm_stmt, names_in
from .. import flow, sem

EXPLANATION = (
    'Decided on asn1tools/parser.py: (R1) the comment pre-pass whose result is handed to grammar.parseString scans for the character-string '
    'delimiter: the alternation of its re.finditer pattern (parsed with re._parser) contains `"` -- a scanner that never looks at `"` cannot '
    'know that `--` inside "a--b" is not a comment; (R2) what replaces a comment keeps the line structure and adds nothing the grammar sees: a '
    'region that can contain new-lines (multi-line state) is not replaced by a pure blank fill, and a replacement computed with re.sub keeps '
    'only characters pyparsing skips (space, tab, CR, LF); (R3) no Keyword/Literal of create_grammar contains a literal blank between words '
    '(X.680 allows any white-space and comments between the words of OCTET STRING, BIT STRING, WITH COMPONENTS, ...); (R4) a single-line '
    'comment is replaced by exactly as many blanks as it is long, and the verbatim chunks tile the input; (R5) the error line reported by '
    'parse_string is taken from the exception raised on the pre-passed text; (R6) a depth counter that decides where a nested /* */ comment ends is '
    'incremented in the same loop that decrements it (every opener passed while scanning is counted).  Not decided: equality of the parse result under all re-layouts '
    '(pyparsing white-space skipping is outside /repo); error columns.')
F = 'asn1tools/parser.py'
PYPARSING_WS = set(' \t\r\n')


def regex_alternatives(pattern):
    """Literal alternatives of a regex like (/\\*|\\*/|--|\\n): list of strings (None for non-literal branches)."""
    try:
        p = sre_parse.parse(pattern)
    except Exception as e:
        raise AnalysisError('cannot parse regex %r: %s' % (pattern, e))
    out = []

    def lit(seq):
        s = ''
        for op, av in seq:
            if op == sre_c.LITERAL:
                s += chr(av)
            else:
                return None
        return s

    def walk(seq):
        for op, av in seq:
            if op == sre_c.SUBPATTERN:
                walk(av[3])
            elif op == sre_c.BRANCH:
                for alt in av[1]:
                    l = lit(alt)
                    if l is None:
                        walk(alt)
                        out.append(None)
                    else:
                        out.append(l)
            elif op == sre_c.LITERAL:
                out.append(chr(av))
            elif op == sre_c.IN:
                for o2, a2 in av:
                    if o2 == sre_c.LITERAL:
                        out.append(chr(a2))
    walk(p)
    return out


def unbounded_alternatives(pattern):
    """Top-level alternatives of the pattern that contain an unbounded repetition: the source texts (approximate) of such branches."""
    try:
        p = sre_parse.parse(pattern)
    except Exception as e:
        raise AnalysisError('cannot parse regex %r: %s' % (pattern, e))
    out = []

    def unbounded(seq):
        for op, av in seq:
            if op in (sre_c.MAX_REPEAT, sre_c.MIN_REPEAT) or str(op) == 'POSSESSIVE_REPEAT':
                if av[1] == sre_c.MAXREPEAT or unbounded(av[2]):
                    return True
            elif op == sre_c.SUBPATTERN:
                if unbounded(av[3]):
                    return True
            elif op == sre_c.BRANCH:
                if any(unbounded(a_) for a_ in av[1]):
                    return True
        return False

    def top(seq):
        for op, av in seq:
            if op == sre_c.SUBPATTERN:
                top(av[3])
            elif op == sre_c.BRANCH:
                for i_, alt in enumerate(av[1]):
                    if unbounded(alt):
                        out.append(i_)
            elif op in (sre_c.MAX_REPEAT, sre_c.MIN_REPEAT) and av[1] == sre_c.MAXREPEAT:
                out.append(-1)
    top(p)
    return out


def kept_by_sub(pattern):
    """For re.sub(pattern, ' ', region): which characters survive?  Returns ('only', set) when the
    pattern replaces every character except a finite literal set, ('category', text) when what is
    kept is a character category (e.g. all of \\s), or ('unknown', '')."""
    try:
        p = sre_parse.parse(pattern)
    except Exception:
        return 'unknown', ''
    if len(p) != 1:
        return 'unknown', ''
    op, av = p[0]
    if op == sre_c.NOT_LITERAL:
        return 'only', {chr(av)}
    if op == sre_c.IN:
        items = list(av)
        if items and items[0][0] == sre_c.NEGATE:
            kept = set()
            for o2, a2 in items[1:]:
                if o2 == sre_c.LITERAL:
                    kept.add(chr(a2))
                elif o2 == sre_c.CATEGORY:
                    return 'category', str(a2)
                else:
                    return 'unknown', ''
            return 'only', kept
        # positive class: everything else is kept -> an open set
        if len(items) == 1 and items[0][0] == sre_c.CATEGORY and items[0][1] == sre_c.CATEGORY_NOT_SPACE:
            return 'category', r'\s (all Unicode white-space, incl. \x0b \x0c \xa0 ...)'
        return 'unknown', ''
    if op == sre_c.ANY:
        return 'only', {'\n'}     # '.' does not match new-line
    return 'unknown', ''


def check(ctx):
    model = ctx.model
    m = model.mod(F)
    ctx.rule('C14.R1', 'the comment pre-pass scans for the string delimiter `"`')
    ctx.rule('C14.R2', 'comment replacement preserves new-lines and introduces no character the grammar does not skip')
    ctx.rule('C14.R3', 'no Keyword/Literal in create_grammar fixes a white-space layout (blank between words)')
    ctx.rule('C14.R4', 'single-line comments are replaced by blanks of equal length; verbatim chunks tile the input')
    ctx.rule('C14.R5', 'parse_string parses the pre-passed text and reports the line of the exception')

    ps = model.func(F, 'parse_string')
    # which function produces the text handed to parseString?
    pre = None
    parse_call = None
    for n in walk_no_nested(ps):
        if isinstance(n, ast.Call) and isinstance(n.func, ast.Attribute) and n.func.attr in ('parseString', 'parse_string'):
            parse_call = n
    if parse_call is None:
        raise AnalysisError('parse_string no longer calls grammar.parseString')
    arg = parse_call.args[0]
    if isinstance(arg, ast.Name):
        binds = [a for a in walk_no_nested(ps) if isinstance(a, ast.Assign) and arg.id in [x for t in a.targets for x in flow.target_names(t)]]
        calls = [a.value for a in binds if isinstance(a.value, ast.Call) and isinstance(a.value.func, ast.Name)]
        if calls:
            pre = m.functions.get(calls[-1].func.id)
    elif isinstance(arg, ast.Call) and isinstance(arg.func, ast.Name):
        pre = m.functions.get(arg.func.id)
    uses_ignore = any(isinstance(c, ast.Call) and isinstance(c.func, ast.Attribute) and c.func.attr == 'ignore' for f in m.functions.values() for c in walk_no_nested(f))
    if pre is None:
        if uses_ignore:
            ctx.instance('C14.R1', 'comments handled by grammar.ignore()', 'alternative accepted', node=ps, file=F)
            ctx.instance('C14.R2', 'comments handled by grammar.ignore()', 'alternative accepted', node=ps, file=F)
        else:
            raise AnalysisError('cannot find the comment pre-pass of parse_string')
    else:
        fq = Model.qual(pre)
        pv = sem.View(pre)

        def regex_of(call, f_):
            """The pattern string a regex call works with: re.fn('pat', ...), NAME.fn(...) / local.fn(...) where the name is
            bound to re.compile('pat') at module level or in f_.  -> (pattern, function name) or None"""
            if not (isinstance(call, ast.Call) and isinstance(call.func, ast.Attribute)):
                return None
            fn = call.func.attr
            if fn not in ('finditer', 'split', 'findall', 'search', 'match', 'sub', 'subn', 'fullmatch', 'compile'):
                return None
            recv = call.func.value
            if isinstance(recv, ast.Name) and recv.id == 're':
                if call.args and isinstance(call.args[0], ast.Constant) and isinstance(call.args[0].value, str):
                    return call.args[0].value, fn
                if call.args and isinstance(call.args[0], ast.Name):
                    r_ = m.resolve_name(call.args[0].id)
                    if isinstance(r_, tuple) and r_[0] == 'const' and isinstance(r_[1], ast.Constant) and isinstance(r_[1].value, str):
                        return r_[1].value, fn
                return None
            comp = None
            if isinstance(recv, ast.Name):
                v_ = sem.View(f_)
                if recv.id in v_.alias:
                    comp = v_.alias[recv.id]
                else:
                    r_ = m.resolve_name(recv.id)
                    if isinstance(r_, tuple) and r_[0] == 'const':
                        comp = r_[1]
            elif isinstance(recv, ast.Call):
                comp = recv
            if isinstance(comp, ast.Call) and ast.unparse(comp.func) == 're.compile' and comp.args and isinstance(comp.args[0], ast.Constant):
                return comp.args[0].value, fn
            return None
        # ---- R1
        pats = []
        for g_ in flow.local_reach(model, pre, limit=2):      # the pre-pass and the helpers it calls (a scanner may live in one)
            for c in walk_no_nested(g_):
                r_ = regex_of(c, g_)
                if r_ is not None and r_[1] in ('finditer', 'split', 'findall', 'search', 'match', 'compile'):
                    pats.append((c, r_[0]))
        scanners = []
        for c, pat in pats:
            lits_ = [a_ for a_ in regex_alternatives(pat) if a_]
            if '--' in lits_ and '/*' in lits_:
                scanners.append((c, pat, lits_))
        if not scanners:
            raise AnalysisError('%s: the regex that scans for the comment markers was not found' % fq)
        lits = [a_ for _c, _p, ls in scanners for a_ in ls]
        ok = any('"' in a_ for a_ in lits)
        ctx.instance('C14.R1', '%s scanner alternatives %s' % (fq, sorted(set(lits))), 'ok' if ok else 'VIOLATION', node=scanners[0][0], file=F)
        if not ok:
            ctx.violation('C14.R1', F, scanners[0][0], fq,
                          'the comment scanner looks for %s but never for the string delimiter `"`: text inside a character-string literal such as "a--b" '
                          'is treated as a comment and blanked (the literal is corrupted or the module rejected)' % sorted(set(lits)), stmt='scanner ignores string literals')
        # the scanner runs over the raw text without knowing whether it is inside a comment or a literal: it can only find *markers*, and the loop keeps the state.
        # An alternative with an unbounded repetition ("..." matched as a whole) swallows the markers inside it whatever the state is -- a quotation mark in a
        # comment then hides the end of the comment.
        for c_, pat_, _ls in scanners:
            ub = unbounded_alternatives(pat_)
            ctx.instance('C14.R1', '%s scanner %r: every alternative is a bounded marker' % (fq, pat_[:60]), 'ok' if not ub else 'VIOLATION', node=c_, file=F)
            if ub:
                ctx.violation('C14.R1', F, c_, fq,
                              'the marker scanner %r has an alternative of unbounded length: it is matched against the raw text regardless of the comment state, so a `"` inside a '
                              'comment (-- it\'s "quoted) starts a match that runs over the end of the comment and over the following markers, and the text up to the next `"` is '
                              'treated as a literal: changing a comment changes the parse' % pat_, stmt='scanner alternative of unbounded length')
        # ---- R2 / R4: classify every <chunks>.append(X)   (also through a bound-method alias)
        appends = [c for c in sem.method_calls(pre, 'append', pv) if c.args]
        verbatim_uppers = set()
        for c in appends:
            x = c.args[0]
            if isinstance(x, ast.Subscript) and isinstance(x.slice, ast.Slice) and x.slice.upper is not None:
                verbatim_uppers.add(ast.unparse(x.slice.upper))
        n_repl = 0
        n_cursor = 0
        # an appended local that is bound to the replacement text in the branches before the append: every binding is a replacement site
        sites = []
        for c in appends:
            x = c.args[0]
            binds_ = []
            if isinstance(x, ast.Name):
                binds_ = [a_ for a_ in walk_no_nested(pre) if isinstance(a_, ast.Assign) and len(a_.targets) == 1 and isinstance(a_.targets[0], ast.Name)
                          and a_.targets[0].id == x.id and not isinstance(a_.value, (ast.Subscript, ast.Tuple))]
            if binds_:
                sites.extend((c, a_, a_.value) for a_ in binds_)
            else:
                sites.append((c, c, x))
        for c, gnode, x in sites:
            src = ast.unparse(x)
            # which marker closes the region replaced here?  (the string constants of the enclosing tests)
            consts = set()
            for t_, pol_ in flow.guards_of(gnode, pre):
                if pol_:
                    consts |= {k_.value for k_ in ast.walk(t_) if isinstance(k_, ast.Constant) and isinstance(k_.value, str)}
            multi = '*/' in consts
            single = ('\n' in consts or '--' in consts) and not multi
            if isinstance(x, ast.Subscript):
                ctx.instance('C14.R4', '%s verbatim chunk %s' % (fq, src), 'ok', nontrivial=False, node=c, file=F)
                continue
            if isinstance(x, ast.Tuple):
                continue      # (offset, kind) records of the scanner
            n_repl += 1
            cons = '%s replacement `%s` [%s]' % (fq, src, 'multi-line comment' if multi else 'single-line comment' if single else 'other')
            # the verbatim cursor is moved to the end of the replaced region right here
            sibs = getattr(Model.enclosing_stmt(c), '_parent', None)
            if any(isinstance(s_, ast.Assign) and isinstance(s_.targets[0], ast.Name) and any(s_.targets[0].id in names_in(sl_) for sl_ in
                   [y.slice.lower for y in [a_.args[0] for a_ in appends] if isinstance(y, ast.Subscript) and isinstance(y.slice, ast.Slice) and y.slice.lower is not None])
                   for s_ in ast.walk(sibs) if isinstance(s_, ast.Assign)):
                n_cursor += 1
            if isinstance(x, ast.BinOp) and isinstance(x.op, ast.Mult) and any(isinstance(s_, ast.Constant) and s_.value == ' ' for s_ in (x.left, x.right)):
                # pure blank fill
                if multi or not single:
                    ctx.instance('C14.R2', cons, 'VIOLATION', node=c, file=F)
                    ctx.violation('C14.R2', F, c, fq,
                                  'a /* */ comment is replaced by a run of blanks of the same length: the new-lines inside it disappear, so every later item moves up '
                                  'and a syntax error after the comment is reported with a line that is too small by the number of lines in the comment',
                                  stmt='multi-line comment replaced by blank fill')
                else:
                    ctx.instance('C14.R2', cons, 'ok', 'a single-line comment contains no new-line', node=c, file=F)
                    # R4: multiplier == end - start of the blanked region; the start is where the verbatim text before the comment ended
                    mult = x.right if isinstance(x.left, ast.Constant) else x.left
                    ok = isinstance(mult, ast.BinOp) and isinstance(mult.op, ast.Sub) and ast.unparse(mult.right) in verbatim_uppers \
                        and isinstance(mult.left, ast.Name)
                    ctx.instance('C14.R4', '%s blank fill length %s' % (fq, ast.unparse(mult)), 'ok' if ok else 'VIOLATION', node=c, file=F)
                    if not ok:
                        ctx.violation('C14.R4', F, c, fq, 'the blank fill of a comment is not as long as the comment (%s): columns/offsets of later items shift' % ast.unparse(mult), stmt='blank fill length')
                continue
            # a computed replacement: find the regex that decides what is kept
            pattern = None
            call = x if isinstance(x, ast.Call) else None
            if call is not None:
                r_ = regex_of(call, pre)
                if r_ is not None and r_[1] in ('sub', 'subn'):
                    pattern = r_[0]
                elif isinstance(call.func, ast.Name) and call.func.id in m.functions:
                    g = m.functions[call.func.id]
                    for cc in walk_no_nested(g):
                        r2 = regex_of(cc, g)
                        if r2 is not None and r2[1] in ('sub', 'subn'):
                            pattern = r2[0]
            if pattern is None:
                ctx.instance('C14.R2', cons, 'undecided', 'cannot establish what the replacement keeps of the comment text', nontrivial=False, node=c, file=F)
                ctx.note('C14.R2 undecided: replacement `%s`' % src)
                continue
            kind, kept = kept_by_sub(pattern)
            ok = kind == 'only' and set(kept) <= PYPARSING_WS
            ctx.instance('C14.R2', cons, 'keeps only %s' % sorted(kept) if ok else 'VIOLATION', node=c, file=F)
            if not ok:
                ctx.violation('C14.R2', F, c, fq,
                              'the replacement keeps %s of the comment text (re.sub(%r, ...)); the grammar skips only space, tab, CR and LF, so a comment containing e.g. a '
                              'form feed or a no-break space changes whether the module is accepted' % (kept if kind != 'only' else sorted(kept), pattern),
                              stmt='replacement keeps non-skippable characters')
        if n_repl < 1:
            raise AnalysisError('%s: comment replacement sites not found' % fq)
        # tiling: after each replacement the verbatim cursor is set to the end of the region; the tail is appended; the result is the join
        tail = any(isinstance(a_.args[0], ast.Subscript) and isinstance(a_.args[0].slice, ast.Slice) and a_.args[0].slice.upper is None and a_.args[0].slice.lower is not None
                   and not any(isinstance(p_, (ast.For, ast.While)) for p_ in flow.ancestors(a_)) for a_ in appends)
        joined = any(isinstance(r_, ast.Return) and r_.value is not None and isinstance(pv.expr(r_.value), ast.Call) and sem.callee_name(pv.expr(r_.value)) == 'join'
                     for r_ in walk_no_nested(pre))
        ok = n_cursor >= n_repl and tail and joined
        ctx.instance('C14.R4', '%s verbatim cursor follows every replaced region (%d of %d); tail appended; result is the concatenation' % (fq, n_cursor, n_repl), 'ok' if ok else 'VIOLATION', node=pre, file=F)
        if not ok:
            ctx.violation('C14.R4', F, pre, fq, 'the verbatim chunks no longer tile the input around the blanked regions', stmt='tiling')

    # ---- R6: /* */ comments nest (X.680 12.6.4).  A scanner that finds the end of a comment with a depth counter must count *every* opener it passes:
    #      a counter that is decremented inside the loop that looks for closers has to be incremented (or re-counted) inside that same loop.
    ctx.rule('C14.R6', 'nested /* */: the depth counter that decides where a comment ends sees every opener passed while scanning')
    if pre is not None:
        n6 = 0
        for g_ in flow.local_reach(model, pre, limit=2):
            for loop in [n for n in walk_no_nested(g_) if isinstance(n, (ast.For, ast.While))]:
                inner = [n for st in loop.body for n in ast.walk(st)]
                decs = {n.target.id for n in inner if isinstance(n, ast.AugAssign) and isinstance(n.op, ast.Sub) and isinstance(n.target, ast.Name)
                        and isinstance(n.value, ast.Constant) and n.value.value == 1}
                for v_ in sorted(decs):
                    # a counter: compared with zero somewhere in the function (== 0, > 0, != 0, truth test of a while)
                    tested = any(isinstance(n, ast.Compare) and isinstance(n.left, ast.Name) and n.left.id == v_ and isinstance(n.comparators[0], ast.Constant)
                                 and n.comparators[0].value in (0, 1) for n in walk_no_nested(g_)) or \
                        any(isinstance(n, ast.While) and isinstance(n.test, ast.Name) and n.test.id == v_ for n in walk_no_nested(g_))
                    # ... that is about comment markers: the function mentions the closer
                    about = any(isinstance(n, ast.Constant) and n.value == '*/' for n in ast.walk(g_)) or any(isinstance(n, ast.Constant) and n.value == '*/' for n in ast.walk(pre)) \
                        or any('*/' in (a_ or '') for _c, _p, ls in scanners for a_ in ls)
                    if not (tested and about):
                        continue
                    n6 += 1
                    incs = [n for n in inner if (isinstance(n, ast.AugAssign) and isinstance(n.op, ast.Add) and isinstance(n.target, ast.Name) and n.target.id == v_)
                            or (isinstance(n, ast.Assign) and any(isinstance(t_, ast.Name) and t_.id == v_ for t_ in n.targets) and v_ in names_in(n.value))]
                    ok = bool(incs)
                    ctx.instance('C14.R6', '%s: depth counter `%s` decremented in the loop at line %d, incremented there too: %s' % (Model.qual(g_), v_, loop.lineno, ok),
                                 'ok' if ok else 'VIOLATION', node=loop, file=F)
                    if not ok:
                        ctx.violation('C14.R6', F, loop, Model.qual(g_),
                                      'the loop that looks for the end of a /* */ comment only decrements `%s`: openers it passes while moving from one `*/` to the next are never '
                                      'counted, so an outer comment that holds two inner comments one after the other ends too early (the rest of the comment is parsed as ASN.1)' % v_,
                                      stmt='depth counter %s only decremented' % v_)
        if n6 == 0:
            ctx.instance('C14.R6', '%s: no depth counter found (nesting handled otherwise)' % Model.qual(pre), 'undecided', 'no counter-based scanner', nontrivial=False, node=pre, file=F)

    # ---- R3
    cg = model.func(F, 'create_grammar')
    n3 = 0
    CTORS = ('Keyword', 'Literal', 'CaselessKeyword', 'CaselessLiteral')
    # helpers (nested in create_grammar or at module level) that build a Keyword/Literal from their parameter
    wrappers = {}
    cands = [n for n in ast.walk(cg) if isinstance(n, ast.FunctionDef) and n is not cg] + list(m.functions.values())
    for g in cands:
        gp = flow.param_names(g)
        for c in ast.walk(g):
            if isinstance(c, ast.Call) and isinstance(c.func, ast.Name) and c.func.id in CTORS and c.args and isinstance(c.args[0], ast.Name) and c.args[0].id in gp:
                wrappers[g.name] = (c.func.id, gp.index(c.args[0].id))
    for c in ast.walk(cg):
        if not (isinstance(c, ast.Call) and isinstance(c.func, ast.Name) and c.args):
            continue
        if c.func.id in CTORS:
            ctor, arg = c.func.id, c.args[0]
        elif c.func.id in wrappers and len(c.args) > wrappers[c.func.id][1]:
            ctor, arg = wrappers[c.func.id][0], c.args[wrappers[c.func.id][1]]
        else:
            continue
        if isinstance(arg, ast.Constant) and isinstance(arg.value, str):
            n3 += 1
            v = arg.value
            bad = re.search(r'\S\s+\S', v) is not None
            ctx.instance('C14.R3', "%s(%r)" % (ctor, v), 'single lexical item' if not bad else 'VIOLATION', nontrivial=bad or ' ' in v, node=c, file=F)
            if bad:
                ctx.violation('C14.R3', F, c, "%s::create_grammar::%s(%r)" % (F, ctor, v),
                              'the keyword %r is matched as one literal with exactly one blank: X.680 allows any white-space, new-lines and comments between its words '
                              '(e.g. "%s" is rejected)' % (v, v.replace(' ', '\\n', 1)), stmt='%s(%r)' % (ctor, v))
    if n3 < 60:
        raise AnalysisError('C14.R3 saw only %d Keyword/Literal calls in create_grammar' % n3)

    # ---- R5
    hs = [h for n in walk_no_nested(ps) if isinstance(n, ast.Try) for h in n.handlers]
    def reads_lineno(scope, var):
        return any(isinstance(n_, ast.Attribute) and n_.attr == 'lineno' and isinstance(n_.value, ast.Name) and n_.value.id == var for n_ in ast.walk(scope))

    def handler_reports(h):
        if not h.name:
            return False
        if reads_lineno(h, h.name) and 'ParseError' in ast.unparse(h):
            return True
        # ... through a module helper that is handed the exception and builds the ParseError
        for c_ in ast.walk(h):
            if isinstance(c_, ast.Call) and isinstance(c_.func, ast.Name) and any(isinstance(a_, ast.Name) and a_.id == h.name for a_ in c_.args):
                g_ = ps._mod.resolve_name(c_.func.id)
                if isinstance(g_, ast.FunctionDef):
                    i_ = [isinstance(a_, ast.Name) and a_.id == h.name for a_ in c_.args].index(True)
                    gp_ = flow.param_names(g_)
                    if i_ < len(gp_) and reads_lineno(g_, gp_[i_]) and 'ParseError' in (ast.unparse(h) + ast.unparse(g_)):
                        return True
        return False
    ok = bool(hs) and any(handler_reports(h) for h in hs)
    ctx.instance('C14.R5', 'parse_string reports e.lineno of the exception', 'ok' if ok else 'VIOLATION', node=ps, file=F)
    if not ok:
        ctx.violation('C14.R5', F, ps, Model.qual(ps), 'the reported line is no longer the line of the parse exception', stmt='e.lineno')
    if pre is not None:
        # the pre-pass receives the caller's text itself: any other rewriting of the text before it (replacing characters,
        # normalising line ends) changes the lines and columns the grammar reports
        pps = sem.paths(ps, positional=True) or []
        pre_calls = {ev[1] for p_ in pps for ev in p_.events if ev[0] == 'call' and sem.callee_name(ev[3]) == pre.name}
        ok = bool(pre_calls) and all(t_ == '%s(ARG0)' % pre.name for t_ in pre_calls)
        ctx.instance('C14.R5', 'the comment pre-pass is given the unmodified input text (%s)' % sorted(pre_calls), 'ok' if ok else 'VIOLATION', node=ps, file=F)
        if not ok:
            ctx.violation('C14.R5', F, ps, Model.qual(ps), 'the text is rewritten before the comment pre-pass and the grammar see it (%s): line and column of a reported error no longer refer '
                          'to the original text (e.g. CR LF counted as two lines)' % sorted(pre_calls), stmt='input rewritten before parsing')
        # the pre-pass is inside the try (its own ParseSyntaxException is mapped too) and its result is what is parsed
        tr = [n for n in walk_no_nested(ps) if isinstance(n, ast.Try)]
        ok = bool(tr) and any(isinstance(c, ast.Call) and isinstance(c.func, ast.Name) and c.func.id == pre.name for s in tr[0].body for c in ast.walk(s))
        ctx.instance('C14.R5', 'the pre-pass runs inside the try that maps positions', 'ok' if ok else 'VIOLATION', node=ps, file=F)
        if not ok:
            ctx.violation('C14.R5', F, ps, Model.qual(ps), 'errors of the comment pre-pass are no longer mapped to ParseError with a position', stmt='pre-pass in try')


MUTANTS = [
    dict(name='replacement keeps all of \\s', file=F, quick=True,
         old="chunks.append(re.sub(r'[^\\n]',", new="chunks.append(re.sub(r'\\S',", expect='C14.R2'),
    dict(name='scanner no longer looks at quotation marks', file=F, quick=True,
         old="""for mo in re.finditer(r'(/\\*|\\*/|--|\\n|")', string)""", new="""for mo in re.finditer(r'(/\\*|\\*/|--|\\n)', string)""", expect='C14.R1'),
    dict(name='multi-line comment blank-filled again', file=F,
         old="""                    chunks.append(re.sub(r'[^\\n]',
                                         ' ',
                                         string[start_offset:offset]))""",
         new="""                    chunks.append(' ' * (offset - start_offset))""", expect='C14.R2'),
    dict(name='single-line fill one short', file=F, quick=True,
         old="""                if kind == '--':
                    offset += 2

                chunks.append(' ' * (offset - start_offset))""",
         new="""                if kind == '--':
                    offset += 2

                chunks.append(' ' * (offset - start_offset - 1))""", expect='C14.R4'),
    dict(name='new multi-word keyword', file=F, quick=True,
         old="    ABSENT = Keyword('ABSENT').setName('ABSENT')", new="    ABSENT = Keyword('ABSENT').setName('ABSENT')\n    TAGS_DEFAULT = Keyword('DEFAULT TAGS')", expect='C14.R3'),
    dict(name='reported line taken from elsewhere', file=F,
         old="""            e.lineno,
            e.column,""", new="""            string.count('\\n', 0, e.loc),
            e.column,""", expect='C14.R5'),
]
REFACTORS = [
    dict(name='multi-line replacement also keeps CR', file=F, quick=True,
         old="chunks.append(re.sub(r'[^\\n]',", new="chunks.append(re.sub(r'[^\\n\\r]',"),
]

MUTANTS.append(dict(name='nested comment end found by counting the openers before the first closer only', file=F,
                    old="""            if kind == '/*':
                multi_line_comment_depth += 1
            elif kind == '*/':
                multi_line_comment_depth -= 1
""", new="""            if kind == '*/':
                multi_line_comment_depth -= 1
""", expect='C14.R6'))
