"""C14 -- parsing depends only on the token sequence (lexer / grammar literal rules; DESIGN.md section 4 C14)."""
import ast
import re
import re._parser as sre_parse
import re._constants as sre_c

from ..model import AnalysisError, Model, walk_no_nested, norm_stmt, names_in
from .. import flow

EXPLANATION = (
    'Decided on asn1tools/parser.py: (R1) the comment pre-pass whose result is handed to grammar.parseString scans for the character-string '
    'delimiter: the alternation of its re.finditer pattern (parsed with re._parser) contains `"` -- a scanner that never looks at `"` cannot '
    'know that `--` inside "a--b" is not a comment; (R2) what replaces a comment keeps the line structure and adds nothing the grammar sees: a '
    'region that can contain new-lines (multi-line state) is not replaced by a pure blank fill, and a replacement computed with re.sub keeps '
    'only characters pyparsing skips (space, tab, CR, LF); (R3) no Keyword/Literal of create_grammar contains a literal blank between words '
    '(X.680 allows any white-space and comments between the words of OCTET STRING, BIT STRING, WITH COMPONENTS, ...); (R4) a single-line '
    'comment is replaced by exactly as many blanks as it is long, and the verbatim chunks tile the input; (R5) the error line reported by '
    'parse_string is taken from the exception raised on the pre-passed text.  Not decided: equality of the parse result under all re-layouts '
    '(pyparsing white-space skipping is outside /repo); error columns.')
F = 'asn1tools/parser.py'
PYPARSING_WS = set(' \t\r\n')


def regex_alternatives(pattern):
    """Literal alternatives of a regex like (/\\*|\\*/|--|\\n): list of strings (None for non-literal branches)."""
    try:
        p = sre_parse.parse(pattern)
    except Exception as e:
        raise AnalysisError('cannot parse regex %r: %s' % (pattern, e))
    out = []

    def lit(seq):
        s = ''
        for op, av in seq:
            if op == sre_c.LITERAL:
                s += chr(av)
            else:
                return None
        return s

    def walk(seq):
        for op, av in seq:
            if op == sre_c.SUBPATTERN:
                walk(av[3])
            elif op == sre_c.BRANCH:
                for alt in av[1]:
                    l = lit(alt)
                    if l is None:
                        walk(alt)
                        out.append(None)
                    else:
                        out.append(l)
            elif op == sre_c.LITERAL:
                out.append(chr(av))
            elif op == sre_c.IN:
                for o2, a2 in av:
                    if o2 == sre_c.LITERAL:
                        out.append(chr(a2))
    walk(p)
    return out


def kept_by_sub(pattern):
    """For re.sub(pattern, ' ', region): which characters survive?  Returns ('only', set) when the
    pattern replaces every character except a finite literal set, ('category', text) when what is
    kept is a character category (e.g. all of \\s), or ('unknown', '')."""
    try:
        p = sre_parse.parse(pattern)
    except Exception:
        return 'unknown', ''
    if len(p) != 1:
        return 'unknown', ''
    op, av = p[0]
    if op == sre_c.NOT_LITERAL:
        return 'only', {chr(av)}
    if op == sre_c.IN:
        items = list(av)
        if items and items[0][0] == sre_c.NEGATE:
            kept = set()
            for o2, a2 in items[1:]:
                if o2 == sre_c.LITERAL:
                    kept.add(chr(a2))
                elif o2 == sre_c.CATEGORY:
                    return 'category', str(a2)
                else:
                    return 'unknown', ''
            return 'only', kept
        # positive class: everything else is kept -> an open set
        if len(items) == 1 and items[0][0] == sre_c.CATEGORY and items[0][1] == sre_c.CATEGORY_NOT_SPACE:
            return 'category', r'\s (all Unicode white-space, incl. \x0b \x0c \xa0 ...)'
        return 'unknown', ''
    if op == sre_c.ANY:
        return 'only', {'\n'}     # '.' does not match new-line
    return 'unknown', ''


def check(ctx):
    model = ctx.model
    m = model.mod(F)
    ctx.rule('C14.R1', 'the comment pre-pass scans for the string delimiter `"`')
    ctx.rule('C14.R2', 'comment replacement preserves new-lines and introduces no character the grammar does not skip')
    ctx.rule('C14.R3', 'no Keyword/Literal in create_grammar fixes a white-space layout (blank between words)')
    ctx.rule('C14.R4', 'single-line comments are replaced by blanks of equal length; verbatim chunks tile the input')
    ctx.rule('C14.R5', 'parse_string parses the pre-passed text and reports the line of the exception')

    ps = model.func(F, 'parse_string')
    # which function produces the text handed to parseString?
    pre = None
    parse_call = None
    for n in walk_no_nested(ps):
        if isinstance(n, ast.Call) and isinstance(n.func, ast.Attribute) and n.func.attr in ('parseString', 'parse_string'):
            parse_call = n
    if parse_call is None:
        raise AnalysisError('parse_string no longer calls grammar.parseString')
    arg = parse_call.args[0]
    if isinstance(arg, ast.Name):
        binds = [a for a in walk_no_nested(ps) if isinstance(a, ast.Assign) and arg.id in [x for t in a.targets for x in flow.target_names(t)]]
        calls = [a.value for a in binds if isinstance(a.value, ast.Call) and isinstance(a.value.func, ast.Name)]
        if calls:
            pre = m.functions.get(calls[-1].func.id)
    elif isinstance(arg, ast.Call) and isinstance(arg.func, ast.Name):
        pre = m.functions.get(arg.func.id)
    uses_ignore = any(isinstance(c, ast.Call) and isinstance(c.func, ast.Attribute) and c.func.attr == 'ignore' for f in m.functions.values() for c in walk_no_nested(f))
    if pre is None:
        if uses_ignore:
            ctx.instance('C14.R1', 'comments handled by grammar.ignore()', 'alternative accepted', node=ps, file=F)
            ctx.instance('C14.R2', 'comments handled by grammar.ignore()', 'alternative accepted', node=ps, file=F)
        else:
            raise AnalysisError('cannot find the comment pre-pass of parse_string')
    else:
        fq = Model.qual(pre)
        # ---- R1
        pats = [c for c in walk_no_nested(pre) if isinstance(c, ast.Call) and ast.unparse(c.func) in ('re.finditer', 're.compile', 're.split', 're.findall', 're.search', 're.match')
                and c.args and isinstance(c.args[0], ast.Constant) and isinstance(c.args[0].value, str)]
        if not pats:
            raise AnalysisError('%s: scanner regex not found' % fq)
        alts = []
        for c in pats:
            alts.extend(regex_alternatives(c.args[0].value))
        lits = [a for a in alts if a]
        has_comment_tokens = '--' in lits and '/*' in lits
        if not has_comment_tokens:
            raise AnalysisError('%s: scanner regex %r does not look like the comment scanner' % (fq, pats[0].args[0].value))
        ok = any('"' in a for a in lits)
        ctx.instance('C14.R1', '%s scanner alternatives %s' % (fq, sorted(set(lits))), 'ok' if ok else 'VIOLATION', node=pats[0], file=F)
        if not ok:
            ctx.violation('C14.R1', F, pats[0], fq,
                          'the comment scanner looks for %s but never for the string delimiter `"`: text inside a character-string literal such as "a--b" '
                          'is treated as a comment and blanked (the literal is corrupted or the module rejected)' % sorted(set(lits)), stmt='scanner ignores string literals')
        # ---- R2 / R4: classify every chunks.append(X)
        appends = [c for c in walk_no_nested(pre) if isinstance(c, ast.Call) and isinstance(c.func, ast.Attribute) and c.func.attr == 'append' and c.args]
        n_repl = 0
        for c in appends:
            x = c.args[0]
            src = ast.unparse(x)
            guards = ' && '.join(ast.unparse(t) for t, pol in flow.guards_of(c, pre))
            multi = 'multi_line' in guards or 'depth' in guards
            single = 'single_line' in guards
            if isinstance(x, ast.Subscript):
                ctx.instance('C14.R4', '%s verbatim chunk %s' % (fq, src), 'ok', nontrivial=False, node=c, file=F)
                continue
            if isinstance(x, ast.Tuple):
                continue      # (offset, kind) records of the scanner
            n_repl += 1
            cons = '%s replacement `%s` [%s]' % (fq, src, 'multi-line comment' if multi else 'single-line comment' if single else 'other')
            if isinstance(x, ast.BinOp) and isinstance(x.op, ast.Mult) and any(isinstance(s_, ast.Constant) and s_.value == ' ' for s_ in (x.left, x.right)):
                # pure blank fill
                if multi:
                    ctx.instance('C14.R2', cons, 'VIOLATION', node=c, file=F)
                    ctx.violation('C14.R2', F, c, fq,
                                  'a /* */ comment is replaced by a run of blanks of the same length: the new-lines inside it disappear, so every later item moves up '
                                  'and a syntax error after the comment is reported with a line that is too small by the number of lines in the comment',
                                  stmt='multi-line comment replaced by blank fill')
                else:
                    ctx.instance('C14.R2', cons, 'ok', 'a single-line comment contains no new-line', node=c, file=F)
                    # R4: multiplier == end - start of the blanked region
                    mult = x.right if isinstance(x.left, ast.Constant) else x.left
                    ok = isinstance(mult, ast.BinOp) and isinstance(mult.op, ast.Sub) and ast.unparse(mult.right) == 'start_offset'
                    ctx.instance('C14.R4', '%s blank fill length %s' % (fq, ast.unparse(mult)), 'ok' if ok else 'VIOLATION', node=c, file=F)
                    if not ok:
                        ctx.violation('C14.R4', F, c, fq, 'the blank fill of a comment is not as long as the comment (%s): columns/offsets of later items shift' % ast.unparse(mult), stmt='blank fill length')
                continue
            # a computed replacement: find the regex that decides what is kept
            pattern = None
            call = x if isinstance(x, ast.Call) else None
            if call is not None and ast.unparse(call.func) == 're.sub':
                pattern = call.args[0].value if isinstance(call.args[0], ast.Constant) else None
            elif call is not None and isinstance(call.func, ast.Name) and call.func.id in m.functions:
                g = m.functions[call.func.id]
                for cc in walk_no_nested(g):
                    if isinstance(cc, ast.Call) and ast.unparse(cc.func) == 're.sub' and isinstance(cc.args[0], ast.Constant):
                        pattern = cc.args[0].value
            if pattern is None:
                ctx.instance('C14.R2', cons, 'VIOLATION', node=c, file=F)
                ctx.violation('C14.R2', F, c, fq, 'cannot establish what the replacement `%s` keeps of the comment text' % src, stmt='unknown replacement')
                continue
            kind, kept = kept_by_sub(pattern)
            ok = kind == 'only' and set(kept) <= PYPARSING_WS
            ctx.instance('C14.R2', cons, 'keeps only %s' % sorted(kept) if ok else 'VIOLATION', node=c, file=F)
            if not ok:
                ctx.violation('C14.R2', F, c, fq,
                              'the replacement keeps %s of the comment text (re.sub(%r, ...)); the grammar skips only space, tab, CR and LF, so a comment containing e.g. a '
                              'form feed or a no-break space changes whether the module is accepted' % (kept if kind != 'only' else sorted(kept), pattern),
                              stmt='replacement keeps non-skippable characters')
        if n_repl < 2:
            raise AnalysisError('%s: comment replacement sites not found' % fq)
        # tiling: after each replacement the verbatim cursor is set to the end of the region
        src = ast.unparse(pre)
        ok = src.count('non_comment_offset = offset') >= 2 and 'chunks.append(string[non_comment_offset:])' in src and "''.join(chunks)" in src
        ctx.instance('C14.R4', '%s verbatim cursor follows every replaced region; result is the concatenation' % fq, 'ok' if ok else 'VIOLATION', node=pre, file=F)
        if not ok:
            ctx.violation('C14.R4', F, pre, fq, 'the verbatim chunks no longer tile the input around the blanked regions', stmt='tiling')

    # ---- R3
    cg = model.func(F, 'create_grammar')
    n3 = 0
    for c in walk_no_nested(cg):
        if isinstance(c, ast.Call) and isinstance(c.func, ast.Name) and c.func.id in ('Keyword', 'Literal', 'CaselessKeyword', 'CaselessLiteral') \
                and c.args and isinstance(c.args[0], ast.Constant) and isinstance(c.args[0].value, str):
            n3 += 1
            v = c.args[0].value
            bad = re.search(r'\S\s+\S', v) is not None
            ctx.instance('C14.R3', "%s(%r)" % (c.func.id, v), 'single lexical item' if not bad else 'VIOLATION', nontrivial=bad or ' ' in v, node=c, file=F)
            if bad:
                ctx.violation('C14.R3', F, c, "%s::create_grammar::%s(%r)" % (F, c.func.id, v),
                              'the keyword %r is matched as one literal with exactly one blank: X.680 allows any white-space, new-lines and comments between its words '
                              '(e.g. "%s" is rejected)' % (v, v.replace(' ', '\\n', 1)), stmt='%s(%r)' % (c.func.id, v))
    if n3 < 60:
        raise AnalysisError('C14.R3 saw only %d Keyword/Literal calls in create_grammar' % n3)

    # ---- R5
    hs = [h for n in walk_no_nested(ps) if isinstance(n, ast.Try) for h in n.handlers]
    ok = bool(hs) and any('e.lineno' in ast.unparse(h) and 'ParseError' in ast.unparse(h) for h in hs)
    ctx.instance('C14.R5', 'parse_string reports e.lineno of the exception', 'ok' if ok else 'VIOLATION', node=ps, file=F)
    if not ok:
        ctx.violation('C14.R5', F, ps, Model.qual(ps), 'the reported line is no longer the line of the parse exception', stmt='e.lineno')
    if pre is not None:
        # the pre-pass is inside the try (its own ParseSyntaxException is mapped too) and its result is what is parsed
        tr = [n for n in walk_no_nested(ps) if isinstance(n, ast.Try)]
        ok = bool(tr) and any(isinstance(c, ast.Call) and isinstance(c.func, ast.Name) and c.func.id == pre.name for s in tr[0].body for c in ast.walk(s))
        ctx.instance('C14.R5', 'the pre-pass runs inside the try that maps positions', 'ok' if ok else 'VIOLATION', node=ps, file=F)
        if not ok:
            ctx.violation('C14.R5', F, ps, Model.qual(ps), 'errors of the comment pre-pass are no longer mapped to ParseError with a position', stmt='pre-pass in try')


MUTANTS = [
    dict(name='replacement keeps all of \\s', file=F, quick=True,
         old="chunks.append(re.sub(r'[^\\n]',", new="chunks.append(re.sub(r'\\S',", expect='C14.R2'),
    dict(name='scanner no longer looks at quotation marks', file=F, quick=True,
         old="""for mo in re.finditer(r'(/\\*|\\*/|--|\\n|")', string)""", new="""for mo in re.finditer(r'(/\\*|\\*/|--|\\n)', string)""", expect='C14.R1'),
    dict(name='multi-line comment blank-filled again', file=F,
         old="""                    chunks.append(re.sub(r'[^\\n]',
                                         ' ',
                                         string[start_offset:offset]))""",
         new="""                    chunks.append(' ' * (offset - start_offset))""", expect='C14.R2'),
    dict(name='single-line fill one short', file=F, quick=True,
         old="""                if kind == '--':
                    offset += 2

                chunks.append(' ' * (offset - start_offset))""",
         new="""                if kind == '--':
                    offset += 2

                chunks.append(' ' * (offset - start_offset - 1))""", expect='C14.R4'),
    dict(name='new multi-word keyword', file=F, quick=True,
         old="    ABSENT = Keyword('ABSENT').setName('ABSENT')", new="    ABSENT = Keyword('ABSENT').setName('ABSENT')\n    TAGS_DEFAULT = Keyword('DEFAULT TAGS')", expect='C14.R3'),
    dict(name='reported line taken from elsewhere', file=F,
         old="""            e.lineno,
            e.column,""", new="""            string.count('\\n', 0, e.loc),
            e.column,""", expect='C14.R5'),
]
REFACTORS = [
    dict(name='multi-line replacement also keeps CR', file=F, quick=True,
         old="chunks.append(re.sub(r'[^\\n]',", new="chunks.append(re.sub(r'[^\\n\\r]',"),
]
