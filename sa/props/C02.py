"""C02 -- JER/XER round-trip and well-formedness (structural clauses; DESIGN.md section 4 C02)."""
import ast

from ..model import AnalysisError, Model, walk_no_nested, norm_stmt, names_in, resolved_constants, unparse_x, expand_consts
from .. import flow, siblings, dispatch, sem, deleg

EXPLANATION = (
    'Decided on codecs/jer.py and codecs/xer.py: (R1) every type class that defines encode defines decode, and every XER class that overrides '
    'encode_of overrides decode_of; every dispatch cell resolves both; (R2) writer/reader literals agree: the keys of dict literals built by a JER '
    'encode equal the string subscripts read by its decode; the element names XER Boolean creates equal the ones it tests; each special REAL '
    'spelling the JER encoder returns is a key of the decoder table and maps back to the value under which the encoder emits it; (R3) REAL text is '
    'produced from the unmodified float: no arithmetic on the float between the parameter and the formatting sink, no exponent marker appended to a '
    '`{}`-formatted float, and the three special values are tested before any loop or formatting; (R4) indentation does not touch values: '
    'indent_xml assigns .text only on elements that have children and JER indentation is delegated to json.dumps; (R5) member presence is '
    'membership in the value; (R6) pass-through shortcuts cover identity conversions only; (R7) delegation mirror: under every configuration '
    'assignment each set of child methods a decode / decode_of path hands the element to is the mirror of a set the encode / encode_of paths hand the value '
    'to (a document-dependent choice between two child protocols for the same encoder output is reported).  Not decided: that the document is valid JSON/XML for all strings (escaping is delegated to json/ElementTree); '
    'value equality after decode.')
JER = 'asn1tools/codecs/jer.py'
XER = 'asn1tools/codecs/xer.py'
SKIP = ('Compiler', 'CompiledType')


def str_subscripts(f, base):
    return {n.slice.value for n in walk_no_nested(f) if isinstance(n, ast.Subscript) and isinstance(n.slice, ast.Constant) and isinstance(n.slice.value, str)
            and isinstance(n.value, ast.Name) and n.value.id == base}


def float_param_aliases(f):
    """Names that hold the float being encoded: the data parameter and locals bound to it / float(it)."""
    ps = flow.param_names(f)
    if ps and ps[0] in ('self', 'cls'):
        ps = ps[1:]
    if not ps:
        return set()
    al = {ps[0]}
    changed = True
    while changed:
        changed = False
        for a in walk_no_nested(f):
            if isinstance(a, ast.Assign) and isinstance(a.targets[0], ast.Name):
                v = a.value
                src = None
                if isinstance(v, ast.Name):
                    src = v.id
                elif isinstance(v, ast.Call) and isinstance(v.func, ast.Name) and v.func.id in ('float', 'abs') and v.args and isinstance(v.args[0], ast.Name):
                    src = v.args[0].id
                if src in al and a.targets[0].id not in al:
                    al.add(a.targets[0].id)
                    changed = True
    return al


def check(ctx):
    model = ctx.model
    ctx.rule('C02.R1', 'encode/decode (and encode_of/decode_of) pairing of every JER/XER class; dispatch cells resolve both')
    ctx.rule('C02.R2', 'writer/reader literal agreement (JER dict keys, XER element names, REAL special spellings and their inverse)')
    ctx.rule('C02.R3', 'REAL text from the unmodified float: no float arithmetic, no appended exponent, special values first')
    ctx.rule('C02.R4', 'indentation never touches values')
    ctx.rule('C02.R5', 'member presence is membership, not value')

    # ---- R1
    n1 = 0
    for rel in (JER, XER):
        m = model.mod(rel)
        for c in m.classes.values():
            if c.name in SKIP:
                continue
            own = set(c.methods)
            if 'encode' in own or 'decode' in own:
                n1 += 1
                ok = ('decode' in own) or ('encode' not in own)      # an override of encode needs its mirror image
                if not ok:
                    # ... unless the inherited decode is a template the class parametrises: it reads class-level attributes (self.FORMAT, self.FACTORY)
                    # that this class defines in its own body
                    inh = c.find_method('decode')
                    if inh is not None:
                        reads = {n_.attr for n_ in walk_no_nested(inh[1]) if isinstance(n_, ast.Attribute) and isinstance(n_.value, ast.Name) and n_.value.id == 'self'}
                        if reads & set(c.attrs):
                            ok = True
                ctx.instance('C02.R1', '%s defines encode and decode' % c.qname, 'paired' if ok else 'VIOLATION', node=c.node, file=rel)
                if not ok:
                    ctx.violation('C02.R1', rel, c.node, '%s::%s' % (rel, c.name), 'class %s defines %s but not its partner: the override and the inherited partner no longer mirror each other'
                                  % (c.name, 'encode' if 'encode' in own else 'decode'), stmt='encode/decode pairing')
            if 'encode_of' in own or 'decode_of' in own:
                n1 += 1
                ok = ('decode_of' in own) or ('encode_of' not in own)
                ctx.instance('C02.R1', '%s defines encode_of and decode_of' % c.qname, 'paired' if ok else 'VIOLATION', node=c.node, file=rel)
                if not ok:
                    ctx.violation('C02.R1', rel, c.node, '%s::%s' % (rel, c.name), 'class %s overrides %s but not its partner: list elements are written in one form and read in another'
                                  % (c.name, 'encode_of' if 'encode_of' in own else 'decode_of'), stmt='encode_of/decode_of pairing')
    for codec in ('jer', 'xer'):
        tab = dispatch.table(model, codec)
        for name, cell in sorted(tab.cells.items()):
            if cell.cls is None or name in ('ANY', 'ANY DEFINED BY', 'EXTERNAL'):
                continue
            n1 += 1
            bad = [mn for mn in ('encode', 'decode') if cell.cls.find_method(mn) is None or _abstract(cell.cls.find_method(mn)[1])]
            ctx.instance('C02.R1', "%s['%s'] -> %s" % (codec, name, cell.cls.qname), 'ok' if not bad else 'VIOLATION', node=cell.ctor, file=tab.rel)
            if bad:
                ctx.violation('C02.R1', tab.rel, cell.ctor, "%s::Compiler dispatch['%s']" % (tab.rel, name), '%s has no real %s' % (cell.cls.qname, ','.join(bad)), stmt='abstract ' + ','.join(bad))
    if n1 < 70:
        raise AnalysisError('C02.R1 saw only %d pairings' % n1)

    # ---- R2 JER dict keys
    jer = model.mod(JER)
    n2 = 0
    for c in jer.classes.values():
        enc, dec = c.methods.get('encode'), c.methods.get('decode')
        if not enc or not dec:
            continue
        keys = set()
        returned = {r_.value.id for r_ in walk_no_nested(enc) if isinstance(r_, ast.Return) and isinstance(r_.value, ast.Name)}
        for n in walk_no_nested(enc):
            if isinstance(n, ast.Dict):
                # the JSON object this encoder returns: the returned display, or the display bound to the returned local
                par = getattr(n, '_parent', None)
                is_result = isinstance(par, ast.Return) or (isinstance(par, ast.Assign) and any(isinstance(t_, ast.Name) and t_.id in returned for t_ in par.targets))
                if not is_result:
                    continue
                for k in n.keys:
                    if isinstance(k, ast.Constant) and isinstance(k.value, str):
                        keys.add(k.value)
        if not keys:
            continue
        dparam = flow.param_names(dec)[1]
        read = str_subscripts(dec, dparam)
        n2 += 1
        ok = keys == read
        ctx.instance('C02.R2', '%s writes keys %s, reads %s' % (c.qname, sorted(keys), sorted(read)), 'agree' if ok else 'VIOLATION', node=enc, file=JER)
        if not ok:
            ctx.violation('C02.R2', JER, enc, '%s::%s' % (JER, c.name), 'encode builds a JSON object with keys %s but decode reads %s' % (sorted(keys), sorted(read)), stmt='dict keys')
    # XER Boolean element names
    xb = model.cls(XER, 'Boolean')
    written = set()
    tested = set()

    def with_helpers(names):
        fs = [xb.methods[mn] for mn in names if mn in xb.methods]
        seen = list(fs)
        for f_ in fs:
            for c_ in walk_no_nested(f_):
                if isinstance(c_, ast.Call) and isinstance(c_.func, ast.Attribute) and isinstance(c_.func.value, ast.Name) and c_.func.value.id in ('self', 'Boolean', 'cls'):
                    r_ = xb.find_method(c_.func.attr)
                    if r_ and r_[1] not in seen and r_[1].name not in ('encode', 'decode', 'encode_of', 'decode_of'):
                        seen.append(r_[1])
                elif isinstance(c_, ast.Call) and isinstance(c_.func, ast.Name):
                    r_ = xb.mod.resolve_name(c_.func.id)
                    if isinstance(r_, ast.FunctionDef) and r_ not in seen:
                        seen.append(r_)
        return seen
    NAMES = ('true', 'false', 'TRUE', 'FALSE', 'True', 'False')
    for f_ in with_helpers(('encode', 'encode_of')):
        for n in resolved_constants(f_):
            if isinstance(n.value, str) and n.value in NAMES:
                written.add(n.value)
    for f_ in with_helpers(('decode', 'decode_of')):
        for n in resolved_constants(f_):
            if isinstance(n.value, str) and n.value in NAMES:
                tested.add(n.value)
    n2 += 1
    ok = written == {'true', 'false'} and tested <= written and 'true' in tested
    ctx.instance('C02.R2', 'xer.Boolean writes %s, tests %s' % (sorted(written), sorted(tested)), 'agree' if ok else 'VIOLATION', node=xb.node, file=XER)
    if not ok:
        ctx.violation('C02.R2', XER, xb.node, '%s::Boolean' % XER, 'BOOLEAN element names written %s and tested %s differ (X.693: <true/> <false/>)' % (sorted(written), sorted(tested)), stmt='boolean names')
    # JER REAL special spellings and their inverse
    jr = model.cls(JER, 'Real')
    enc, dec = flow.unwrap_delegate(jr.methods['encode']), flow.unwrap_delegate(jr.methods['decode'])
    table = None
    dicts = [n for n in walk_no_nested(dec) if isinstance(n, ast.Dict)]
    for n in walk_no_nested(dec):                       # ... or a class-level / module-level table the decoder indexes
        if isinstance(n, ast.Subscript) or (isinstance(n, ast.Call) and isinstance(n.func, ast.Attribute) and n.func.attr == 'get'):
            base = n.value if isinstance(n, ast.Subscript) else n.func.value
            tv = None
            if isinstance(base, ast.Attribute) and isinstance(base.value, ast.Name) and base.value.id in ('self', 'cls', jr.name):
                tv = next((k.attrs[base.attr] for k in jr.mro() if base.attr in k.attrs), None)
            elif isinstance(base, ast.Name):
                r_ = jr.mod.resolve_name(base.id)
                tv = r_[1] if isinstance(r_, tuple) and r_[0] == 'const' else None
            if isinstance(tv, ast.Dict):
                dicts.append(tv)
    for n in dicts:
        table = {k.value: unparse_x(v, dec) for k, v in zip(n.keys, n.values) if isinstance(k, ast.Constant)}
    if table is None:
        raise AnalysisError('jer.Real.decode: special value table not found')
    dparam = [p_ for p_ in flow.param_names(enc) if p_ != 'self'][0]
    eps = sem.paths(enc) or []
    seen_sp = set()
    for p in eps:
        if p.outcome[0] != 'return' or not (isinstance(p.outcome[3], ast.Constant) and isinstance(p.outcome[3].value, str)):
            continue
        sp = p.outcome[3].value
        if sp in seen_sp:
            continue
        seen_sp.add(sp)
        want = None
        shown = '?'
        for c in reversed(p.conds):
            if not c[1] or len(c) < 6:
                continue
            e = c[4]
            shown = ast.unparse(e)
            if isinstance(e, ast.Compare) and len(e.ops) == 1 and isinstance(e.ops[0], ast.Eq):
                l, r = e.left, e.comparators[0]
                if isinstance(l, ast.Name) and l.id == dparam:
                    want = unparse_x(r, enc)
                elif isinstance(r, ast.Name) and r.id == dparam:
                    want = unparse_x(l, enc)
            elif isinstance(e, ast.Call) and ast.unparse(e.func) in ('math.isnan', 'isnan') and e.args and ast.unparse(e.args[0]) == dparam:
                want = "float('nan')"
            break
        n2 += 1
        ok = sp in table and want is not None and table[sp] == want
        ctx.instance('C02.R2', 'jer.Real %r: encoder guard value %s, decoder maps to %s' % (sp, want, table.get(sp)), 'inverse' if ok else 'VIOLATION', node=p.outcome[2], file=JER)
        if not ok:
            ctx.violation('C02.R2', JER, p.outcome[2], '%s::Real.encode' % JER,
                          'the encoder returns the special spelling %r under `%s`; the decoder maps %r to %s -- not the value it was emitted for%s, so that REAL does not round-trip'
                          % (sp, shown, sp, table.get(sp, '<missing key>'), '' if want else ' (guard is not of the form `data == <value>`)'),
                          stmt='special spelling %r' % sp)
    if n2 < 5:
        raise AnalysisError('C02.R2 saw only %d literal agreements' % n2)

    # ---- R3 (over Real.encode and the methods / functions it delegates to)
    from .. import defaults
    SPECIALS = ("float('inf')", "float('-inf')", 'isnan(')

    cur_mod = [None]

    def ctext(c):
        """text of a path condition with module constants (PLUS_INFINITY = float('inf')) written out"""
        if len(c) > 4 and isinstance(c[4], ast.AST) and cur_mod[0] is not None:
            return ast.unparse(expand_consts(c[4], cur_mod[0]))
        return c[0]

    def excluded(conds):
        """the three special values have been tested and excluded by these conditions"""
        return all(any(sp in ctext(c) and not c[1] for c in conds) for sp in SPECIALS)

    def is_template_format(call):
        return isinstance(call, ast.Call) and isinstance(call.func, ast.Attribute) and call.func.attr == 'format' and isinstance(call.func.value, ast.Constant)
    for rel in (JER, XER):
        c = model.cls(rel, 'Real')
        cur_mod[0] = c.mod
        f = c.find_method('encode')[1]
        fam = [g_ for g_ in flow.local_reach(model, f, limit=3) if g_._mod.rel == rel]
        short = model.mod(rel).short
        # a) arithmetic on the float
        bad = []
        for g_ in fam:
            al = float_param_aliases(g_)
            for n in walk_no_nested(g_):
                if isinstance(n, ast.AugAssign) and isinstance(n.target, ast.Name) and n.target.id in al and isinstance(n.op, (ast.Div, ast.Mult, ast.Add, ast.Sub, ast.FloorDiv, ast.Pow, ast.Mod)):
                    bad.append(n)
                if isinstance(n, ast.BinOp) and isinstance(n.op, (ast.Div, ast.Mult, ast.Add, ast.Sub, ast.FloorDiv, ast.Pow, ast.Mod)):
                    for side in (n.left, n.right):
                        if isinstance(side, ast.Name) and side.id in al:
                            bad.append(n)
        ctx.instance('C02.R3', '%s.Real.encode: no arithmetic on the float (%d functions)' % (short, len(fam)), 'ok' if not bad else 'VIOLATION', node=f, file=rel)
        for n in bad[:1]:
            ctx.violation('C02.R3', rel, n, '%s::Real.encode' % rel,
                          'the float is scaled with binary floating-point arithmetic (%s) before being formatted: powers of ten are inexact, so the text no longer identifies the '
                          'same double (123456789.12345679 does not round-trip)' % norm_stmt(Model.enclosing_stmt(n)), stmt='float arithmetic before formatting')
        # a') rounding: a precision-limited format or round() before the text is produced
        lossy = [(g_, n_, what_) for g_ in fam for n_, what_ in siblings.lossy_float_ops(g_, float_param_aliases(g_))]
        ctx.instance('C02.R3', '%s.Real.encode: the float is not rounded before it is formatted' % short, 'ok' if not lossy else 'VIOLATION', node=f, file=rel)
        for g_, n_, what_ in lossy[:1]:
            ctx.violation('C02.R3', rel, n_, '%s::Real.encode' % rel,
                          'the float goes through %s before the text is produced: fewer than 17 significant digits do not identify a double, so neighbouring values share one text and the '
                          'decoded value differs from the encoded one' % what_, stmt='float rounded before formatting')
        # b) exponent appended to a raw float
        for g_ in fam:
            al = float_param_aliases(g_)
            for n in walk_no_nested(g_):
                if is_template_format(n) and isinstance(n.func.value.value, str):
                    t = n.func.value.value
                    if '{}E' in t or '{}e' in t:
                        raw = n.args and isinstance(n.args[0], ast.Name) and n.args[0].id in al
                        ctx.instance('C02.R3', '%s.Real.encode template %r' % (short, t), 'ok' if not raw else 'VIOLATION', node=n, file=rel)
                        if raw:
                            ctx.violation('C02.R3', rel, n, '%s::Real.encode' % rel,
                                          'the template %r appends an exponent to the `{}`-formatted float, whose text may already carry one (5e-324 -> 5e-324E0, which cannot be decoded)' % t,
                                          stmt='template %r on raw float' % t)
        # c) special values first: every loop / template formatting runs only after the three special values were excluded -- in the function
        #    itself, or at every place the function is called from
        allp = {}
        for g_ in fam:
            ps_ = sem.paths(g_)
            allp[g_] = None if ps_ is None else sem.with_loop_bodies(ps_)

        def context_ok(g_, seen=()):
            if g_ is f or g_ in seen:
                return False
            sites = 0
            for h_, ps_ in allp.items():
                if ps_ is None or h_ is g_:
                    continue
                for p_, conds_, node_, _sx in defaults.call_events(ps_):
                    nm_ = sem.callee_name(node_)
                    if nm_ == g_.name and (isinstance(node_.func, ast.Name) or (isinstance(node_.func, ast.Attribute) and isinstance(node_.func.value, ast.Name)
                                                                                  and node_.func.value.id in ('self', 'cls', c.name))):
                        sites += 1
                        if not (excluded(conds_) or context_ok(h_, seen + (g_,))):
                            return False
            return sites > 0
        undecided_c = [g_ for g_, ps_ in allp.items() if ps_ is None]
        first_bad = None
        n_proc = 0
        for g_, ps_ in allp.items():
            if ps_ is None:
                continue
            for p_ in ps_:
                at = None
                n_ = 0
                for ev in p_.events:
                    if ev[0] == 'stmt':
                        n_ = ev[1]
                    if ev[0] == 'loop' or (ev[0] == 'call' and len(ev) > 3 and is_template_format(ev[2])):
                        at = p_.conds[:n_] if ev[0] == 'call' else p_.conds
                        break
                if at is None and p_.outcome[0] == 'return' and len(p_.outcome) > 3 and any(is_template_format(x_) for x_ in ast.walk(p_.outcome[3])):
                    at = p_.conds
                if at is None:
                    continue
                n_proc += 1
                if not excluded(at) and not context_ok(g_):
                    first_bad = first_bad or (g_, [sp for sp in SPECIALS if not any(sp in ctext(c_) and not c_[1] for c_ in at)])
        verdict = 'VIOLATION' if first_bad else ('undecided' if undecided_c else ('ok' if n_proc else 'n/a'))
        ctx.instance('C02.R3', '%s.Real.encode excludes inf / -inf / nan before any loop or formatting (%d processing paths)' % (short, n_proc), verdict,
                     'too many paths in %s' % undecided_c[0].name if undecided_c else ('' if n_proc else 'the float is not scaled or formatted with a template'),
                     nontrivial=n_proc > 0, node=f, file=rel)
        if first_bad:
            g_, missing = first_bad
            for sp in missing:
                ctx.violation('C02.R3', rel, g_, '%s::Real.encode' % rel,
                              'the special value %s) is not handled before the float is processed (the sibling REAL encoders of ber/jer/gser all test it first): infinities '
                              'never leave a scaling loop or are formatted as "inf"' % sp, stmt='special value %s' % sp)

    # ---- R4
    ix = model.func(XER, 'indent_xml')

    def mod_resolver(mod):
        def resolve(call):
            if isinstance(call.func, ast.Name):
                r_ = mod.resolve_name(call.func.id)
                return r_ if isinstance(r_, ast.FunctionDef) else None
            return None
        return resolve
    ps = sem.paths(ix, resolver=mod_resolver(model.mod(XER)))
    bad = []
    ntext = 0
    if ps is None:
        ctx.instance('C02.R4', 'indent_xml sets .text only on blank text of elements with children', 'undecided', 'too many paths', nontrivial=False, node=ix, file=XER)
    else:
        for p in sem.with_loop_bodies(ps):
            for ev in p.events:
                if ev[0] == 'store' and len(ev) > 4 and ev[1].split(' = ')[0].endswith('.text'):
                    ntext += 1
                    owner = ev[1].split(' = ')[0][:-len('.text')]
                    before = [(c[0], c[1]) for c in p.conds[:ev[4]]]
                    has_children = (owner, True) in before
                    blank = any(t.startswith(owner + '.text') and not pol for t, pol in before)
                    if not (has_children and blank) and ev[2] not in bad:
                        bad.append(ev[2])
        ctx.instance('C02.R4', 'indent_xml sets .text only on blank text of elements with children (%d assignments on the paths)' % ntext, 'ok' if not bad and ntext else ('VIOLATION' if bad else 'undecided'),
                     nontrivial=ntext > 0, node=ix, file=XER)
        for n in bad:
            ctx.violation('C02.R4', XER, n, Model.qual(ix), 'indentation overwrites the text of a leaf element (a value) or non-blank text', stmt='indent text')
    je = model.func(JER, 'CompiledType.encode')
    jv = sem.View(je)
    dumps = [c for c in sem.method_calls(je, 'dumps', jv) if c.args]
    objs = {jv.text(c.args[0]) for c in dumps}
    def passes_indent(c_):
        for k in c_.keywords:
            if k.arg == 'indent':
                return True
            if k.arg is None and isinstance(k.value, ast.Name):
                # **options, where options is bound to a display with an 'indent' key somewhere in the function
                for a_ in walk_no_nested(je):
                    if isinstance(a_, ast.Assign) and any(isinstance(t_, ast.Name) and t_.id == k.value.id for t_ in a_.targets) and isinstance(a_.value, ast.Dict) \
                            and any(isinstance(kk, ast.Constant) and kk.value == 'indent' for kk in a_.value.keys):
                        return True
        return False
    ok = len(dumps) >= 1 and len(objs) == 1 and any(passes_indent(c) for c in dumps)
    ctx.instance('C02.R4', 'JER indentation is json.dumps(indent=...) of the same object', 'ok' if ok else 'VIOLATION', node=je, file=JER)
    if not ok:
        ctx.violation('C02.R4', JER, je, Model.qual(je), 'the indented and the compact JER outputs are no longer json.dumps of the same object', stmt='json indent')
    xd = model.func(XER, 'CompiledType.encode')
    xps = sem.paths(xd) or []
    with_ = [p for p in xps if p.calls('indent_xml')]
    ok = bool(with_) and all(p.has('indent is None', False) for p in with_) and any(not p.calls('indent_xml') and p.outcome[0] == 'return' for p in xps)
    ctx.instance('C02.R4', 'XER indentation is applied to the finished tree only when requested', 'ok' if ok else 'VIOLATION', node=xd, file=XER)
    if not ok:
        ctx.violation('C02.R4', XER, xd, Model.qual(xd), 'indent_xml is no longer applied conditionally to the finished element tree', stmt='xml indent')

    # the other half: indentation writes white-space into the .text of every element that has children.  A class whose encoder gives its element children therefore never
    # reads that element's .text when decoding -- with indentation on it is the indentation, not a value.
    n4 = 0
    for c in model.mod(XER).classes.values():
        for en, dn in (('encode', 'decode'),):
            er, dr = c.find_method(en), c.find_method(dn)
            if not er or not dr or (er[1]._cls is not c and dr[1]._cls is not c):
                continue
            # does the encoder append children to the element it returns?
            returned = {r_.value.id for r_ in walk_no_nested(er[1]) if isinstance(r_, ast.Return) and isinstance(r_.value, ast.Name)}
            gives_children = any(isinstance(x_, ast.Call) and isinstance(x_.func, ast.Attribute) and x_.func.attr in ('append', 'extend', 'insert') and isinstance(x_.func.value, ast.Name)
                                 and x_.func.value.id in returned for x_ in walk_no_nested(er[1])) or \
                any(isinstance(x_, ast.Call) and ast.unparse(x_.func).endswith('SubElement') and x_.args and isinstance(x_.args[0], ast.Name) and x_.args[0].id in returned
                    for x_ in walk_no_nested(er[1]))
            if not gives_children:
                continue
            n4 += 1
            ep = [p_ for p_ in flow.param_names(dr[1]) if p_ != 'self'][:1]
            reads = [x_ for x_ in walk_no_nested(dr[1]) if isinstance(x_, ast.Attribute) and x_.attr == 'text' and isinstance(x_.ctx, ast.Load) and isinstance(x_.value, ast.Name)
                     and x_.value.id in ep]
            ctx.instance('C02.R4', '%s gives its element children; decode does not read the element\'s own text' % c.qname, 'ok' if not reads else 'VIOLATION', node=dr[1], file=XER)
            for x_ in reads[:1]:
                ctx.violation('C02.R4', XER, x_, Model.qual(dr[1]),
                              '%s.encode appends child elements to its element and %s reads `%s`: indent_xml() stores the indentation white-space in the text of every element that has '
                              'children, so with indentation on the decoder sees "\\n    " where it expects a value -- the indented document does not decode to what was encoded'
                              % (c.name, Model.qual(dr[1]).split('::')[-1], ast.unparse(x_)), stmt='text of an element with children')
    if n4 < 3:
        raise AnalysisError('C02.R4 found only %d XER classes whose encoder appends children' % n4)

    # ---- R8: XER element names are XML names.  Member names are identifiers, but an unnamed SEQUENCE OF / SET OF element is named after its *type*, and type names have
    #      spaces (OCTET STRING, BIT STRING, SEQUENCE OF): every name that derives from a `['type']` entry passes through the space sanitiser -- centrally in the
    #      constructor of the XER types, or at each place that derives a name.
    ctx.rule('C02.R8', 'XER element names derived from type names are sanitised (no white-space in a tag): centrally in Type.__init__ or at every derivation')
    xm = model.mod(XER)

    def sanitises(e):
        return isinstance(e, ast.Call) and isinstance(e.func, ast.Attribute) and e.func.attr in ('replace', 'translate') and e.args and isinstance(e.args[0], ast.Constant) \
            and isinstance(e.args[0].value, str) and ' ' in e.args[0].value
    central = False
    xt = xm.classes.get('Type')
    if xt is not None:
        for k_ in xt.mro():
            if k_.mod is not xm:
                continue
            ini = k_.methods.get('__init__')
            if ini is not None:
                np_ = [p_ for p_ in flow.param_names(ini) if p_ != 'self'][:1]
                central = central or any(sanitises(x_) and isinstance(x_.func.value, ast.Name) and x_.func.value.id in np_ for x_ in walk_no_nested(ini))
    n8 = 0
    xc = xm.classes.get('Compiler')
    for g_ in (xc.methods.values() if xc else []):
        for c_ in walk_no_nested(g_):
            if not (isinstance(c_, ast.Call) and isinstance(c_.func, ast.Attribute) and c_.func.attr == 'compile_type' and c_.args):
                continue
            srcs = [c_.args[0]]
            if isinstance(c_.args[0], ast.Name):
                srcs += [a_.value for a_ in walk_no_nested(g_) if isinstance(a_, ast.Assign) and any(isinstance(t_, ast.Name) and t_.id == c_.args[0].id for t_ in a_.targets)]
            raw = []
            for e_ in srcs:
                clean_ids = set()
                for x_ in ast.walk(e_):
                    if sanitises(x_):
                        clean_ids |= {id(y_) for y_ in ast.walk(x_.func.value)}
                for x_ in ast.walk(e_):
                    if isinstance(x_, ast.Subscript) and isinstance(x_.slice, ast.Constant) and x_.slice.value == 'type' and id(x_) not in clean_ids:
                        raw.append(x_)
            if not any(isinstance(x_, ast.Subscript) and isinstance(x_.slice, ast.Constant) and x_.slice.value == 'type' for e_ in srcs for x_ in ast.walk(e_)):
                continue
            n8 += 1
            ok = central or not raw
            ctx.instance('C02.R8', '%s names a child after %s' % (Model.qual(g_), ast.unparse(c_.args[0])[:60]), ('sanitised in Type.__init__' if central else 'sanitised here') if ok else 'VIOLATION',
                         node=c_, file=XER)
            if not ok:
                ctx.violation('C02.R8', XER, raw[0], Model.qual(g_),
                              'the element is named after `%s`, a type name, without replacing the spaces (and the constructor of the XER types does not do it either): an unnamed '
                              'SET OF / SEQUENCE OF OCTET STRING is written as <OCTET STRING>, which is not well-formed XML and cannot be decoded' % ast.unparse(raw[0])[:60],
                              stmt='type name used as element name')
    if n8 < 1:
        raise AnalysisError('C02.R8 found only %d children named after their type' % n8)

    # ---- R9: XML 1.0 (2.11) turns every CR LF and every lone CR of a document into LF before the application sees the text, and ElementTree.tostring() writes a CR of
    #      element text as it is (it escapes & < > only).  A string value with a carriage return therefore comes back with a line feed unless the encoder writes the
    #      character reference &#13; itself or refuses the value.
    ctx.rule('C02.R9', 'XER: a carriage return in a character string value is written as a character reference (or refused), not left to XML line-end normalisation')
    xst = model.mod(XER).classes.get('StringType')
    senc = xst.find_method('encode')[1] if xst is not None and xst.find_method('encode') else None
    if senc is None:
        ctx.instance('C02.R9', 'xer.StringType.encode', 'undecided', 'not found', nontrivial=False, file=XER)
    else:
        dp9 = [p_ for p_ in flow.param_names(senc) if p_ != 'self'][:1]
        raw = [a_ for a_ in walk_no_nested(senc) if isinstance(a_, ast.Assign) and any(isinstance(t_, ast.Attribute) and t_.attr == 'text' for t_ in a_.targets)
               and isinstance(a_.value, ast.Name) and a_.value.id in dp9]
        handles_cr = any(isinstance(c_, ast.Constant) and isinstance(c_.value, str) and ('\r' in c_.value or '#13' in c_.value or '#xD' in c_.value or '#xd' in c_.value)
                         for g_ in model.mod(XER).functions.values() for c_ in walk_no_nested(g_)) or \
            any(isinstance(c_, ast.Constant) and isinstance(c_.value, str) and ('\r' in c_.value or '#13' in c_.value) for k_ in model.mod(XER).classes.values()
                for g_ in k_.methods.values() if g_.name.startswith('encode') for c_ in walk_no_nested(g_))
        ok9 = not raw or handles_cr
        ctx.instance('C02.R9', '%s stores the value as element text unchanged; CR handled somewhere in the encoder: %s' % (Model.qual(senc), handles_cr), 'ok' if ok9 else 'VIOLATION',
                     node=senc, file=XER)
        if not ok9:
            ctx.violation('C02.R9', XER, raw[0], Model.qual(senc),
                          'the value is placed into element.text as it is and serialised by ElementTree.tostring(), which does not escape a carriage return: an XML reader normalises '
                          '"\\r\\n" and "\\r" to "\\n" (XML 1.0, 2.11), so UTF8String "a\\r\\nb" decodes as "a\\nb" - the document does not decode to the value that was encoded',
                          stmt='carriage return in element text')

    # ---- R6: a container that skips the per-element conversion for "transparent" element types (a shortcut keyed on isinstance) may do so
    #      only if the conversion of every class that test accepts -- subclasses included -- is the identity
    ctx.rule('C02.R6', 'a pass-through shortcut keyed on isinstance(<element type>, K) covers only classes whose encode/decode are identities (subclasses included)')

    def is_identity(fn):
        ps_ = flow.param_names(fn)
        if ps_ and ps_[0] in ('self', 'cls'):
            ps_ = ps_[1:]
        if not ps_:
            return False
        body_ = [st_ for st_ in fn.body if not (isinstance(st_, ast.Expr) and isinstance(st_.value, ast.Constant))]
        return len(body_) == 1 and isinstance(body_[0], ast.Return) and isinstance(body_[0].value, ast.Name) and body_[0].value.id == ps_[0]
    n6 = 0
    for rel in (JER, XER):
        m_ = model.mod(rel)
        for c in m_.classes.values():
            # flags: self.<flag> = isinstance(<x>, K) set by a method of the class
            flags_ = {}
            for k_ in c.mro():
                for g_ in k_.methods.values():
                    for n_ in walk_no_nested(g_):
                        if isinstance(n_, ast.Assign) and isinstance(n_.value, ast.Call) and isinstance(n_.value.func, ast.Name) and n_.value.func.id == 'isinstance' \
                                and len(n_.value.args) == 2:
                            for t_ in n_.targets:
                                if isinstance(t_, ast.Attribute) and isinstance(t_.value, ast.Name) and t_.value.id == 'self':
                                    flags_['self.' + t_.attr] = (n_.value.args[1], k_.mod)
            for mn in ('encode', 'decode'):
                f_ = c.methods.get(mn)
                if f_ is None:
                    continue
                ps_ = sem.paths(f_)
                if ps_ is None:
                    continue
                allp_ = sem.with_loop_bodies(ps_)
                converts = any(any(ev[0] in ('call', 'in-loop:call') and len(ev) > 3 and isinstance(ev[3].func, ast.Attribute) and ev[3].func.attr == mn
                                   and sem.ctext(ev[3].func.value).startswith('self.') for ev in p_.events) for p_ in allp_)
                if not converts:
                    continue
                for p_ in ps_:
                    if p_.outcome[0] != 'return':
                        continue
                    if any(ev[0] in ('call', 'in-loop:call') and len(ev) > 3 and isinstance(ev[3].func, ast.Attribute) and ev[3].func.attr == mn
                           and sem.ctext(ev[3].func.value).startswith('self.') for ev in p_.events):
                        continue
                    # a returning path without the per-element conversion: which type test put us here?
                    keyed = []
                    for c_ in p_.conds:
                        if not c_[1]:
                            continue
                        if c_[0] in flags_:
                            keyed.append(flags_[c_[0]])
                        elif c_[0].startswith('isinstance(self.') and len(c_) > 4 and isinstance(c_[4], ast.Call) and len(c_[4].args) == 2:
                            keyed.append((c_[4].args[1], m_))
                    for kexpr, kmod in keyed:
                        if isinstance(kexpr, ast.Name):
                            r_ = kmod.resolve_name(kexpr.id)
                            if isinstance(r_, tuple) and r_[0] == 'const':
                                kexpr = r_[1]
                        names_ = list(kexpr.elts) if isinstance(kexpr, (ast.Tuple, ast.List)) else [kexpr]
                        classes_ = [kmod.resolve(x_) for x_ in names_ if isinstance(x_, (ast.Name, ast.Attribute))]
                        classes_ = [x_ for x_ in classes_ if hasattr(x_, 'mro')]
                        if not classes_:
                            continue
                        n6 += 1
                        offenders = []
                        for k_ in classes_:
                            for sub in [k_] + k_.subclasses(model):
                                r2 = sub.find_method(mn)
                                if r2 is not None and not is_identity(r2[1]):
                                    offenders.append((sub, r2[1]))
                        ctx.instance('C02.R6', '%s.%s passes elements of %s through unconverted' % (c.qname, mn, sorted(k_.name for k_ in classes_)),
                                     'all identities' if not offenders else 'VIOLATION', node=f_, file=rel)
                        if offenders:
                            sub, g_ = offenders[0]
                            ctx.violation('C02.R6', rel, f_, '%s::%s.%s' % (rel, c.name, mn),
                                          '%s.%s skips the element conversion whenever the element type is an instance of %s, but %s (a subclass accepted by that test) defines a %s that '
                                          'is not the identity (%s): its values are handed over / returned unconverted, so they no longer round-trip (%d such classes)'
                                          % (c.name, mn, sorted(k_.name for k_ in classes_), sub.name, mn, Model.qual(g_), len({o_[0].name for o_ in offenders})),
                                          stmt='pass-through shortcut')
    if n6 == 0:
        ctx.instance('C02.R6', 'no container of jer/xer skips the per-element conversion on a type test', 'ok', nontrivial=False)

    # ---- R5
    for f in siblings.members_encoders(model, ('jer', 'xer')):
        bad = siblings.presence_violations(f)
        ctx.instance('C02.R5', Model.qual(f), '`name in data`' if not bad else 'VIOLATION', node=f, file=f._mod.rel)
        for node, why in bad:
            ctx.violation('C02.R5', f._mod.rel, node, Model.qual(f), why + ': a present NULL member is dropped from the document', stmt='presence by value')
    # ... and on the decoding side of JER, where the document is a dictionary too: `"m": null` is a present NULL, not an omitted member
    jm = model.cls(JER, 'MembersType')
    jd = jm.find_method('decode')[1]
    bad = siblings.presence_violations_in(jd, jm, flow.param_names(jd)[1])
    ctx.instance('C02.R5', '%s (and the helpers it hands the document to)' % Model.qual(jd), '`name in data`' if not bad else 'VIOLATION', node=jd, file=JER)
    for node, why in bad:
        ctx.violation('C02.R5', JER, node, Model.qual(jd), why + ': JSON null is the encoding of NULL, so a present `m NULL OPTIONAL` is decoded as absent', stmt='presence by value (decode)')

    # ---- R7: delegation mirror (sa/deleg.py)
    ctx.rule('C02.R7', 'per configuration, decode / decode_of hand the element to the mirrored methods of the children that encode / encode_of handed the value to')
    n7 = n7d = 0
    for rel in (JER, XER):
        for c in model.mod(rel).classes.values():
            if c.name in ('Compiler',):
                continue
            for en, dn in (('encode', 'decode'), ('encode_of', 'decode_of')):
                er, dr = c.find_method(en), c.find_method(dn)
                if not er or not dr or (er[1]._mod.rel != rel and dr[1]._mod.rel != rel):
                    continue
                if er[1]._cls is not c and dr[1]._cls is not c:
                    continue        # inherited pair: decided at the defining class
                mm = deleg.mismatches(c, en, dn)
                if mm is None:
                    ctx.instance('C02.R7', '%s.%s/%s' % (c.qname, en, dn), 'undecided', 'too many paths or configuration atoms', nontrivial=False, node=dr[1], file=rel)
                    continue
                n7 += 1
                nt = any(d for _k, d in (deleg.deleg_paths(c, dr[1]) or []))
                n7d += 1 if nt else 0
                ctx.instance('C02.R7', '%s.%s/%s' % (c.qname, en, dn), 'mirrored' if not mm else 'VIOLATION', nontrivial=nt, node=dr[1], file=rel)
                for asg, extra, es in mm:
                    ctx.violation('C02.R7', rel, dr[1], Model.qual(dr[1]),
                                  'under the configuration %s the decoder can hand the element to %s while the encoder hands the value to %s only: the same encoder output is read '
                                  'by a different child protocol depending on the document (element name, key), so the codec cannot always decode what it wrote'
                                  % ({k: v for k, v in asg.items()} or '{}', [sorted(x) for x in extra], [sorted(x) for x in es]), stmt='%s delegations differ from %s' % (dn, en))
    if n7 < 20 or n7d < 4:
        raise AnalysisError('C02.R7 examined only %d method pairs (%d that delegate to children)' % (n7, n7d))


def _abstract(f):
    body = [s for s in f.body if not (isinstance(s, ast.Expr) and isinstance(s.value, ast.Constant))]
    return len(body) == 1 and isinstance(body[0], ast.Raise) and 'NotImplementedError' in ast.unparse(body[0])


MUTANTS = [
    dict(name='JER BIT STRING key renamed on the encode side only', file=JER, quick=True, old='                "length": data[1]', new='                "bits": data[1]', expect='C02.R2'),
    dict(name='xer.Boolean loses decode_of', file=XER, quick=True,
         old="""    def decode_of(self, element):
        return element.tag == 'true'
""", new="", expect='C02.R1'),
    dict(name='jer.Real scales before returning', file=JER, quick=True,
         old="""        elif math.isnan(data):
            return 'NaN'
        else:
            return data""", new="""        elif math.isnan(data):
            return 'NaN'
        else:
            data = data * 1.0
            return data""", expect='C02.R3'),
    dict(name='jer.Real emits "-0" for minus zero', file=JER,
         old="""        elif math.isnan(data):
            return 'NaN'
        else:
            return data""", new="""        elif math.isnan(data):
            return 'NaN'
        elif data == 0 and math.copysign(1.0, data) < 0:
            return '-0'
        else:
            return data""", expect='C02.R2'),
    dict(name='xer.Real divides again', file=XER,
         old="""            mantissa = decimal.Decimal(repr(data))
            exponent = 0
""", new="""            exponent = 0

            while abs(data) >= 10:
                data /= 10
                exponent += 1

            mantissa = decimal.Decimal(repr(data))
""", expect='C02.R3'),
    dict(name='xer.Real forgets infinity', file=XER,
         old="""        if data == float('inf'):
            element.text = 'INF'
        elif data == float('-inf'):""", new="""        if data == float('-inf'):""", expect='C02.R3'),
    dict(name='indent_xml overwrites leaf text', file=XER,
         old="""    else:
        if level and (not element.tail or not element.tail.strip()):
            element.tail = i""", new="""    else:
        element.text = (element.text or '').strip()
        if level and (not element.tail or not element.tail.strip()):
            element.tail = i""", expect='C02.R4'),
]
REFACTORS = [
    dict(name='jer.Real tests nan first', file=JER, quick=True,
         old="""        if data == float('inf'):
            return 'INF'
        elif data == float('-inf'):
            return '-INF'
        elif math.isnan(data):
            return 'NaN'
        else:""", new="""        if math.isnan(data):
            return 'NaN'
        elif data == float('inf'):
            return 'INF'
        elif data == float('-inf'):
            return '-INF'
        else:"""),
]

MUTANTS.append(dict(name='jer.SequenceOf passes string-typed elements through (time types are strings too)', file=JER,
                    old="""class SequenceOf(Type):

    def __init__(self, name, element_type):
        super(SequenceOf, self).__init__(name, 'SEQUENCE OF')
        self.element_type = element_type

    def encode(self, data):
""", new="""class SequenceOf(Type):

    def __init__(self, name, element_type):
        super(SequenceOf, self).__init__(name, 'SEQUENCE OF')
        self.element_type = element_type
        self.plain = isinstance(element_type, (Boolean, StringType))

    def encode(self, data):
        if self.plain:
            return list(data)

""", expect='C02.R6'))

MUTANTS.append(dict(name='xer.Recursive list elements: new form emitted, old wrapped form still accepted by tag', file=XER, quick=True,
                    old="""    def decode(self, element):
        return self._inner.decode(element)


class CompiledType(compiler.CompiledType):""", new="""    def decode(self, element):
        return self._inner.decode(element)

    def encode_of(self, data):
        if isinstance(self._inner, Choice):
            return self._inner.encode_of(data)

        return self.encode(data)

    def decode_of(self, element):
        if isinstance(self._inner, Choice) and element.tag != self.name:
            return self._inner.decode_of(element)

        return self.decode(element)


class CompiledType(compiler.CompiledType):""", expect='C02.R7'))
REFACTORS.append(dict(name='xer.Recursive list elements delegated consistently', file=XER,
                      old="""    def decode(self, element):
        return self._inner.decode(element)


class CompiledType(compiler.CompiledType):""", new="""    def decode(self, element):
        return self._inner.decode(element)

    def encode_of(self, data):
        if isinstance(self._inner, Choice):
            return self._inner.encode_of(data)

        return self.encode(data)

    def decode_of(self, element):
        if isinstance(self._inner, Choice):
            return self._inner.decode_of(element)

        return self.decode(element)


class CompiledType(compiler.CompiledType):"""))

MUTANTS.append(dict(name='JER decode treats an explicit null of an OPTIONAL member as omitted', file=JER,
                    old="""            if name in data:
                try:
                    value = member.decode(data[name])""", new="""            if name in data and not (member.optional and data[name] is None):
                try:
                    value = member.decode(data[name])""", expect='C02.R5'))
