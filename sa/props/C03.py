"""C03 -- DER is the distinguished encoding (obligations visible in code shape; DESIGN.md section 4 C03)."""
import ast
import re

from ..model import AnalysisError, Model, ClassInfo, walk_no_nested, norm_stmt, names_in
from ..callgraph import CallGraph
from .. import excmap, flow, dispatch, sem, siblings

EXPLANATION = (
    'Each clause is an obligation X.690 10-11 puts on a DER encoder that is visible as a call or class relation: (R1) the DER dispatch compiles '
    'SET with a sort by tag and compile_members sorts under that flag; (R2) the class constructed for SET OF sorts the encoded elements; (R3) '
    'components equal to their DEFAULT are omitted (guard in encode_member; BIT STRING compares cleaned values); (R4) every string/bit/octet '
    'string cell of the DER dispatch encodes through self.tag only -- no encode-reachable function of ber/der reads constructed_tag -- and the '
    'UTCTime/GeneralizedTime cells are der classes whose encode path uses the restricted time formatters only; (R5) the only length writer on '
    'encode paths is encode_length_definite and END_OF_CONTENTS_OCTETS is never referenced there; (R6) a tagged CHOICE (and a dummy reference) is '
    'made EXPLICIT before the module default is applied; (R7) minimal length and tag octets: encode_length_definite short form <= 127 and a '
    'shortest-form loop, encode_tag low form < 31; BOOLEAN TRUE is 0xFF; (R8) base-128 encoders (OBJECT IDENTIFIER sub-identifiers, high tag '
    'numbers) compare only against powers of 128.  Not decided: byte-for-byte equality with an independent DER encoder; minimal INTEGER octets, '
    'unused-bit zeroing, REAL canonical form, time string contents.')
BER = 'asn1tools/codecs/ber.py'
DER = 'asn1tools/codecs/der.py'
INIT = 'asn1tools/codecs/__init__.py'
STRINGISH = ['UTF8String', 'NumericString', 'PrintableString', 'IA5String', 'VisibleString', 'GeneralString', 'BMPString', 'GraphicString',
             'UniversalString', 'TeletexString', 'ObjectDescriptor', 'BIT STRING', 'OCTET STRING']


def encode_reach(cg, cls):
    """Functions on the encode path of one *specific* class: self.m() is resolved through that class's
    MRO (not through every subclass), super().m() after the defining class, plain names through the
    module; calls on other receivers (children) are not followed."""
    seen = []
    todo = []
    for mn in ('encode', 'encode_content'):
        r = cls.find_method(mn)
        if r:
            todo.append(r)
    while todo:
        owner, f = todo.pop()
        if f in seen or f.name.startswith('decode') or f.name in ('__init__', '__repr__'):
            continue
        seen.append(f)
        for c in walk_no_nested(f):
            if not isinstance(c, ast.Call):
                continue
            fn = c.func
            if isinstance(fn, ast.Attribute) and isinstance(fn.value, ast.Name) and fn.value.id == 'self':
                r = cls.find_method(fn.attr)
                if r:
                    todo.append(r)
            elif isinstance(fn, ast.Attribute) and isinstance(fn.value, ast.Call) and isinstance(fn.value.func, ast.Name) and fn.value.func.id == 'super':
                r = cls.find_method(fn.attr, after=owner)
                if r:
                    todo.append(r)
            elif isinstance(fn, (ast.Name, ast.Attribute)):
                t = f._mod.resolve(fn)
                if isinstance(t, ast.FunctionDef):
                    todo.append((None, t))
    return seen


def clean_value_rule(ctx, rid):
    """clean_bit_string_value evaluated on (octets, bit count, named bits) cases; shared by C03.R3 and C01.R3"""
    model = ctx.model
    from .. import evalexpr as _ev
    cbv = model.mod('asn1tools/codecs/compiler.py').functions.get('clean_bit_string_value')
    if cbv is None:
        raise AnalysisError('codecs/compiler.py: clean_bit_string_value vanished')
    cp = flow.param_names(cbv)
    n_ok = n_und = 0
    bad = None
    und = ''
    samples = [(b'', 0), (b'\xff', 8), (b'\xff', 1), (b'\xff', 7), (b'\xff\x01', 16), (b'\xff\x00', 16), (b'\xff\x01', 15), (b'\xff\x01', 9), (b'\x80', 1), (b'\x80\xff', 1),
               (b'\x00\x00\x01', 24), (b'\x00\x00\x01', 23), (b'\x12\x34\x56', 24), (b'\x12\x34\x56', 20), (b'\x12\x34\x56\x78', 24), (b'\xa5', 8), (b'\xa5', 4), (b'\x00', 8),
               (b'\x00\x80', 9), (b'\xf0\x0f', 16), (b'\xf0\x0f', 12)]
    for octs, nb in samples:
        bits = ''.join(format(o_, '08b') for o_ in octs)[:nb]
        for named in (False, True):
            keep = bits.rstrip('0') if named else bits
            want_bytes = bytes(int(keep[i_:i_ + 8].ljust(8, '0'), 2) for i_ in range(0, len(keep), 8))
            want = (want_bytes, len(keep))
            try:
                got, _e = _ev.run_function(cbv, {cp[0]: (octs, nb), cp[1]: named})
            except (_ev.Unsupported, _ev.Raised) as e_:
                n_und += 1
                und = und or str(e_)[:80]
                continue
            try:
                got_n = (bytes(got[0]), got[1])
            except Exception:
                got_n = got
            if got_n == want:
                n_ok += 1
            elif bad is None:
                bad = (octs, nb, named, got_n, want)
    ctx.instance(rid, 'clean_bit_string_value on %d (octets, bit count, named bits) cases (%d undecided)' % (n_ok + (1 if bad else 0), n_und),
                 'VIOLATION' if bad else ('ok' if n_ok > n_und else 'undecided'), und, nontrivial=n_ok > n_und, node=cbv, file='asn1tools/codecs/compiler.py')
    if bad:
        octs, nb, named, got_n, want = bad
        ctx.violation(rid, 'asn1tools/codecs/compiler.py', cbv, Model.qual(cbv),
                      'clean_bit_string_value((%r, %d), %s) gives %r, the value itself is %r: a bit that belongs to the value is cleared (or an unused one kept), so two different BIT STRINGs '
                      'compare equal to a DEFAULT (the component is omitted and decodes to the default) or equal ones differ' % (octs, nb, named, got_n, want), stmt='cleaned value')



def check(ctx):
    model = ctx.model
    cg = CallGraph(model)
    tab = dispatch.table(model, 'der')
    ber_tab = dispatch.table(model, 'ber')
    ctx.rule('C03.R1', 'DER SET compiled sorted by tag')
    ctx.rule('C03.R2', 'DER SET OF sorts the encoded elements')
    ctx.rule('C03.R3', 'DEFAULT-valued components omitted; BIT STRING default compared on cleaned values')
    ctx.rule('C03.R4', 'DER encode paths are primitive-only and use the restricted time forms')
    ctx.rule('C03.R5', 'only definite lengths are written')
    ctx.rule('C03.R6', 'tagged CHOICE forced EXPLICIT before the module default')
    ctx.rule('C03.R7', 'minimal length / tag octets; BOOLEAN TRUE = 0xFF')
    ctx.rule('C03.R8', 'base-128 encoders compare only against powers of 128')

    # ---- R1
    cell = tab.cells['SET']
    sort_flag = any(isinstance(n, ast.Call) and any(k.arg == 'sort_by_tag' and isinstance(k.value, ast.Constant) and k.value.value is True for k in n.keywords)
                    for st in cell.body for n in ast.walk(st))
    if not sort_flag:
        # a flag computed from the kind being compiled (`sort_by_tag=(type_name == 'SET')`): evaluated for the kind of this cell
        from .. import evalexpr as _ev1
        for st in cell.body:
            for n in ast.walk(st):
                if isinstance(n, ast.Call):
                    for k in n.keywords:
                        if k.arg == 'sort_by_tag' and not isinstance(k.value, ast.Constant):
                            env1 = {x_.id: 'SET' for x_ in ast.walk(k.value) if isinstance(x_, ast.Name)}
                            try:
                                if _ev1.ev(k.value, env1) is True:
                                    sort_flag = True
                            except (_ev1.Unsupported, _ev1.PyRaise, KeyError, TypeError):
                                pass
    enc_sort = False
    if cell.cls is not None:
        for f in encode_reach(cg, cell.cls):
            if any(isinstance(n, ast.Call) and (ast.unparse(n.func) == 'sorted' or (isinstance(n.func, ast.Attribute) and n.func.attr == 'sort')) for n in walk_no_nested(f)) \
                    and f._mod.rel in (BER, DER) and getattr(f, '_cls', None) is not None and f._cls.name in ('Set', 'MembersType'):
                enc_sort = True
    ok = sort_flag or enc_sort
    ctx.instance('C03.R1', "der dispatch['SET']: sort_by_tag=True passed: %s; sort in the encode path: %s" % (sort_flag, enc_sort), 'ok' if ok else 'VIOLATION', node=cell.ctor, file=DER)
    if not ok:
        ctx.violation('C03.R1', DER, cell.ctor or tab.func, "%s::Compiler dispatch['SET']" % DER,
                      'DER must encode SET components in ascending tag order (X.690 10.3); the DER compiler neither passes sort_by_tag=True (as the BER sibling does) nor sorts when encoding',
                      stmt='SET not sorted')
    cm = model.func(BER, 'Compiler.compile_members')
    # a sort (sorted(...) / .sort(...)) executed when the sort_by_tag flag is set, whose key function masks the constructed bit
    flag = 'sort_by_tag' if 'sort_by_tag' in flow.param_names(cm) else None
    if flag is None:
        raise AnalysisError('ber.Compiler.compile_members has no sort_by_tag parameter')
    srt = [n for n in walk_no_nested(cm) if isinstance(n, ast.Call) and ((isinstance(n.func, ast.Name) and n.func.id == 'sorted') or (isinstance(n.func, ast.Attribute) and n.func.attr == 'sort'))]
    keyfn = None
    ok = False
    for n in srt:
        under_flag = any(pol and flag in names_in(t) for t, pol in flow.guards_of(n, cm)) or any(isinstance(a, ast.IfExp) and flag in names_in(a.test) for a in flow.ancestors(n))
        key = [k.value for k in n.keywords if k.arg == 'key']
        if under_flag and key:
            r = cm._mod.resolve(key[0]) if isinstance(key[0], (ast.Name, ast.Attribute)) else (key[0] if isinstance(key[0], ast.Lambda) else None)
            if isinstance(r, (ast.FunctionDef, ast.Lambda)):
                keyfn = r
                ok = True
    ctx.instance('C03.R1', 'ber.Compiler.compile_members sorts by a tag key under sort_by_tag', 'ok' if ok else 'VIOLATION', node=cm, file=BER)
    if not ok:
        ctx.violation('C03.R1', BER, cm, Model.qual(cm), 'compile_members no longer sorts the members by tag (without the constructed bit) when sort_by_tag is given', stmt='sort under sort_by_tag')
    g = keyfn if keyfn is not None else model.func(BER, 'get_tag_no_encoding')
    # the key: first identifier octet with the constructed bit cleared (& ~Encoding.CONSTRUCTED or & 0xdf), followed by the remaining tag octets
    gv = sem.View(g) if isinstance(g, ast.FunctionDef) else None
    body_exprs = [gv.expr(r.value) for r in walk_no_nested(g) if isinstance(r, ast.Return) and r.value is not None] if gv else [g.body]
    def masks(e):
        for n in ast.walk(e):
            if isinstance(n, ast.BinOp) and isinstance(n.op, ast.BitAnd):
                for side in (n.left, n.right):
                    t = ast.unparse(side)
                    if t in ('~Encoding.CONSTRUCTED', '223', '~32') or (isinstance(side, ast.Constant) and side.value == 0xdf):
                        return True
        return False
    def keeps_rest(e):
        return any(isinstance(n, ast.Subscript) and isinstance(n.slice, ast.Slice) and n.slice.lower is not None and ast.unparse(n.slice.lower) == '1' and n.slice.upper is None
                   for n in ast.walk(e))
    ok = bool(body_exprs) and all(masks(e) and keeps_rest(e) for e in body_exprs)
    how = ''
    if isinstance(g, ast.FunctionDef):
        # decided by evaluation when the key function is evaluable: key(member) == first identifier octet without the constructed bit, then the other octets
        from .. import evalexpr as _ev1
        gp1 = flow.param_names(g)
        res = []
        for tag in (b'\x30', b'\x10', b'\xa3', b'\x83', b'\x7f\x21', b'\x5f\x21', b'\xbf\x81\x00', b'\x02'):
            try:
                got, _e = _ev1.run_function(g, {gp1[0]: _ev1.Obj(tag=bytearray(tag))})
                res.append(bytes(got) == bytes([tag[0] & 0xdf]) + tag[1:])
            except (_ev1.Unsupported, _ev1.Raised, KeyError, TypeError, IndexError, ValueError):
                res = None
                break
        if res is not None:
            ok = all(res)
            how = 'decided by evaluation on %d tags' % len(res)
    ctx.instance('C03.R1', 'the sort key masks the constructed bit and keeps the following tag octets', 'ok' if ok else 'VIOLATION', how, node=g, file=BER)
    if not ok:
        ctx.violation('C03.R1', BER, g, Model.qual(g) if isinstance(g, ast.FunctionDef) else Model.qual(cm), 'the sort key must be the tag without the primitive/constructed bit (X.690 10.3 / X.680 8.6)', stmt='sort key')

    # ---- R2
    cell = tab.cells['SET OF']
    ok = False
    if cell.cls is not None:
        for f in encode_reach(cg, cell.cls):
            if getattr(f, '_cls', None) is not None and f._cls in cell.cls.mro() and \
                    any(isinstance(n, ast.Call) and (ast.unparse(n.func) == 'sorted' or (isinstance(n.func, ast.Attribute) and n.func.attr == 'sort')) for n in walk_no_nested(f)):
                ok = True
    ctx.instance('C03.R2', "der dispatch['SET OF'] -> %s sorts in its encode path" % (cell.cls.qname if cell.cls else '?'), 'ok' if ok else 'VIOLATION', node=cell.ctor, file=DER)
    if not ok:
        ctx.violation('C03.R2', DER, cell.ctor or tab.func, "%s::Compiler dispatch['SET OF']" % DER,
                      'DER must emit the elements of a SET OF in ascending order of their encodings (X.690 11.6); the class constructed for SET OF never sorts', stmt='SET OF not sorted')

    # ---- R3
    em = model.func(BER, 'MembersType.encode_member')
    calls = [c for c in sem.method_calls(em, 'encode') if len(c.args) >= 2]
    ok = bool(calls) and all(any((pol and re.search(r'not\s+[\w\.\[\]]+\.is_default\(', ast.unparse(t))) or
                                 ((not pol) and re.search(r'[\w\.\[\]]+\.is_default\(', ast.unparse(t)) and not re.search(r'not\s+[\w\.\[\]]+\.is_default\(', ast.unparse(t))) or
                                 (pol and re.search(r'isinstance\([\w\.]+, AnyDefinedBy\)', ast.unparse(t)))
                                 for t, pol in flow.guards_of(c, em)) for c in calls)
    ctx.instance('C03.R3', 'ber.MembersType.encode_member omits components equal to their DEFAULT', 'ok' if ok else 'VIOLATION', node=em, file=BER)
    if not ok:
        ctx.violation('C03.R3', BER, em, Model.qual(em), 'a component equal to its DEFAULT value is encoded (X.690 11.5 forbids it in DER)', stmt='default omission')
    for rel in (BER, DER):
        f = model.func(rel, 'BitString.is_default')
        ps = sem.paths(f) or []
        # every path that compares returns  clean(value) == clean(default): both operands are passed through clean_bit_string_value
        cmp_rets = [p for p in ps if p.outcome[0] == 'return' and isinstance(p.outcome[3], ast.Compare)]
        ok = bool(cmp_rets)
        for p in cmp_rets:
            e = p.outcome[3]
            sides = [e.left] + list(e.comparators)
            if not (len(sides) == 2 and isinstance(e.ops[0], ast.Eq) and all(isinstance(x, ast.Call) and sem.callee_name(x) == 'clean_bit_string_value' for x in sides)):
                ok = False
        ctx.instance('C03.R3', '%s compares cleaned values' % Model.qual(f), 'ok' if ok else 'VIOLATION', node=f, file=rel)
        if not ok:
            ctx.violation('C03.R3', rel, f, Model.qual(f), 'BIT STRING default comparison must ignore unused bits / trailing zero named bits on both sides', stmt='cleaned comparison')

    # what "cleaned" means, decided by evaluation (sa/evalexpr.py) of clean_bit_string_value on (octets, bit count) pairs: the first n bits are kept as they are --
    # all eight of the last octet when n is a multiple of 8 --, the unused bits of the last octet are zeroed, surplus octets dropped; with named bits trailing
    # zero bits are removed.  Two values clean to the same result exactly if they are the same BIT STRING.
    clean_value_rule(ctx, 'C03.R3')

    # a transparent wrapper built around an arbitrary compiled type (the inner type object is a constructor argument and the value is handed to it
    # unchanged) decides "equal to the DEFAULT" with the inner type's own is_default: the inner type may specialise the comparison (BIT STRING)
    special = [c for rel in (BER, DER) for c in model.mod(rel).classes.values() if 'is_default' in c.methods and 'inner' not in ast.unparse(c.methods['is_default'])]
    nwrap = 0
    for rel in (BER, DER):
        for c in model.mod(rel).classes.values():
            init = c.methods.get('__init__')
            if init is None:
                continue
            pn = flow.param_names(init)
            attrs = [t.attr for a in walk_no_nested(init) if isinstance(a, ast.Assign) and isinstance(a.value, ast.Name) and a.value.id in pn[1:]
                     for t in a.targets if isinstance(t, ast.Attribute) and isinstance(t.value, ast.Name) and t.value.id == 'self']
            enc = c.find_method('encode_content') or c.find_method('encode')
            if enc is None:
                continue
            handed = [a for a in attrs if any(isinstance(n, ast.Call) and isinstance(n.func, ast.Attribute) and n.func.attr in ('encode', 'encode_content')
                                              and ast.unparse(n.func.value) == 'self.%s' % a and n.args and isinstance(n.args[0], ast.Name)
                                              and n.args[0].id == flow.param_names(enc[1])[1] for n in walk_no_nested(enc[1]))]
            if not handed:
                continue
            nwrap += 1
            isd = c.find_method('is_default')
            ok = not special or (isd is not None and any(isinstance(n, ast.Call) and isinstance(n.func, ast.Attribute) and n.func.attr == 'is_default'
                                                         and ast.unparse(n.func.value) == 'self.%s' % handed[0] for n in walk_no_nested(isd[1])))
            ctx.instance('C03.R3', '%s wraps self.%s: is_default decided by the wrapped type (%d specialised is_default in ber/der)' % (c.qname, handed[0], len(special)),
                         'ok' if ok else 'VIOLATION', node=isd[1] if isd else c.node, file=rel)
            if not ok:
                ctx.violation('C03.R3', rel, isd[1] if isd else c.node, '%s::%s.is_default' % (rel, c.name),
                              '%s hands the value unchanged to self.%s but compares it with the DEFAULT itself: the comparison the wrapped type specialises (%s) is bypassed, so a value '
                              'equal to the DEFAULT in another spelling (BIT STRING with trailing zero bits) is encoded instead of omitted (X.690 11.5)'
                              % (c.name, handed[0], ', '.join(k.qname for k in special)), stmt='wrapper is_default')
    if nwrap < 1:
        raise AnalysisError('C03.R3: no transparent wrapper class found in ber/der (ExplicitTag)')

    # ---- R4
    n4 = 0
    for kind in STRINGISH:
        cell = tab.cells.get(kind)
        if cell is None or cell.cls is None:
            raise AnalysisError("der dispatch has no cell for '%s'" % kind)
        reach = encode_reach(cg, cell.cls)
        bad = None
        for f in reach:
            if f._mod.rel not in (BER, DER):
                continue
            for n in walk_no_nested(f):
                if isinstance(n, ast.Attribute) and n.attr == 'constructed_tag' and isinstance(n.ctx, ast.Load):
                    bad = (f, n)
        n4 += 1
        ctx.instance('C03.R4', "der['%s'] -> %s encodes through self.tag only (%d functions)" % (kind, cell.cls.qname, len(reach)), 'primitive' if bad is None else 'VIOLATION', node=cell.ctor, file=DER)
        if bad is not None:
            ctx.violation('C03.R4', bad[0]._mod.rel, bad[1], "%s::Compiler dispatch['%s']" % (DER, kind),
                          'the DER encode path of %s reads constructed_tag in %s: DER requires the primitive form for string types (X.690 10.2)' % (kind, Model.qual(bad[0])), stmt='constructed form on a DER encode path')
    for kind, must, mustnot in (('UTCTime', 'restricted_utc_time_from_datetime', 'utc_time_from_datetime'),
                                ('GeneralizedTime', 'restricted_generalized_time_from_datetime', 'generalized_time_from_datetime')):
        cell = tab.cells.get(kind)
        names = set()
        for f in encode_reach(cg, cell.cls):
            for c in walk_no_nested(f):
                if isinstance(c, ast.Call) and isinstance(c.func, ast.Name):
                    names.add(c.func.id)
        ok = cell.cls.mod.rel == DER and must in names and mustnot not in names
        n4 += 1
        ctx.instance('C03.R4', "der['%s'] -> %s uses %s" % (kind, cell.cls.qname, must), 'ok' if ok else 'VIOLATION', node=cell.ctor, file=DER)
        if not ok:
            ctx.violation('C03.R4', DER, cell.ctor or tab.func, "%s::Compiler dispatch['%s']" % (DER, kind),
                          'DER %s must be produced by %s (X.690 11.7/11.8: no local time, no fraction trailing zeros, seconds present); the encode path calls %s'
                          % (kind, must, sorted(n for n in names if 'time' in n)), stmt='restricted time form')
    # the restricted time formatters place every numeric field of the date with a fixed, zero-filled width (siblings.unpadded_date_fields)
    for fdef, nfmt, bad in siblings.unpadded_date_fields(model, lambda name: name.startswith('restricted_')):
        ctx.instance('C03.R4', '%s: %d numeric date fields formatted outside strftime, all zero-filled to their width' % (Model.qual(fdef), nfmt), 'ok' if not bad else 'VIOLATION',
                     nontrivial=nfmt > 0, node=fdef, file=INIT)
        for n, attr, spec, width in bad:
            ctx.violation('C03.R4', INIT, n, Model.qual(fdef),
                          'the %s field is formatted with %s instead of a zero-filled width of %d: leading zeros are lost (a fraction .05 becomes .5, 07 minutes become 7), so the time string '
                          'denotes another value and is not the DER form' % (attr, ('`{:%s}`' % spec) if spec else '`{}` / str()', width), stmt='unpadded %s' % attr)
    if n4 < 15:
        raise AnalysisError('C03.R4 examined only %d cells' % n4)

    # ---- R5
    roots = []
    for rel in (BER, DER):
        c = model.mod(rel).classes.get('CompiledType')
        if c and 'encode' in c.methods:
            roots.append(c.methods['encode'])
    for cell in list(tab.cells.values()) + list(ber_tab.cells.values()):
        if cell.cls is not None:
            for mn in ('encode', 'encode_content'):
                r = cell.cls.find_method(mn)
                if r:
                    roots.append(r[1])
    reach = cg.reachable(roots, stop=lambda f: f.name.startswith('decode') or f.name in ('__init__', '__repr__', 'format_tag'))
    n5 = 0
    for f in sorted(reach, key=lambda g: (g._mod.rel, g.lineno)):
        if f._mod.rel not in (BER, DER):
            continue
        n5 += 1
        for n in walk_no_nested(f):
            if isinstance(n, ast.Name) and n.id == 'END_OF_CONTENTS_OCTETS':
                ctx.violation('C03.R5', f._mod.rel, n, Model.qual(f), 'an encode path references END_OF_CONTENTS_OCTETS: indefinite lengths are not allowed in DER (X.690 10.1)', stmt='end-of-contents on encode path')
            if isinstance(n, ast.Call) and isinstance(n.func, ast.Name) and 'length' in n.func.id and n.func.id.startswith('encode') and n.func.id != 'encode_length_definite':
                ctx.violation('C03.R5', f._mod.rel, n, Model.qual(f), 'length written by %s instead of encode_length_definite' % n.func.id, stmt='length writer')
    ctx.instance('C03.R5', '%d encode-reachable functions of ber/der: no END_OF_CONTENTS_OCTETS, only encode_length_definite' % n5, 'ok')
    if n5 < 30:
        raise AnalysisError('C03.R5 reached only %d encode functions' % n5)

    # ---- R6
    f = model.func('asn1tools/codecs/compiler.py', 'Compiler.pre_process_tags_type')
    # a helper that selects the kind is looked into; the two predicates the rule is about are kept as they are written
    ps = sem.paths(f, resolver=sem.class_resolver(f._cls, keep=('is_dummy_reference', 'resolve_type_name')))
    if ps is None:
        raise AnalysisError('pre_process_tags_type: too many paths')
    kind_stores = []
    for p in ps:
        for ev in p.events:
            if ev[0] == 'store' and re.search(r"\['kind'\] = ", ev[1]):
                # the conditions established before this store
                k = None
                for ev2 in p.events:
                    if ev2[0] == 'stmt' and ev2[2] is ev[2]:
                        k = ev2[1]
                if len(ev) > 4 and isinstance(ev[4], int):
                    k = ev[4]       # includes the conditions under which a helper selected the stored value
                kind_stores.append((p, p.conds[:k] if k is not None else p.conds, ev[1].split(' = ', 1)[1]))
    if len(kind_stores) < 3:
        # the assignment of the kind may have been moved into a step of its own (a method of the compiler that is handed the tag): examined there
        for c_ in walk_no_nested(f):
            if isinstance(c_, ast.Call) and isinstance(c_.func, ast.Attribute) and isinstance(c_.func.value, ast.Name) and c_.func.value.id == 'self':
                r_ = f._cls.find_method(c_.func.attr)
                if not r_ or r_[1] is f:
                    continue
                g_ = r_[1]
                if not any(isinstance(x_, ast.Assign) and isinstance(x_.targets[0], ast.Subscript) and isinstance(x_.targets[0].slice, ast.Constant) and x_.targets[0].slice.value == 'kind'
                           for x_ in walk_no_nested(g_)):
                    continue
                gps = sem.paths(g_, resolver=sem.class_resolver(f._cls, keep=('is_dummy_reference', 'resolve_type_name')))
                for p in gps or []:
                    for ev in p.events:
                        if ev[0] == 'store' and re.search(r"\['kind'\] = ", ev[1]):
                            k = None
                            for ev2 in p.events:
                                if ev2[0] == 'stmt' and ev2[2] is ev[2]:
                                    k = ev2[1]
                            kind_stores.append((p, p.conds[:k] if k is not None else p.conds, ev[1].split(' = ', 1)[1]))
    if len(kind_stores) < 3:
        raise AnalysisError('pre_process_tags_type: only %d paths set the tag kind' % len(kind_stores))
    is_choice = lambda t: "'CHOICE'" in t and ' == ' in t
    is_dummy = lambda t: 'is_dummy_reference(' in t
    bad = None
    seen_choice = seen_dummy = through_refs = False
    for p, conds, val in kind_stores:
        lits = {(c[0], c[1]) for c in conds}
        ch_true = any(is_choice(t) and pol for t, pol in lits)
        du_true = any(is_dummy(t) and pol for t, pol in lits)
        ch_false = any(is_choice(t) and not pol for t, pol in lits)
        du_false = any(is_dummy(t) and not pol for t, pol in lits)
        if ch_true:
            seen_choice = True
            if any(is_choice(t) and 'resolve_type_name(' in t for t, pol in lits):
                through_refs = True
        if du_true:
            seen_dummy = True
        if (ch_true or du_true) and val != "'EXPLICIT'":
            bad = 'a tagged %s gets kind %s' % ('CHOICE' if ch_true else 'dummy reference', val)
        if not (ch_true or du_true) and not (ch_false and du_false):
            bad = 'the tag kind is set to %s on a path that has not first excluded CHOICE and dummy references' % val
    ok = bad is None and seen_choice and seen_dummy
    ctx.instance('C03.R6', 'pre_process_tags_type: %d kind assignments; CHOICE / dummy reference forced EXPLICIT before any default' % len(kind_stores), 'ok' if ok else 'VIOLATION', node=f, file='asn1tools/codecs/compiler.py')
    if not ok:
        ctx.violation('C03.R6', 'asn1tools/codecs/compiler.py', f, Model.qual(f),
                      'X.680 31.2.7: a tagged CHOICE (and an untagged-type dummy reference) is always EXPLICIT; the tests must precede the module default: %s' % (bad or 'no path tests for CHOICE / dummy reference'), stmt='CHOICE before module default')
    ok = through_refs
    ctx.instance('C03.R6', 'the CHOICE test is made on the resolved type (through references)', 'ok' if ok else 'VIOLATION', node=f, file='asn1tools/codecs/compiler.py')
    if not ok:
        ctx.violation('C03.R6', 'asn1tools/codecs/compiler.py', f, Model.qual(f), 'the CHOICE test must look through type references (resolve_type_name)', stmt='resolved type')

    # ---- R7  (the octets are decided by bounded evaluation further down; the structural forms below are the fall-back for a function the evaluator cannot follow)
    from .. import evalexpr as _ev

    def evaluable(fname, args_list):
        g_ = model.func(BER, fname)
        gp_ = flow.param_names(g_)
        for args in args_list:
            try:
                _ev.run_function(g_, dict(zip(gp_, args)))
            except _ev.Raised:
                pass
            except (_ev.Unsupported, KeyError, TypeError, IndexError, ValueError):
                return False
        return True
    eval_len = evaluable('encode_length_definite', [(0,), (127,), (128,), (65536,)])
    eval_tag = evaluable('encode_tag', [(0, 0), (30, 0x80), (31, 0), (128, 0x40), (16384, 0)])
    f = model.func(BER, 'encode_length_definite')
    ps = sem.paths(f, positional=True)
    if ps is None and not eval_len:
        raise AnalysisError('encode_length_definite: too many paths')
    ps = ps or []
    short = sem.ccond(sem.parse_expr('ARG0 <= 127'))
    has_short = any(p.has(short[0], short[1]) and not any(ev[0] == 'loop' for ev in p.events) for p in ps)
    long_ = [p for p in ps if p.has(short[0], not short[1])]
    # long form: a loop that runs while the remaining value is non-zero and drops 8 bits per round, then 0x80 | number of octets
    nz = {sem.ccond(sem.parse_expr(x))[0] for x in ('ARG0 > 0', 'ARG0 != 0')} | {'ARG0'}
    def minimal_loop(p):
        for ev in p.events:
            if ev[0] == 'loop' and isinstance(ev[2], ast.While):
                t, pol = sem.ccond(ev[2].test, {flow.param_names(f)[0]: ast.Name(id='ARG0', ctx=ast.Load())})
                shifts = [n for n in ast.walk(ev[2]) if isinstance(n, ast.AugAssign) and isinstance(n.op, ast.RShift) and isinstance(n.value, ast.Constant) and n.value.value == 8]
                shifts += [n for n in ast.walk(ev[2]) if isinstance(n, ast.AugAssign) and isinstance(n.op, ast.FloorDiv) and isinstance(n.value, ast.Constant) and n.value.value == 256]
                if t in nz and pol and shifts:
                    return True
        return False
    count_octet = any(isinstance(n, ast.BinOp) and isinstance(n.op, ast.BitOr) and any(isinstance(x, ast.Constant) and x.value == 0x80 for x in (n.left, n.right))
                      and any(isinstance(x, ast.Call) and sem.callee_name(x) == 'len' for x in ast.walk(n)) for n in walk_no_nested(f))
    ok = (has_short and bool(long_) and all(minimal_loop(p) for p in long_) and count_octet) or eval_len
    ctx.instance('C03.R7', 'encode_length_definite: short form <= 127, else the fewest octets', 'ok' if ok else 'VIOLATION', 'decided by the evaluation below' if eval_len else '', node=f, file=BER)
    if not ok:
        ctx.violation('C03.R7', BER, f, Model.qual(f), 'definite lengths must use the short form up to 127 and the minimum number of octets above (X.690 10.1)', stmt='minimal length')
    f = model.func(BER, 'encode_tag')
    ps = sem.paths(f, positional=True) or []
    low = sem.ccond(sem.parse_expr('ARG0 < 31'))
    ok = (any(p.has(low[0], low[1]) for p in ps) and any(p.has(low[0], not low[1]) for p in ps)) or eval_tag
    ctx.instance('C03.R7', 'encode_tag: low-tag-number form below 31', 'ok' if ok else 'VIOLATION', 'decided by the evaluation below' if eval_tag else '', node=f, file=BER)
    if not ok:
        ctx.violation('C03.R7', BER, f, Model.qual(f), 'tag numbers 0..30 must use the single-octet form (X.690 8.1.2.2)', stmt='low tag form')
    # the identifier octets themselves, by bounded evaluation of encode_tag (sa/evalexpr.py) against X.690 8.1.2: one octet below 31, otherwise 0x1f and the
    # number in base 128 with the fewest octets (8.1.2.4.2 c: the first subsequent octet is not 0x80)
    from .. import evalexpr

    def ref_ber_tag(number, flags):
        if number < 31:
            return bytes([flags | number])
        groups = []
        while number > 0:
            groups.append(number & 0x7f)
            number >>= 7
        groups.reverse()
        return bytes([flags | 0x1f] + [0x80 | g for g in groups[:-1]] + [groups[-1]])
    pn7 = flow.param_names(f)
    n_ok = n_und = 0
    bad7 = und7 = None
    for flags in (0x00, 0x20, 0x40, 0x80, 0xa0, 0xc0):
        for number in (0, 1, 30, 31, 32, 63, 64, 100, 127, 128, 129, 255, 256, 8191, 8192, 16383, 16384, 2 ** 21 - 1, 2 ** 21, 2 ** 28 + 5):
            try:
                got, _env = evalexpr.run_function(f, {pn7[0]: number, pn7[1]: flags})
                got = bytes(got)
            except (evalexpr.Unsupported, evalexpr.Raised, KeyError, TypeError, IndexError, ValueError) as e:
                n_und += 1
                und7 = und7 or 'encode_tag(%d, 0x%02x): %s' % (number, flags, e)
                continue
            want = ref_ber_tag(number, flags)
            if got != want:
                bad7 = bad7 or 'encode_tag(%d, 0x%02x) gives %s, X.690 8.1.2 prescribes %s' % (number, flags, got.hex(), want.hex())
            else:
                n_ok += 1
    ctx.instance('C03.R7', 'encode_tag against X.690 8.1.2: %d (number, class/form) cases evaluated, %d undecided' % (n_ok, n_und), 'VIOLATION' if bad7 else ('ok' if n_ok else 'undecided'),
                 und7 or '', nontrivial=n_ok > 0, node=f, file=BER)
    if bad7:
        ctx.violation('C03.R7', BER, f, Model.qual(f), bad7 + ': the identifier octets are not the distinguished form (a conforming reader may reject a leading 0x80 octet)', stmt='tag octets')
    # definite lengths and INTEGER contents, the same way: X.690 8.1.3 / 10.1 (short form up to 127, else the fewest length octets) and 8.3.2 (the
    # first nine bits of an INTEGER are not all equal)
    def evaluate(fname, cases, ref, what, why):
        g = model.func(BER, fname)
        gp = flow.param_names(g)
        n_ok_ = n_und_ = 0
        bad_ = und_ = None
        for v in cases:
            try:
                got_, _e = evalexpr.run_function(g, {gp[0]: v})
                got_ = bytes(got_)
            except evalexpr.Raised:
                bad_ = bad_ or '%s(%d) raises' % (fname, v)
                continue
            except (evalexpr.Unsupported, KeyError, TypeError, IndexError, ValueError) as e:
                n_und_ += 1
                und_ = und_ or '%s(%d): %s' % (fname, v, e)
                continue
            if got_ != ref(v):
                bad_ = bad_ or '%s(%d) gives %s, %s prescribes %s' % (fname, v, got_.hex(), what, ref(v).hex())
            else:
                n_ok_ += 1
        ctx.instance('C03.R7', '%s against %s: %d cases evaluated, %d undecided' % (fname, what, n_ok_, n_und_), 'VIOLATION' if bad_ else ('ok' if n_ok_ else 'undecided'), und_ or '',
                     nontrivial=n_ok_ > 0, node=g, file=BER)
        if bad_:
            ctx.violation('C03.R7', BER, g, Model.qual(g), bad_ + ': ' + why, stmt='%s octets' % fname)

    def ref_length(n):
        if n <= 127:
            return bytes([n])
        k = (n.bit_length() + 7) // 8
        return bytes([0x80 | k]) + n.to_bytes(k, 'big')

    def ref_integer(v):
        k = 1
        while not -(1 << (8 * k - 1)) <= v < (1 << (8 * k - 1)):
            k += 1
        return v.to_bytes(k, 'big', signed=True)
    evaluate('encode_length_definite', (0, 1, 126, 127, 128, 129, 255, 256, 257, 65535, 65536, 2 ** 24 - 1, 2 ** 24, 2 ** 32 - 1, 2 ** 32, 2 ** 40 + 3), ref_length,
             'X.690 10.1', 'a DER length uses the short form up to 127 and the fewest octets above')
    evaluate('encode_signed_integer', (0, 1, -1, 127, 128, -128, -129, 255, 256, -256, -257, 32767, 32768, -32768, -32769, 2 ** 23 - 1, 2 ** 23, -2 ** 23, -2 ** 23 - 1,
                                       2 ** 31 - 1, 2 ** 31, -2 ** 31, 2 ** 63 - 1, 2 ** 63, -2 ** 63, -2 ** 63 - 1, 2 ** 64, 2 ** 71 - 1, 2 ** 71), ref_integer,
             'X.690 8.3.2', 'INTEGER contents are the shortest two\'s complement form (the first nine bits are not all equal)')
    f = model.func(BER, 'Boolean.encode_content')
    ints = sorted({n.value for n in ast.walk(f) if isinstance(n, ast.Constant) and isinstance(n.value, int) and not isinstance(n.value, bool)})
    ok = ints == [255]
    ctx.instance('C03.R7', 'Boolean.encode_content constants %s' % ints, 'ok' if ok else 'VIOLATION', node=f, file=BER)
    if not ok:
        ctx.violation('C03.R7', BER, f, Model.qual(f), 'DER BOOLEAN TRUE is the single octet 0xFF (X.690 11.1)', stmt='boolean true octet')
    cell = tab.cells['BOOLEAN']
    ok = cell.cls is not None and cell.cls.find_method('encode_content')[1] is f
    ctx.instance('C03.R7', 'der BOOLEAN uses that encoder', 'ok' if ok else 'VIOLATION', node=cell.ctor, file=DER)
    if not ok:
        ctx.violation('C03.R7', DER, cell.ctor or tab.func, "%s::Compiler dispatch['BOOLEAN']" % DER, 'DER BOOLEAN no longer encodes through ber.Boolean.encode_content', stmt='boolean class')

    # ---- R8
    for rel, fn, var in ((BER, 'encode_object_identifier_subidentifier', 'subidentifier'), (BER, 'encode_tag', 'number'), ('asn1tools/codecs/oer.py', 'encode_tag', 'number')):
        f = model.func(rel, fn)
        var = flow.param_names(f)[0]
        # the function and the module-level helpers it hands the number to
        fam = [(f, var)] + [(g, pn) for g, pn, _c in excmap.buffer_helpers(f, var)]
        shifts = set()
        allowed_first = {31} if (rel == BER and fn == 'encode_tag') else ({63} if fn == 'encode_tag' else set())
        bad = []
        for g, gv in fam:
            shifts |= {n.value.value for n in walk_no_nested(g) if isinstance(n, ast.AugAssign) and isinstance(n.op, ast.RShift) and isinstance(n.value, ast.Constant)}
            shifts |= {n.right.value for n in walk_no_nested(g) if isinstance(n, ast.BinOp) and isinstance(n.op, ast.RShift) and isinstance(n.right, ast.Constant)
                       and isinstance(n.left, ast.Name) and n.left.id == gv}
            for n in walk_no_nested(g):
                if isinstance(n, ast.Compare) and isinstance(n.left, ast.Name) and n.left.id == gv and isinstance(n.comparators[0], ast.Constant) and isinstance(n.comparators[0].value, int):
                    c = n.comparators[0].value
                    if c == 0 or c in allowed_first:
                        continue
                    k = c
                    if isinstance(n.ops[0], (ast.LtE, ast.Gt)):
                        k = c + 1
                    p = 128
                    while p < k:
                        p *= 128
                    if p != k:
                        bad.append((n, c, g))
        verdict = 'ok' if not bad and shifts == {7} else ('undecided' if not bad and not shifts else 'VIOLATION')
        ctx.instance('C03.R8', '%s: thresholds on %s are powers of 128 (shifts %s)' % (Model.qual(f), var, sorted(shifts)), verdict,
                     'no constant right shift of the number found' if verdict == 'undecided' else '', node=f, file=rel)
        for n, c, g in bad:
            ctx.violation('C03.R8', rel, n, Model.qual(g),
                          'base-128 encoder compares %s with %d (0x%x), which is not a power of 128: a group of 7 bits carries values below 128**k only, so numbers between the '
                          'nearest power of 128 and %d lose their top bits' % (var, c, c, c), stmt=ast.unparse(n))
        if shifts and shifts != {7}:
            ctx.violation('C03.R8', rel, f, Model.qual(f), 'base-128 encoder must shift by 7 bits per octet, found %s' % sorted(shifts), stmt='shift width')

    # ---- R9: the conversion helpers (restricted_utc_time_from_datetime, ...) normalise the instant themselves (move it to UTC, cut the fraction).  A caller that also adjusts
    #      the value before handing it over applies the adjustment twice: `data -= data.utcoffset()` keeps the tzinfo, so the helper subtracts the offset again.
    ctx.rule('C03.R9', 'time values reach the *_from_datetime conversion unmodified (the helper owns the normalisation to UTC)')
    n9 = 0
    for rel in (DER, BER):
        for c in model.mod(rel).classes.values():
            for f in c.methods.values():
                calls = [x_ for x_ in walk_no_nested(f) if isinstance(x_, ast.Call) and isinstance(x_.func, ast.Name) and x_.func.id.endswith('_from_datetime') and x_.args]
                if not calls:
                    continue
                params = [p_ for p_ in flow.param_names(f) if p_ != 'self']
                for x_ in calls:
                    n9 += 1
                    a_ = x_.args[0]
                    mods = []
                    if isinstance(a_, ast.Name):
                        mods = [y_ for y_ in walk_no_nested(f) if (isinstance(y_, ast.AugAssign) and isinstance(y_.target, ast.Name) and y_.target.id == a_.id)
                                or (isinstance(y_, ast.Assign) and any(isinstance(t_, ast.Name) and t_.id == a_.id for t_ in y_.targets) and a_.id in params)]
                    ok = isinstance(a_, ast.Name) and a_.id in params and not mods
                    arith = not isinstance(a_, ast.Name) and any(isinstance(y_, (ast.BinOp, ast.Call)) for y_ in ast.walk(a_))
                    # arithmetic on the instant is what doubles; a re-binding through a method (astimezone) is left undecided
                    shifted = [y_ for y_ in mods if isinstance(y_, ast.AugAssign) or isinstance(y_.value, ast.BinOp)]
                    arith = arith and any(isinstance(y_, ast.BinOp) and isinstance(y_.op, (ast.Add, ast.Sub)) for y_ in ast.walk(a_))
                    mods = shifted
                    verdict = 'ok' if ok else ('VIOLATION' if mods or arith else 'undecided')
                    ctx.instance('C03.R9', '%s hands %s to %s' % (Model.qual(f), ast.unparse(a_)[:40], x_.func.id), verdict, node=x_, file=rel)
                    if verdict == 'VIOLATION':
                        at_ = mods[0] if mods else x_
                        ctx.violation('C03.R9', rel, at_, Model.qual(f),
                                      'the value is adjusted (`%s`) before it is handed to %s, which moves a time-zone-aware value to UTC itself: subtracting the offset keeps the tzinfo, so the '
                                      'offset is applied twice and the emitted time is not the DER form of the value (12:00+02:00 becomes 08:00Z)'
                                      % (norm_stmt(at_) if mods else ast.unparse(a_)[:60], x_.func.id), stmt='time adjusted before conversion')
    if n9 < 4:
        raise AnalysisError('C03.R9 found only %d time conversions in ber.py / der.py' % n9)


MUTANTS = [
    dict(name='DER OCTET STRING encodes with the constructed tag', file=DER, quick=True,
         old="""    def encode_content(self, data, values=None):
        return data

    def decode_content(self, data, offset, length):
        end_offset = offset + length

        return bytes(data[offset:end_offset]), end_offset""",
         new="""    def encode(self, data, encoded, values=None):
        constructed_tag = bytearray(self.tag)
        constructed_tag[0] |= Encoding.CONSTRUCTED
        self.constructed_tag = constructed_tag
        encoded.extend(self.constructed_tag + encode_length_definite(len(data) + 2) + b'\\x04' + encode_length_definite(len(data)) + data)

    def encode_content(self, data, values=None):
        return data

    def decode_content(self, data, offset, length):
        end_offset = offset + length

        return bytes(data[offset:end_offset]), end_offset""", expect='C03.R4'),
    dict(name='der.UTCTime uses the unrestricted formatter', file=DER, quick=True,
         old="        return restricted_utc_time_from_datetime(data).encode('ascii')", new="        return ber.utc_time_from_datetime(data).encode('ascii')  # unrestricted", expect='C03.R4'),
    dict(name='CHOICE test after the module default', file='asn1tools/codecs/compiler.py', quick=True,
         old="""                if resolved_type_name == 'CHOICE':
                    tag['kind'] = 'EXPLICIT'
                elif self.is_dummy_reference(type_name):
                    tag['kind'] = 'EXPLICIT'
                elif module_tags in ['IMPLICIT', 'EXPLICIT']:
                    tag['kind'] = module_tags""",
         new="""                if module_tags in ['IMPLICIT', 'EXPLICIT']:
                    tag['kind'] = module_tags
                elif resolved_type_name == 'CHOICE':
                    tag['kind'] = 'EXPLICIT'
                elif self.is_dummy_reference(type_name):
                    tag['kind'] = 'EXPLICIT'""", expect='C03.R6'),
    dict(name='DER SET no longer sorted', file=DER,
         old="""                *self.compile_members(type_descriptor['members'],
                                      module_name,
                                      sort_by_tag=True))""", new="""                *self.compile_members(type_descriptor['members'],
                                      module_name))""", expect='C03.R1'),
    dict(name='DER SET OF loses its sort', file=DER, old="        return bytearray().join(sorted(encoded_elements))", new="        return bytearray().join(encoded_elements)", expect='C03.R2'),
    dict(name='OID two-octet fast path up to 0x8000', file=BER,
         old="""def encode_object_identifier_subidentifier(subidentifier):
    encoded = [subidentifier & 0x7f]""",
         new="""def encode_object_identifier_subidentifier(subidentifier):
    if subidentifier < 0x80:
        return [subidentifier]

    if subidentifier < 0x8000:
        return [0x80 | (subidentifier >> 7), subidentifier & 0x7f]

    encoded = [subidentifier & 0x7f]""", expect='C03.R8'),
    dict(name='BOOLEAN TRUE encoded as 0x01', file=BER, old="        return bytearray([0xff * data])", new="        return bytearray([0x01 * data])", expect='C03.R7'),
    dict(name='length short form up to 128', file=BER, old="    if length <= 127:\n        encoded = bytearray([length])", new="    if length <= 128:\n        encoded = bytearray([length])", expect='C03.R7'),
]
MUTANTS.append(dict(name='restricted GeneralizedTime fraction without zero fill', file=INIT,
                    old="""    if date.microsecond > 0:
        string = date.strftime('%Y%m%d%H%M%S.%f').rstrip('0')
    else:
        string = date.strftime('%Y%m%d%H%M%S')

    return string + 'Z'""",
                    new="""    string = date.strftime('%Y%m%d%H%M%S')

    if date.microsecond > 0:
        string += '.{}'.format(date.microsecond).rstrip('0')

    return string + 'Z'""", expect='C03.R4'))
REFACTORS = [
    dict(name='SET sorted when encoding instead of at compile time', file=DER, quick=True,
         edits=[dict(file=DER, old="""                *self.compile_members(type_descriptor['members'],
                                      module_name,
                                      sort_by_tag=True))""", new="""                *self.compile_members(type_descriptor['members'],
                                      module_name))"""),
                dict(file=DER, old="""class SetOf(ArrayType):

    def __init__(self, name, element_type):""", new="""class Set(ber.MembersType):

    def __init__(self, name, root_members, additions):
        super(Set, self).__init__(name, 'SET', Tag.SET, root_members, additions)

    def encode_content(self, data, values=None):
        self.root_members = sorted(self.root_members, key=ber.get_tag_no_encoding)
        return super(Set, self).encode_content(data, values)


class SetOf(ArrayType):

    def __init__(self, name, element_type):""")]),
]

MUTANTS.append(dict(name='ExplicitTag keeps the DEFAULT itself and compares with ==', file=BER,
                    old="""    def is_default(self, value):
        return self.inner.is_default(value)
""", new="""    def is_default(self, value):
        return self.inner.default is not None and value == self.inner.default
""", expect='C03.R3'))

MUTANTS.append(dict(name='high tag numbers start with a redundant 0x80 octet when the number fills its groups', file=BER,
                    old="""        encoded[0] &= 0x7f
        encoded.reverse()
        tag.extend(encoded)

    return tag""", new="""        if number_of_groups_is_full:
            encoded.append(0x80)

        encoded[0] &= 0x7f
        encoded.reverse()
        tag.extend(encoded)

    return tag""", expect='C03.R7', edits=[dict(file=BER, old="""        tag = bytearray([flags | 0x1f])
        encoded = bytearray()
""", new="""        tag = bytearray([flags | 0x1f])
        encoded = bytearray()
        number_of_groups_is_full = number.bit_length() % 7 == 0
"""), dict(file=BER, old="""        encoded[0] &= 0x7f
        encoded.reverse()
        tag.extend(encoded)

    return tag""", new="""        if number_of_groups_is_full:
            encoded.append(0x80)

        encoded[0] &= 0x7f
        encoded.reverse()
        tag.extend(encoded)

    return tag""")]))

MUTANTS.append(dict(name='INTEGER octet count from bit_length without the sign correction', file=BER,
                    old="    byte_length = (8 + (number + (number < 0)).bit_length()) // 8", new="    byte_length = (8 + number.bit_length()) // 8", expect='C03.R7'))
