"""C03 -- DER is the distinguished encoding (obligations visible in code shape; DESIGN.md section 4 C03)."""
import ast

from ..model import AnalysisError, Model, ClassInfo, walk_no_nested, norm_stmt, names_in
from ..callgraph import CallGraph
from .. import flow, dispatch

EXPLANATION = (
    'Each clause is an obligation X.690 10-11 puts on a DER encoder that is visible as a call or class relation: (R1) the DER dispatch compiles '
    'SET with a sort by tag and compile_members sorts under that flag; (R2) the class constructed for SET OF sorts the encoded elements; (R3) '
    'components equal to their DEFAULT are omitted (guard in encode_member; BIT STRING compares cleaned values); (R4) every string/bit/octet '
    'string cell of the DER dispatch encodes through self.tag only -- no encode-reachable function of ber/der reads constructed_tag -- and the '
    'UTCTime/GeneralizedTime cells are der classes whose encode path uses the restricted time formatters only; (R5) the only length writer on '
    'encode paths is encode_length_definite and END_OF_CONTENTS_OCTETS is never referenced there; (R6) a tagged CHOICE (and a dummy reference) is '
    'made EXPLICIT before the module default is applied; (R7) minimal length and tag octets: encode_length_definite short form <= 127 and a '
    'shortest-form loop, encode_tag low form < 31; BOOLEAN TRUE is 0xFF; (R8) base-128 encoders (OBJECT IDENTIFIER sub-identifiers, high tag '
    'numbers) compare only against powers of 128.  Not decided: byte-for-byte equality with an independent DER encoder; minimal INTEGER octets, '
    'unused-bit zeroing, REAL canonical form, time string contents.')
BER = 'asn1tools/codecs/ber.py'
DER = 'asn1tools/codecs/der.py'
INIT = 'asn1tools/codecs/__init__.py'
STRINGISH = ['UTF8String', 'NumericString', 'PrintableString', 'IA5String', 'VisibleString', 'GeneralString', 'BMPString', 'GraphicString',
             'UniversalString', 'TeletexString', 'ObjectDescriptor', 'BIT STRING', 'OCTET STRING']


def encode_reach(cg, cls):
    """Functions on the encode path of one *specific* class: self.m() is resolved through that class's
    MRO (not through every subclass), super().m() after the defining class, plain names through the
    module; calls on other receivers (children) are not followed."""
    seen = []
    todo = []
    for mn in ('encode', 'encode_content'):
        r = cls.find_method(mn)
        if r:
            todo.append(r)
    while todo:
        owner, f = todo.pop()
        if f in seen or f.name.startswith('decode') or f.name in ('__init__', '__repr__'):
            continue
        seen.append(f)
        for c in walk_no_nested(f):
            if not isinstance(c, ast.Call):
                continue
            fn = c.func
            if isinstance(fn, ast.Attribute) and isinstance(fn.value, ast.Name) and fn.value.id == 'self':
                r = cls.find_method(fn.attr)
                if r:
                    todo.append(r)
            elif isinstance(fn, ast.Attribute) and isinstance(fn.value, ast.Call) and isinstance(fn.value.func, ast.Name) and fn.value.func.id == 'super':
                r = cls.find_method(fn.attr, after=owner)
                if r:
                    todo.append(r)
            elif isinstance(fn, (ast.Name, ast.Attribute)):
                t = f._mod.resolve(fn)
                if isinstance(t, ast.FunctionDef):
                    todo.append((None, t))
    return seen


def check(ctx):
    model = ctx.model
    cg = CallGraph(model)
    tab = dispatch.table(model, 'der')
    ber_tab = dispatch.table(model, 'ber')
    ctx.rule('C03.R1', 'DER SET compiled sorted by tag')
    ctx.rule('C03.R2', 'DER SET OF sorts the encoded elements')
    ctx.rule('C03.R3', 'DEFAULT-valued components omitted; BIT STRING default compared on cleaned values')
    ctx.rule('C03.R4', 'DER encode paths are primitive-only and use the restricted time forms')
    ctx.rule('C03.R5', 'only definite lengths are written')
    ctx.rule('C03.R6', 'tagged CHOICE forced EXPLICIT before the module default')
    ctx.rule('C03.R7', 'minimal length / tag octets; BOOLEAN TRUE = 0xFF')
    ctx.rule('C03.R8', 'base-128 encoders compare only against powers of 128')

    # ---- R1
    cell = tab.cells['SET']
    src = ' '.join(ast.unparse(s) for s in cell.body)
    sort_flag = 'sort_by_tag=True' in src
    enc_sort = False
    if cell.cls is not None:
        for f in encode_reach(cg, cell.cls):
            if any(isinstance(n, ast.Call) and (ast.unparse(n.func) == 'sorted' or (isinstance(n.func, ast.Attribute) and n.func.attr == 'sort')) for n in walk_no_nested(f)) \
                    and f._mod.rel in (BER, DER) and getattr(f, '_cls', None) is not None and f._cls.name in ('Set', 'MembersType'):
                enc_sort = True
    ok = sort_flag or enc_sort
    ctx.instance('C03.R1', "der dispatch['SET']: sort_by_tag=True passed: %s; sort in the encode path: %s" % (sort_flag, enc_sort), 'ok' if ok else 'VIOLATION', node=cell.ctor, file=DER)
    if not ok:
        ctx.violation('C03.R1', DER, cell.ctor or tab.func, "%s::Compiler dispatch['SET']" % DER,
                      'DER must encode SET components in ascending tag order (X.690 10.3); the DER compiler neither passes sort_by_tag=True (as the BER sibling does) nor sorts when encoding',
                      stmt='SET not sorted')
    cm = model.func(BER, 'Compiler.compile_members')
    srt = [n for n in walk_no_nested(cm) if isinstance(n, ast.Call) and ast.unparse(n.func) == 'sorted']
    ok = any(any(pol and ast.unparse(t) == 'sort_by_tag' for t, pol in flow.guards_of(n, cm)) and 'key=get_tag_no_encoding' in ast.unparse(n) for n in srt)
    ctx.instance('C03.R1', 'ber.Compiler.compile_members sorts by get_tag_no_encoding under sort_by_tag', 'ok' if ok else 'VIOLATION', node=cm, file=BER)
    if not ok:
        ctx.violation('C03.R1', BER, cm, Model.qual(cm), 'compile_members no longer sorts the members by tag (without the constructed bit) when sort_by_tag is given', stmt='sort under sort_by_tag')
    g = model.func(BER, 'get_tag_no_encoding')
    ok = '~Encoding.CONSTRUCTED' in ast.unparse(g) and 'member.tag[1:]' in ast.unparse(g)
    ctx.instance('C03.R1', 'get_tag_no_encoding masks the constructed bit and keeps the following tag octets', 'ok' if ok else 'VIOLATION', node=g, file=BER)
    if not ok:
        ctx.violation('C03.R1', BER, g, Model.qual(g), 'the sort key must be the tag without the primitive/constructed bit (X.690 10.3 / X.680 8.6)', stmt='sort key')

    # ---- R2
    cell = tab.cells['SET OF']
    ok = False
    if cell.cls is not None:
        for f in encode_reach(cg, cell.cls):
            if getattr(f, '_cls', None) is not None and f._cls in cell.cls.mro() and \
                    any(isinstance(n, ast.Call) and (ast.unparse(n.func) == 'sorted' or (isinstance(n.func, ast.Attribute) and n.func.attr == 'sort')) for n in walk_no_nested(f)):
                ok = True
    ctx.instance('C03.R2', "der dispatch['SET OF'] -> %s sorts in its encode path" % (cell.cls.qname if cell.cls else '?'), 'ok' if ok else 'VIOLATION', node=cell.ctor, file=DER)
    if not ok:
        ctx.violation('C03.R2', DER, cell.ctor or tab.func, "%s::Compiler dispatch['SET OF']" % DER,
                      'DER must emit the elements of a SET OF in ascending order of their encodings (X.690 11.6); the class constructed for SET OF never sorts', stmt='SET OF not sorted')

    # ---- R3
    em = model.func(BER, 'MembersType.encode_member')
    calls = [c for c in walk_no_nested(em) if isinstance(c, ast.Call) and ast.unparse(c.func) == 'member.encode']
    ok = any(any(pol and 'not member.is_default(' in ast.unparse(t) for t, pol in flow.guards_of(c, em)) for c in calls)
    ctx.instance('C03.R3', 'ber.MembersType.encode_member omits components equal to their DEFAULT', 'ok' if ok else 'VIOLATION', node=em, file=BER)
    if not ok:
        ctx.violation('C03.R3', BER, em, Model.qual(em), 'a component equal to its DEFAULT value is encoded (X.690 11.5 forbids it in DER)', stmt='default omission')
    for rel in (BER, DER):
        f = model.func(rel, 'BitString.is_default')
        src = ast.unparse(f)
        ok = src.count('clean_bit_string_value(') == 2 and 'clean_value == clean_default' in src
        ctx.instance('C03.R3', '%s compares cleaned values' % Model.qual(f), 'ok' if ok else 'VIOLATION', node=f, file=rel)
        if not ok:
            ctx.violation('C03.R3', rel, f, Model.qual(f), 'BIT STRING default comparison must ignore unused bits / trailing zero named bits on both sides', stmt='cleaned comparison')

    # ---- R4
    n4 = 0
    for kind in STRINGISH:
        cell = tab.cells.get(kind)
        if cell is None or cell.cls is None:
            raise AnalysisError("der dispatch has no cell for '%s'" % kind)
        reach = encode_reach(cg, cell.cls)
        bad = None
        for f in reach:
            if f._mod.rel not in (BER, DER):
                continue
            for n in walk_no_nested(f):
                if isinstance(n, ast.Attribute) and n.attr == 'constructed_tag' and isinstance(n.ctx, ast.Load):
                    bad = (f, n)
        n4 += 1
        ctx.instance('C03.R4', "der['%s'] -> %s encodes through self.tag only (%d functions)" % (kind, cell.cls.qname, len(reach)), 'primitive' if bad is None else 'VIOLATION', node=cell.ctor, file=DER)
        if bad is not None:
            ctx.violation('C03.R4', bad[0]._mod.rel, bad[1], "%s::Compiler dispatch['%s']" % (DER, kind),
                          'the DER encode path of %s reads constructed_tag in %s: DER requires the primitive form for string types (X.690 10.2)' % (kind, Model.qual(bad[0])), stmt='constructed form on a DER encode path')
    for kind, must, mustnot in (('UTCTime', 'restricted_utc_time_from_datetime', 'utc_time_from_datetime'),
                                ('GeneralizedTime', 'restricted_generalized_time_from_datetime', 'generalized_time_from_datetime')):
        cell = tab.cells.get(kind)
        names = set()
        for f in encode_reach(cg, cell.cls):
            for c in walk_no_nested(f):
                if isinstance(c, ast.Call) and isinstance(c.func, ast.Name):
                    names.add(c.func.id)
        ok = cell.cls.mod.rel == DER and must in names and mustnot not in names
        n4 += 1
        ctx.instance('C03.R4', "der['%s'] -> %s uses %s" % (kind, cell.cls.qname, must), 'ok' if ok else 'VIOLATION', node=cell.ctor, file=DER)
        if not ok:
            ctx.violation('C03.R4', DER, cell.ctor or tab.func, "%s::Compiler dispatch['%s']" % (DER, kind),
                          'DER %s must be produced by %s (X.690 11.7/11.8: no local time, no fraction trailing zeros, seconds present); the encode path calls %s'
                          % (kind, must, sorted(n for n in names if 'time' in n)), stmt='restricted time form')
    if n4 < 15:
        raise AnalysisError('C03.R4 examined only %d cells' % n4)

    # ---- R5
    roots = []
    for rel in (BER, DER):
        c = model.mod(rel).classes.get('CompiledType')
        if c and 'encode' in c.methods:
            roots.append(c.methods['encode'])
    for cell in list(tab.cells.values()) + list(ber_tab.cells.values()):
        if cell.cls is not None:
            for mn in ('encode', 'encode_content'):
                r = cell.cls.find_method(mn)
                if r:
                    roots.append(r[1])
    reach = cg.reachable(roots, stop=lambda f: f.name.startswith('decode') or f.name in ('__init__', '__repr__', 'format_tag'))
    n5 = 0
    for f in sorted(reach, key=lambda g: (g._mod.rel, g.lineno)):
        if f._mod.rel not in (BER, DER):
            continue
        n5 += 1
        for n in walk_no_nested(f):
            if isinstance(n, ast.Name) and n.id == 'END_OF_CONTENTS_OCTETS':
                ctx.violation('C03.R5', f._mod.rel, n, Model.qual(f), 'an encode path references END_OF_CONTENTS_OCTETS: indefinite lengths are not allowed in DER (X.690 10.1)', stmt='end-of-contents on encode path')
            if isinstance(n, ast.Call) and isinstance(n.func, ast.Name) and 'length' in n.func.id and n.func.id.startswith('encode') and n.func.id != 'encode_length_definite':
                ctx.violation('C03.R5', f._mod.rel, n, Model.qual(f), 'length written by %s instead of encode_length_definite' % n.func.id, stmt='length writer')
    ctx.instance('C03.R5', '%d encode-reachable functions of ber/der: no END_OF_CONTENTS_OCTETS, only encode_length_definite' % n5, 'ok')
    if n5 < 30:
        raise AnalysisError('C03.R5 reached only %d encode functions' % n5)

    # ---- R6
    f = model.func('asn1tools/codecs/compiler.py', 'Compiler.pre_process_tags_type')
    chain = None
    for n in walk_no_nested(f):
        if isinstance(n, ast.If) and ast.unparse(n.test) == "'kind' not in tag":
            chain = n.body[0]
    order = []
    t = chain
    while isinstance(t, ast.If):
        order.append((ast.unparse(t.test), ast.unparse(t.body[0])))
        t = t.orelse[0] if len(t.orelse) == 1 and isinstance(t.orelse[0], ast.If) else None
    tests = [o[0] for o in order]
    ok = len(order) >= 3 and tests[0] == "resolved_type_name == 'CHOICE'" and "'EXPLICIT'" in order[0][1] \
        and 'is_dummy_reference' in tests[1] and "'EXPLICIT'" in order[1][1] and 'module_tags' in tests[2]
    ctx.instance('C03.R6', 'pre_process_tags_type: %s' % tests, 'ok' if ok else 'VIOLATION', node=f, file='asn1tools/codecs/compiler.py')
    if not ok:
        ctx.violation('C03.R6', 'asn1tools/codecs/compiler.py', f, Model.qual(f),
                      'X.680 31.2.7: a tagged CHOICE (and an untagged-type dummy reference) is always EXPLICIT; the tests must precede the module default, found order %s' % tests, stmt='CHOICE before module default')
    rt = [n for n in walk_no_nested(f) if isinstance(n, ast.Assign) and ast.unparse(n.targets[0]) == 'resolved_type_name']
    ok = bool(rt) and 'self.resolve_type_name(type_name, module_name)' in ast.unparse(rt[0].value)
    ctx.instance('C03.R6', 'the CHOICE test is made on the resolved type (through references)', 'ok' if ok else 'VIOLATION', node=f, file='asn1tools/codecs/compiler.py')
    if not ok:
        ctx.violation('C03.R6', 'asn1tools/codecs/compiler.py', f, Model.qual(f), 'the CHOICE test must look through type references (resolve_type_name)', stmt='resolved type')

    # ---- R7
    f = model.func(BER, 'encode_length_definite')
    src = ast.unparse(f)
    ok = 'if length <= 127:' in src and 'while length > 0:' in src and 'encoded.append(128 | len(encoded))' in src and 'encoded.reverse()' in src and 'length >>= 8' in src
    ctx.instance('C03.R7', 'encode_length_definite: short form <= 127, else the fewest octets', 'ok' if ok else 'VIOLATION', node=f, file=BER)
    if not ok:
        ctx.violation('C03.R7', BER, f, Model.qual(f), 'definite lengths must use the short form up to 127 and the minimum number of octets above (X.690 10.1)', stmt='minimal length')
    f = model.func(BER, 'encode_tag')
    ok = 'if number < 31:' in ast.unparse(f)
    ctx.instance('C03.R7', 'encode_tag: low-tag-number form below 31', 'ok' if ok else 'VIOLATION', node=f, file=BER)
    if not ok:
        ctx.violation('C03.R7', BER, f, Model.qual(f), 'tag numbers 0..30 must use the single-octet form (X.690 8.1.2.2)', stmt='low tag form')
    f = model.func(BER, 'Boolean.encode_content')
    ints = sorted({n.value for n in ast.walk(f) if isinstance(n, ast.Constant) and isinstance(n.value, int) and not isinstance(n.value, bool)})
    ok = ints == [255]
    ctx.instance('C03.R7', 'Boolean.encode_content constants %s' % ints, 'ok' if ok else 'VIOLATION', node=f, file=BER)
    if not ok:
        ctx.violation('C03.R7', BER, f, Model.qual(f), 'DER BOOLEAN TRUE is the single octet 0xFF (X.690 11.1)', stmt='boolean true octet')
    cell = tab.cells['BOOLEAN']
    ok = cell.cls is not None and cell.cls.find_method('encode_content')[1] is f
    ctx.instance('C03.R7', 'der BOOLEAN uses that encoder', 'ok' if ok else 'VIOLATION', node=cell.ctor, file=DER)
    if not ok:
        ctx.violation('C03.R7', DER, cell.ctor or tab.func, "%s::Compiler dispatch['BOOLEAN']" % DER, 'DER BOOLEAN no longer encodes through ber.Boolean.encode_content', stmt='boolean class')

    # ---- R8
    for rel, fn, var in ((BER, 'encode_object_identifier_subidentifier', 'subidentifier'), (BER, 'encode_tag', 'number'), ('asn1tools/codecs/oer.py', 'encode_tag', 'number')):
        f = model.func(rel, fn)
        shifts = {n.value.value for n in walk_no_nested(f) if isinstance(n, ast.AugAssign) and isinstance(n.op, ast.RShift) and isinstance(n.value, ast.Constant)}
        allowed_first = {31} if (rel == BER and fn == 'encode_tag') else ({63} if fn == 'encode_tag' else set())
        bad = []
        for n in walk_no_nested(f):
            if isinstance(n, ast.Compare) and isinstance(n.left, ast.Name) and n.left.id == var and isinstance(n.comparators[0], ast.Constant) and isinstance(n.comparators[0].value, int):
                c = n.comparators[0].value
                if c == 0 or c in allowed_first:
                    continue
                k = c
                if isinstance(n.ops[0], (ast.LtE, ast.Gt)):
                    k = c + 1
                p = 128
                while p < k:
                    p *= 128
                if p != k:
                    bad.append((n, c))
        ctx.instance('C03.R8', '%s: thresholds on %s are powers of 128 (shifts %s)' % (Model.qual(f), var, sorted(shifts)), 'ok' if not bad and shifts == {7} else 'VIOLATION', node=f, file=rel)
        for n, c in bad:
            ctx.violation('C03.R8', rel, n, Model.qual(f),
                          'base-128 encoder compares %s with %d (0x%x), which is not a power of 128: a group of 7 bits carries values below 128**k only, so numbers between the '
                          'nearest power of 128 and %d lose their top bits' % (var, c, c, c), stmt=ast.unparse(n))
        if shifts != {7}:
            ctx.violation('C03.R8', rel, f, Model.qual(f), 'base-128 encoder must shift by 7 bits per octet, found %s' % sorted(shifts), stmt='shift width')


MUTANTS = [
    dict(name='DER OCTET STRING encodes with the constructed tag', file=DER, quick=True,
         old="""    def encode_content(self, data, values=None):
        return data

    def decode_content(self, data, offset, length):
        end_offset = offset + length

        return bytes(data[offset:end_offset]), end_offset""",
         new="""    def encode(self, data, encoded, values=None):
        constructed_tag = bytearray(self.tag)
        constructed_tag[0] |= Encoding.CONSTRUCTED
        self.constructed_tag = constructed_tag
        encoded.extend(self.constructed_tag + encode_length_definite(len(data) + 2) + b'\\x04' + encode_length_definite(len(data)) + data)

    def encode_content(self, data, values=None):
        return data

    def decode_content(self, data, offset, length):
        end_offset = offset + length

        return bytes(data[offset:end_offset]), end_offset""", expect='C03.R4'),
    dict(name='der.UTCTime uses the unrestricted formatter', file=DER, quick=True,
         old="        return restricted_utc_time_from_datetime(data).encode('ascii')", new="        return ber.utc_time_from_datetime(data).encode('ascii')  # unrestricted", expect='C03.R4'),
    dict(name='CHOICE test after the module default', file='asn1tools/codecs/compiler.py', quick=True,
         old="""                if resolved_type_name == 'CHOICE':
                    tag['kind'] = 'EXPLICIT'
                elif self.is_dummy_reference(type_name):
                    tag['kind'] = 'EXPLICIT'
                elif module_tags in ['IMPLICIT', 'EXPLICIT']:
                    tag['kind'] = module_tags""",
         new="""                if module_tags in ['IMPLICIT', 'EXPLICIT']:
                    tag['kind'] = module_tags
                elif resolved_type_name == 'CHOICE':
                    tag['kind'] = 'EXPLICIT'
                elif self.is_dummy_reference(type_name):
                    tag['kind'] = 'EXPLICIT'""", expect='C03.R6'),
    dict(name='DER SET no longer sorted', file=DER,
         old="""                *self.compile_members(type_descriptor['members'],
                                      module_name,
                                      sort_by_tag=True))""", new="""                *self.compile_members(type_descriptor['members'],
                                      module_name))""", expect='C03.R1'),
    dict(name='DER SET OF loses its sort', file=DER, old="        return bytearray().join(sorted(encoded_elements))", new="        return bytearray().join(encoded_elements)", expect='C03.R2'),
    dict(name='OID two-octet fast path up to 0x8000', file=BER,
         old="""def encode_object_identifier_subidentifier(subidentifier):
    encoded = [subidentifier & 0x7f]""",
         new="""def encode_object_identifier_subidentifier(subidentifier):
    if subidentifier < 0x80:
        return [subidentifier]

    if subidentifier < 0x8000:
        return [0x80 | (subidentifier >> 7), subidentifier & 0x7f]

    encoded = [subidentifier & 0x7f]""", expect='C03.R8'),
    dict(name='BOOLEAN TRUE encoded as 0x01', file=BER, old="        return bytearray([0xff * data])", new="        return bytearray([0x01 * data])", expect='C03.R7'),
    dict(name='length short form up to 128', file=BER, old="    if length <= 127:\n        encoded = bytearray([length])", new="    if length <= 128:\n        encoded = bytearray([length])", expect='C03.R7'),
]
REFACTORS = [
    dict(name='SET sorted when encoding instead of at compile time', file=DER, quick=True,
         edits=[dict(file=DER, old="""                *self.compile_members(type_descriptor['members'],
                                      module_name,
                                      sort_by_tag=True))""", new="""                *self.compile_members(type_descriptor['members'],
                                      module_name))"""),
                dict(file=DER, old="""class SetOf(ArrayType):

    def __init__(self, name, element_type):""", new="""class Set(ber.MembersType):

    def __init__(self, name, root_members, additions):
        super(Set, self).__init__(name, 'SET', Tag.SET, root_members, additions)

    def encode_content(self, data, values=None):
        self.root_members = sorted(self.root_members, key=ber.get_tag_no_encoding)
        return super(Set, self).encode_content(data, values)


class SetOf(ArrayType):

    def __init__(self, name, element_type):""")]),
]
