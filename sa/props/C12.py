"""C12 -- errors carry the exact path; no foreign exceptions (DESIGN.md section 4 C12)."""
import ast

from ..model import AnalysisError, Model, walk_no_nested, norm_stmt, names_in
from ..callgraph import CallGraph
from .. import flow, siblings, sem

EXPLANATION = (
    'Decided: (R1) every encode/decode/encode_of/decode_of call whose receiver is a named child (bound by iterating or looking up a '
    'self-rooted member collection, a `member`-like parameter, or self._type in a CompiledType) lies in a try whose handler catches '
    'ErrorWithLocation (or a superclass), calls e.add_location(<that receiver>) and re-raises; unnamed pass-through receivers '
    '(element_type, inner, segment, ...) are exempt with a reason each; (R2) add_location appends, location_str reverses and joins with ".", '
    '__str__ prefixes the path; (R3) every data-keyed lookup self.<map>[k] on an encode path is dominated by `k in self.<map>` or enclosed in '
    'try/except KeyError raising EncodeError -- otherwise an unknown CHOICE alternative / ENUMERATED name surfaces as KeyError; '
    '(R4) every raise on an encode path raises EncodeError/ConstraintsError (or NotImplementedError).  '
    'Not decided: that the reported path is the right one for every nesting; arithmetic on ill-typed leaves when check_types=False.')
CODECS = ['ber', 'der', 'per', 'uper', 'oer', 'jer', 'xer', 'gser', 'type_checker', 'constraints_checker']
METHODS = ('encode', 'decode', 'encode_of', 'decode_of')
NAMED_COLLECTIONS = ('root_members', 'members', 'additions', 'optionals', 'name_to_member', 'tag_to_member',
                     'root_index_to_member', 'additions_index_to_member', 'index_to_member', 'name_to_root_index', 'root_name_to_index')
import re
NAMED_RE = re.compile(r'self\.\w*(member|addition|optional)\w*')
# receivers that are deliberately not wrapped, with the reason
EXEMPT_ATTRS = {
    'element_type': 'elements of SEQUENCE OF / SET OF are unnamed by design',
    'inner': 'pass-through wrapper: carries the wrapper own name',
    '_inner': 'pass-through wrapper: carries the wrapper own name',
    'segment': 'OCTET STRING segments of a constructed string are unnamed',
    '_date': 'DATE-TIME parts are unnamed',
    '_time': 'DATE-TIME parts are unnamed',
    'choices': 'ANY DEFINED BY alternative, looked up by value; wrapped by the enclosing member call',
    'permitted_alphabet': 'character mapping object, not a type',
    '_type': None,   # named: handled explicitly
    'type_checker': 'checker of the same type: adds its own location',
    'constraints_checker': 'checker of the same type: adds its own location',
}
NON_TYPE_NAMES = {'self', 'cls', 'encoder', 'decoder', 'data', 'value', 'encoded', 'string', 'json', 'binascii', 'bitstruct',
                  'super', 'segment', 'entry', 'element', 'elem'}


def receiver_kind(recv, f):
    """'named' | 'exempt:<reason>' | 'other'"""
    if isinstance(recv, ast.Attribute) and isinstance(recv.value, ast.Name) and recv.value.id == 'self':
        if recv.attr == '_type':
            return 'named'
        if recv.attr in EXEMPT_ATTRS:
            return 'exempt:' + EXEMPT_ATTRS[recv.attr]
        return 'other'
    if isinstance(recv, ast.Subscript):
        return receiver_kind(recv.value, f)
    if isinstance(recv, ast.Name):
        if recv.id in NON_TYPE_NAMES:
            return 'other'
        srcs = []
        for a in walk_no_nested(f):
            if isinstance(a, ast.Assign) and recv.id in [x for t in a.targets for x in flow.target_names(t)]:
                srcs.append(a.value)
            elif isinstance(a, (ast.For, ast.comprehension)) and recv.id in flow.target_names(a.target):
                srcs.append(a.iter)
        if recv.id in flow.param_names(f):
            srcs.append('param')
        if not srcs:
            return 'other'
        named = False
        for s in srcs:
            if s == 'param':
                if recv.id in ('member', 'addition', 'optional', 'memb'):
                    named = True
                continue
            txt = ast.unparse(s)
            if NAMED_RE.search(txt) or (isinstance(s, ast.Name) and s.id in ('members', 'remaining_members', 'additions')):
                named = True
            for n in ast.walk(s):
                if isinstance(n, ast.Attribute) and n.attr in EXEMPT_ATTRS and EXEMPT_ATTRS[n.attr] and isinstance(n.value, ast.Name) and n.value.id == 'self':
                    return 'exempt:' + EXEMPT_ATTRS[n.attr]
        return 'named' if named else 'other'
    return 'other'


def _handler_adds_location(h, of_text):
    """except <ErrorWithLocation-ish> as e: e.add_location(<of_text>); raise [e]"""
    if not flow.handler_catches(h, ('ErrorWithLocation', 'Exception', 'Error', 'BaseException')) or not h.name:
        return False
    adds = [c for s in h.body for c in ast.walk(s) if isinstance(c, ast.Call) and isinstance(c.func, ast.Attribute)
            and c.func.attr == 'add_location' and isinstance(c.func.value, ast.Name) and c.func.value.id == h.name]
    reraise = any(isinstance(s, ast.Raise) and (s.exc is None or (isinstance(s.exc, ast.Name) and s.exc.id == h.name)) for s in h.body)
    return reraise and any(c.args and ast.unparse(c.args[0]) == of_text for c in adds)


def location_wrappers(model):
    """Helpers that add an element to the location of an error raised while they call into it:
      functions  g(.., p, ..)  whose body is  try: <call> except ErrorWithLocation as e: e.add_location(p); raise
      context managers  class W: __init__(self, x) stores x; __exit__ calls <exc>.add_location(self.<x>) and does not swallow
    -> ({function name: index of p among the positional parameters (after self)}, {class name})"""
    funcs, ctxs = {}, set()
    for m in model.modules.values():
        if not m.rel.startswith('asn1tools/codecs/'):
            continue
        cands = list(m.functions.values()) + [f for c in m.classes.values() for f in c.methods.values()]
        for g in cands:
            params = [p for p in flow.param_names(g) if p not in ('self', 'cls')]
            for t in [n for n in walk_no_nested(g) if isinstance(n, ast.Try)]:
                for h in t.handlers:
                    for i, p in enumerate(params):
                        if _handler_adds_location(h, p):
                            funcs[g.name] = i
        for c in m.classes.values():
            ex = c.methods.get('__exit__')
            ini = c.methods.get('__init__')
            if ex is None or ini is None:
                continue
            stored = {ast.unparse(a.targets[0]): ast.unparse(a.value) for a in walk_no_nested(ini) if isinstance(a, ast.Assign) and len(a.targets) == 1}
            ip = [p for p in flow.param_names(ini) if p != 'self']
            adds = [n for n in walk_no_nested(ex) if isinstance(n, ast.Call) and isinstance(n.func, ast.Attribute) and n.func.attr == 'add_location' and n.args]
            swallows = any(isinstance(r, ast.Return) and isinstance(r.value, ast.Constant) and r.value.value is True for r in walk_no_nested(ex))
            if ip and not swallows and any(stored.get(ast.unparse(a.args[0])) == ip[0] for a in adds):
                ctxs.add(c.name)
    return funcs, ctxs


def wrapper_ok(call, recv, f, wrappers=({}, set())):
    """Is the call inside try ... except ErrorWithLocation as e: e.add_location(<recv>); raise [e]  -- or inside
    `with <LocationContext>(<recv>):` ?"""
    rsrc = ast.unparse(recv)
    for a in flow.ancestors(call):
        if a is f:
            break
        if isinstance(a, ast.With):
            for it in a.items:
                ce = it.context_expr
                if isinstance(ce, ast.Call) and sem.callee_name(ce) in wrappers[1] and ce.args and ast.unparse(ce.args[0]) == rsrc:
                    return True, 'inside with %s(%s)' % (sem.callee_name(ce), rsrc)
    for t in flow.enclosing_try_handlers(call, stop=f):
        for h in t.handlers:
            if not flow.handler_catches(h, ('ErrorWithLocation', 'Exception', 'Error', 'BaseException')):
                continue
            if not h.name:
                continue
            adds = [c for s in h.body for c in ast.walk(s) if isinstance(c, ast.Call) and isinstance(c.func, ast.Attribute)
                    and c.func.attr == 'add_location' and isinstance(c.func.value, ast.Name) and c.func.value.id == h.name]
            reraise = any(isinstance(s, ast.Raise) and (s.exc is None or (isinstance(s.exc, ast.Name) and s.exc.id == h.name)) for s in h.body)
            if not adds:
                return False, 'handler does not call %s.add_location()' % h.name
            if not any(c.args and ast.unparse(c.args[0]) == rsrc for c in adds):
                return False, 'add_location(%s) names a different object than the receiver %s' % (ast.unparse(adds[0].args[0]) if adds[0].args else '', rsrc)
            if not reraise:
                return False, 'handler swallows the error (no re-raise)'
            return True, ''
    return False, 'not inside try/except ErrorWithLocation'


def _raises_encode_error(h):
    """Handler raises EncodeError(...) directly or through a local bound to EncodeError(...)."""
    bound = {}
    for a in ast.walk(h):
        if isinstance(a, ast.Assign) and isinstance(a.targets[0], ast.Name):
            bound[a.targets[0].id] = ast.unparse(a.value)
    for r in ast.walk(h):
        if isinstance(r, ast.Raise) and r.exc is not None:
            src = ast.unparse(r.exc)
            if 'EncodeError' in src:
                return True
            if isinstance(r.exc, ast.Name) and 'EncodeError' in bound.get(r.exc.id, ''):
                return True
    return False


def _entails(fm, text):
    """the condition formula (sem.cond_formula) entails that the canonical literal `text` is true"""
    if fm[0] == 'lit':
        return fm[1] == text and fm[2] is True
    if fm[0] == 'and':
        return any(_entails(x, text) for x in fm[1])
    return bool(fm[1]) and all(_entails(x, text) for x in fm[1])


def check(ctx):
    model = ctx.model
    cg = CallGraph(model)
    ctx.rule('C12.R1', 'named-child encode/decode calls are wrapped: except ErrorWithLocation as e: e.add_location(<receiver>); raise')
    ctx.rule('C12.R2', 'ErrorWithLocation: add_location appends, location_str reverses + joins with ".", __str__ prefixes the path')
    ctx.rule('C12.R3', 'data-keyed lookups on encode paths cannot leak KeyError (membership test or try/except KeyError -> EncodeError)')
    ctx.rule('C12.R4', 'raises on encode paths are EncodeError / ConstraintsError / NotImplementedError')
    ctx.rule('C12.R5', 'the checkers and codecs decide member presence by `name in data`: a present member is always checked')

    # ---- R1
    n_wrapped = 0
    wrappers = location_wrappers(model)
    ctx.extra['location_wrappers'] = {'functions': sorted(wrappers[0]), 'context_managers': sorted(wrappers[1])}
    for name in CODECS:
        rel = 'asn1tools/codecs/%s.py' % name
        m = model.mod(rel)
        for f in [n for n in ast.walk(m.tree) if isinstance(n, ast.FunctionDef)]:
            for call in [n for n in walk_no_nested(f) if isinstance(n, ast.Call)]:
                fn = call.func
                # a call of a location-adding helper with a named child: helper(<child>, ...) is the wrapped call itself
                hn = sem.callee_name(call)
                if hn in wrappers[0] and f.name != hn and len(call.args) > wrappers[0][hn]:
                    child = call.args[wrappers[0][hn]]
                    if receiver_kind(child, f) == 'named':
                        n_wrapped += 1
                        ctx.instance('C12.R1', '%s [%s(%s, ..)]' % (Model.qual(f), hn, ast.unparse(child)), 'wrapped', 'through the location-adding helper', node=call, file=rel)
                    continue
                if not (isinstance(fn, ast.Attribute) and fn.attr in METHODS):
                    continue
                # <child>.encode passed as a bound method to the helper: call_with_location(member, member.encode, ..)
                par = getattr(call, '_parent', None)
                if cg.is_builtin_text_method(call):
                    continue
                kind = receiver_kind(fn.value, f)
                cons = '%s [%s]' % (Model.qual(f), ast.unparse(fn))
                if kind.startswith('exempt:'):
                    ctx.instance('C12.R1', cons, 'exempt', kind[7:], nontrivial=False, node=call, file=rel)
                    continue
                if kind != 'named':
                    continue
                ok, why = wrapper_ok(call, fn.value, f, wrappers)
                if ok:
                    n_wrapped += 1
                ctx.instance('C12.R1', cons, 'wrapped' if ok else 'VIOLATION', why, node=call, file=rel)
                if not ok:
                    ctx.violation('C12.R1', rel, call, Model.qual(f),
                                  'named child call %s: %s -- an error raised below this component loses the component name from its path'
                                  % (ast.unparse(fn), why), stmt=norm_stmt(Model.enclosing_stmt(call)))
    ctx.extra['wrapped_named_child_sites'] = n_wrapped
    if n_wrapped < 25 and not any(f.rule == 'C12.R1' for f in ctx.findings):
        raise AnalysisError('C12.R1 found only %d wrapped named-child call sites (floor 25)' % n_wrapped)

    # ---- R5
    encs = siblings.members_encoders(model, CODECS)
    if len(encs) < 10:
        raise AnalysisError('C12.R5 found only %d members encoders' % len(encs))
    for f in encs:
        bad = siblings.presence_violations(f)
        ctx.instance('C12.R5', Model.qual(f), '`name in data`' if not bad else 'VIOLATION', node=f, file=f._mod.rel)
        for node, why in bad:
            ctx.violation('C12.R5', f._mod.rel, node, Model.qual(f),
                          why + ': a member that is present with the value None (or another falsy value) is skipped, so an ill-typed None is not rejected by the '
                          'type check and surfaces later as a foreign exception or as bytes', stmt='presence by value')

    # ---- R6: both checkers visit every component: the container classes hand every member / element / selected alternative to its own check
    ctx.rule('C12.R6', 'the type checker and the constraints checker visit every member, element and selected alternative (no component is skipped by configuration)')
    from .C11 import containers_recurse
    for rel6 in ('asn1tools/codecs/type_checker.py', 'asn1tools/codecs/constraints_checker.py'):
        for cn, coll, f6, ok in containers_recurse(model, rel6):
            ctx.instance('C12.R6', '%s::%s.encode checks %s' % (rel6, cn, 'every entry of %s' % coll if coll else 'its inner / selected type'), 'ok' if ok else 'VIOLATION', node=f6, file=rel6)
            if not ok:
                ctx.violation('C12.R6', rel6, f6, '%s::%s.encode' % (rel6, cn),
                              'the container no longer hands every child (%s) to the child\'s own check: a component that is skipped is never rejected, so an ill-typed or '
                              'out-of-constraint value reaches the codec and ends as bytes or as a foreign exception without the path' % (coll or 'the selected member'), stmt='recursion')

    # ---- R7: what the type check lets through supports what is done with it next.  A small type inference on every encode method of the type checker: the
    #      isinstance tests that must hold on the non-raising paths give, per component of the value (data, data[0], data[1]), the set of admitted Python types; a
    #      comparison or arithmetic on that component afterwards needs numbers only, len() needs a sized type -- otherwise a value the check lets through raises a
    #      foreign TypeError inside the checker.
    ctx.rule('C12.R7', 'type checker: the types an isinstance test admits for a component support the operations applied to that component afterwards')
    TC = 'asn1tools/codecs/type_checker.py'
    tcm = model.mod(TC)
    NUMERIC = {'int', 'float', 'bool', 'long'}
    SIZED = {'bytes', 'bytearray', 'str', 'unicode', 'list', 'tuple', 'dict', 'set'}

    def type_names(e, depth=0):
        """names of the types an isinstance() second argument denotes, or None"""
        if isinstance(e, ast.Name):
            r_ = tcm.resolve_name(e.id)
            if isinstance(r_, tuple) and r_[0] == 'const' and depth < 3:
                return type_names(r_[1], depth + 1)
            return {e.id}
        if isinstance(e, ast.Tuple):
            out_ = set()
            for x in e.elts:
                t_ = type_names(x, depth)
                if t_ is None:
                    return None
                out_ |= t_
            return out_
        if isinstance(e, ast.Attribute) and isinstance(e.value, ast.Name) and depth < 3:
            # Cls.TYPE / self.TYPE: a class-level attribute
            owner = tcm.classes.get(e.value.id)
            if owner is not None:
                a_ = owner.find_attr(e.attr)
                if a_ is not None:
                    return type_names(a_[1], depth + 1)
        return None
    n7 = 0
    for c7 in tcm.classes.values():
        for f7 in c7.methods.values():
            if not f7.name.startswith('encode') or len(flow.param_names(f7)) < 2:
                continue
            dn = flow.param_names(f7)[1]
            admitted = {}
            for n_ in walk_no_nested(f7):
                if isinstance(n_, ast.Call) and isinstance(n_.func, ast.Name) and n_.func.id == 'isinstance' and len(n_.args) == 2:
                    comp = ast.unparse(n_.args[0])
                    if comp == dn or comp.startswith(dn + '['):
                        t_ = type_names(n_.args[1])
                        if t_ is not None:
                            admitted.setdefault(comp, set()).update(t_)
            if not admitted:
                continue
            for n_ in walk_no_nested(f7):
                need = None
                operands = []
                if isinstance(n_, ast.Compare) and any(isinstance(o, (ast.Lt, ast.LtE, ast.Gt, ast.GtE)) for o in n_.ops):
                    need, operands = 'number', [n_.left] + list(n_.comparators)
                elif isinstance(n_, ast.BinOp) and isinstance(n_.op, (ast.Add, ast.Sub, ast.Mult, ast.FloorDiv, ast.Div, ast.Mod, ast.LShift, ast.RShift)) \
                        and not isinstance(n_.left, ast.Constant) or isinstance(n_, ast.BinOp) and isinstance(n_.op, (ast.Sub, ast.FloorDiv, ast.LShift, ast.RShift)):
                    need, operands = 'number', [n_.left, n_.right]
                elif isinstance(n_, ast.Call) and isinstance(n_.func, ast.Name) and n_.func.id == 'len' and n_.args:
                    need, operands = 'sized', [n_.args[0]]
                if need is None:
                    continue
                for o in operands:
                    comp = ast.unparse(o)
                    if comp not in admitted:
                        continue
                    n7 += 1
                    ok_set = NUMERIC if need == 'number' else SIZED
                    wrong = sorted(admitted[comp] - ok_set)
                    ctx.instance('C12.R7', '%s: %s needs a %s; admitted %s' % (Model.qual(f7), ast.unparse(n_)[:60], need, sorted(admitted[comp])), 'ok' if not wrong else 'VIOLATION', node=n_, file=TC)
                    if wrong:
                        ctx.violation('C12.R7', TC, n_, Model.qual(f7),
                                      'the type check admits %s for %s, but `%s` then needs a %s: a value of type %s passes the check and raises TypeError here -- a foreign exception '
                                      'without the path instead of the encode error' % (sorted(admitted[comp]), comp, ast.unparse(n_)[:80], need, wrong[0]), stmt=norm_stmt(Model.enclosing_stmt(n_)))
    if n7 == 0:
        ctx.instance('C12.R7', 'type checker: no operation on a component guarded by a recognisable isinstance test', 'undecided', 'the checks are not written as isinstance(component, types) in the encode methods',
                     nontrivial=False, file=TC)

    # ---- R2
    INIT = 'asn1tools/codecs/__init__.py'
    ewl = model.cls(INIT, 'ErrorWithLocation')
    al = ewl.methods.get('add_location')
    ls = ewl.methods.get('location_str')
    st = ewl.methods.get('__str__')
    if not (al and ls and st):
        raise AnalysisError('ErrorWithLocation methods vanished')
    par = flow.param_names(al)[1]
    ok = any(isinstance(c, ast.Call) and isinstance(c.func, ast.Attribute) and c.func.attr == 'append' and ast.unparse(c.func.value) == 'self.location'
             and c.args and ast.unparse(c.args[0]) == par for c in walk_no_nested(al))
    ctx.instance('C12.R2', 'add_location appends its argument to self.location', 'ok' if ok else 'VIOLATION', node=al, file=INIT)
    if not ok:
        ctx.violation('C12.R2', INIT, al, Model.qual(al), 'add_location no longer appends the element to self.location (insert/prepend would reverse every path)', stmt='append')
    # location_str: '.'.join(<name of x> for x in <self.location reversed> ...)
    lv = sem.View(ls)
    ok = False
    for r_ in walk_no_nested(ls):
        if not (isinstance(r_, ast.Return) and r_.value is not None):
            continue
        e_ = lv.expr(r_.value)
        if isinstance(e_, ast.Call) and isinstance(e_.func, ast.Attribute) and e_.func.attr == 'join' and isinstance(e_.func.value, ast.Constant) and e_.func.value.value == '.' and e_.args:
            gen = e_.args[0]
            if isinstance(gen, (ast.GeneratorExp, ast.ListComp)):
                it = lv.text(gen.generators[0].iter)
                names_ = any(isinstance(x_, ast.Attribute) and x_.attr == 'name' for x_ in ast.walk(gen.elt))
                ok = it in ('self.location[::-1]', 'reversed(self.location)', 'list(reversed(self.location))') and names_
    # evaluation first (sa/evalexpr.py): location lists of one to four named elements, innermost first, one of them without a name
    from .. import evalexpr as _ev2
    try:
        ev_ok = True
        n_ev = 0
        for names_ in (['c', 'b', 'A'], ['x'], ['leaf', '', 'mid', 'Top'], ['b', 'A'], []):
            r_, _e = _ev2.run_function(ls, {'self.location': [_ev2.Obj(name=nm_) for nm_ in names_]})
            n_ev += 1
            if r_ != '.'.join(nm_ for nm_ in reversed(names_) if nm_):
                ev_ok = False
        ok = ev_ok
    except (_ev2.Unsupported, _ev2.Raised, _ev2.PyRaise):
        pass
    ctx.instance('C12.R2', 'location_str joins reversed names with "."', 'ok' if ok else 'VIOLATION', node=ls, file=INIT)
    if not ok:
        ctx.violation('C12.R2', INIT, ls, Model.qual(ls), 'location_str must join the names of self.location in reverse order (outermost first) with "."', stmt='location_str')

    def path_then_message(f_):
        """some returned text places self.location_str before self.message (separated by ': '), or delegates to the base class"""
        ps_ = sem.paths(f_, resolver=sem.class_resolver(f_._cls)) if getattr(f_, '_cls', None) is not None else sem.paths(f_)
        for p_ in ps_ or []:
            if p_.outcome[0] != 'return' or len(p_.outcome) < 4:
                continue
            t_ = p_.outcome[1]
            if 'super(' in t_ and '__str__()' in t_:
                return True
            i_, j_ = t_.find('self.location_str'), t_.find('self.message')
            if 0 <= i_ and (j_ < 0 or i_ < j_) and (j_ >= 0) and any(isinstance(c_, ast.Constant) and isinstance(c_.value, str) and ': ' in c_.value for c_ in ast.walk(p_.outcome[3])):
                # the template must put the first argument first
                tmpl = [c_.value for c_ in ast.walk(p_.outcome[3]) if isinstance(c_, ast.Constant) and isinstance(c_.value, str) and ': ' in c_.value]
                if not any(re.search(r'\{1\}.*\{0\}', x_) for x_ in tmpl):
                    return True
        return False
    ok = path_then_message(st)
    ctx.instance('C12.R2', '__str__ = "<path>: <message>"', 'ok' if ok else 'VIOLATION', node=st, file=INIT)
    if not ok:
        ctx.violation('C12.R2', INIT, st, Model.qual(st), '__str__ no longer starts with the dotted path', stmt='__str__')
    de = model.cls(INIT, 'DecodeError').methods.get('__str__')
    if de is not None:
        ok = path_then_message(de)
        ctx.instance('C12.R2', 'DecodeError.__str__ = "<path>: <message>..."', 'ok' if ok else 'VIOLATION', node=de, file=INIT)
        if not ok:
            ctx.violation('C12.R2', INIT, de, Model.qual(de), 'DecodeError.__str__ no longer starts with the dotted path', stmt='__str__')
    # initial location: the constructor wraps `location` in a list
    ini = ewl.methods.get('__init__')
    ok = False
    if ini is not None:
        ips = sem.paths(ini, positional=True) or []
        lp = 'ARG%d' % (flow.param_names(ini)[1:].index('location')) if 'location' in flow.param_names(ini) else None
        stores = {(ev[1], p_.has(lp, True), p_.has(lp, False)) for p_ in ips for ev in p_.events if ev[0] == 'store' and ev[1].startswith('self.location = ')}
        ok = lp is not None and any(t_ == 'self.location = [%s]' % lp and (yes or not no) for t_, yes, no in stores) and \
            not any(t_ != 'self.location = [%s]' % lp and yes for t_, yes, no in stores)
    ctx.instance('C12.R2', '__init__ starts the path with the raising element', 'ok' if ok else 'VIOLATION', node=ini, file=INIT)
    if not ok:
        ctx.violation('C12.R2', INIT, ini, Model.qual(ini), 'ErrorWithLocation.__init__ no longer initialises self.location from its location argument', stmt='__init__ location')

    # add_location leaves an element out only when it is flagged as carrying no location or it is the very element recorded last
    al = ewl.methods.get('add_location')
    if al is None:
        raise AnalysisError('ErrorWithLocation.add_location vanished')
    aps = sem.paths(al, positional=True, resolver=sem.class_resolver(ewl))
    if aps is None:
        ctx.instance('C12.R2', 'add_location: elements are left out only as duplicates of the last one', 'undecided', 'too many paths', nontrivial=False, node=al, file=INIT)
    else:
        same = {sem.ccond(sem.parse_expr(x_)) for x_ in ('ARG0 == self.location[-1]', 'ARG0 is self.location[-1]', 'not (ARG0 != self.location[-1])', 'self.location[-1] == ARG0',
                                                          'self.location[-1] is ARG0')}
        n_skip = 0
        bad_path = None
        for p_ in aps:
            if p_.outcome[0] == 'raise':
                continue
            appended = any(ev[0] in ('call', 'in-loop:call') and len(ev) > 3 and isinstance(ev[3].func, ast.Attribute) and ev[3].func.attr in ('append', 'insert', 'extend')
                           and sem.ctext(ev[3].func.value) == 'self.location' for ev in p_.events) or \
                any(ev[0] == 'store' and ev[1].startswith('self.location') for ev in p_.events)
            if appended:
                continue
            n_skip += 1
            lits_ = {(c_[0], c_[1]) for c_ in p_.conds}
            flagged = any(pol_ and 'no_error_location' in t_ for t_, pol_ in lits_)
            duplicate = bool(lits_ & same)
            if not (flagged or duplicate) and bad_path is None:
                bad_path = p_
        ok = bad_path is None and n_skip >= 1
        ctx.instance('C12.R2', 'add_location: %d paths leave the element out, each because it is flagged or is the last recorded element itself' % n_skip,
                     'ok' if ok else 'VIOLATION', node=al, file=INIT)
        if not ok:
            ctx.violation('C12.R2', INIT, al, Model.qual(al),
                          'add_location drops an element that is neither flagged no_error_location nor the element recorded last (path: %s): a level of the dotted path is lost, '
                          'so the error text names a component that does not lead to the offending value' % (bad_path.show()[:200] if bad_path is not None else 'no de-duplication path'),
                          stmt='add_location drops a level')

    # ---- R3 / R4 : encode-reachable functions
    roots = []
    for name in CODECS:
        m = model.mod('asn1tools/codecs/%s.py' % name)
        for c in m.classes.values():
            if c.name in ('CompiledType',) or name in ('type_checker', 'constraints_checker'):
                if 'encode' in c.methods:
                    roots.append(c.methods['encode'])
    reach = cg.reachable(roots)
    n3 = 0
    for f in sorted(reach, key=lambda g: (g._mod.rel, g.lineno)):
        rel = f._mod.rel
        if not rel.startswith('asn1tools/codecs/') or getattr(f, '_cls', None) is None:
            continue
        if not (f.name.startswith('encode') or f.name in ('is_default',)):
            continue
        params = flow.param_names(f)
        if 'data' not in params and 'value' not in params:
            continue
        # a value obtained from a lookup in a self-rooted map is a validated, library-owned value
        def self_map(x):
            return isinstance(x, ast.Attribute) and isinstance(x.value, ast.Name) and x.value.id == 'self'

        def cut(e, f=f):
            if isinstance(e, ast.Subscript) and self_map(e.value) and not isinstance(e.slice, ast.Slice):
                return True
            # self.helper(self.<map>, data): a helper all of whose results are entries of a library-owned map
            if isinstance(e, ast.Call) and isinstance(e.func, ast.Attribute) and isinstance(e.func.value, ast.Name) and e.func.value.id == 'self':
                r = f._cls.find_method(e.func.attr)
                if r is None:
                    return False
                g = r[1]
                gp = [a.arg for a in g.args.args]
                if gp and gp[0] in ('self', 'cls'):
                    gp = gp[1:]
                bound = {pn: a for pn, a in zip(gp, e.args)}
                rets = [n.value for n in walk_no_nested(g) if isinstance(n, ast.Return)]
                if not rets:
                    return False
                for rv in rets:
                    if not (isinstance(rv, ast.Subscript) and not isinstance(rv.slice, ast.Slice)):
                        return False
                    b = rv.value
                    if self_map(b):
                        continue
                    if isinstance(b, ast.Name) and b.id in bound and self_map(bound[b.id]):
                        continue
                    return False
                return True
            return False
        d, ed0 = flow.deps(f, sources={'data'} if 'data' in params else {'value'}, cut=cut)

        def ed(expr):
            out = set()
            for nm in names_in(expr):
                out |= d.get(nm, set())
            return out
        for n in walk_no_nested(f):
            if not (isinstance(n, ast.Subscript) and isinstance(n.ctx, ast.Load)):
                continue
            base = n.value
            if not (isinstance(base, ast.Attribute) and isinstance(base.value, ast.Name) and base.value.id == 'self'):
                continue
            if isinstance(n.slice, ast.Slice):
                continue
            if not ed(n.slice):
                continue     # key not derived from the value being encoded
            n3 += 1
            mapsrc = ast.unparse(base)
            keysrc = ast.unparse(n.slice)
            ok = False
            how = ''
            for t in flow.enclosing_try_handlers(n, stop=f):
                for h in t.handlers:
                    if flow.handler_catches(h, ('KeyError', 'LookupError', 'Exception')) and _raises_encode_error(h):
                        ok = True
                        how = 'try/except KeyError -> EncodeError'
            if not ok:
                want = sem._cmp(n.slice, ast.In(), base)[0]
                for test, pol in flow.guards_of(n, f):
                    # does the guard, with the polarity it has here, entail `key in map`?  (canonical literals: `not k in m`, `k not in m` under
                    # the else arm, conjunctions ...; a disjunction entails it only if every alternative does)
                    if _entails(sem.cond_formula(test, pol), want):
                        ok = True
                        how = 'dominated by membership test'
            cons = '%s [%s[%s]]' % (Model.qual(f), mapsrc, keysrc)
            ctx.instance('C12.R3', cons, how if ok else 'VIOLATION', node=n, file=rel)
            if not ok:
                ctx.violation('C12.R3', rel, n, Model.qual(f),
                              'lookup %s[%s] is keyed by the value being encoded and is neither guarded by a membership test nor inside '
                              'try/except KeyError -> EncodeError: an unknown name raises a bare KeyError (foreign exception, no path)'
                              % (mapsrc, keysrc), stmt='%s[%s]' % (mapsrc, keysrc))
    if n3 < 8 and not any(f.rule == 'C12.R3' for f in ctx.findings):
        raise AnalysisError('C12.R3 examined only %d data-keyed lookups' % n3)
    # (b) the type checker is the first code that sees the caller's value: there, a value that has not been through an isinstance test yet may be of any type, also an
    #     unhashable one -- using it as a dictionary key or set member raises TypeError, not KeyError.  Every method parameter is such a value.
    tcm3 = model.mod('asn1tools/codecs/type_checker.py')
    n3b = 0
    for c3 in tcm3.classes.values():
        for f3 in c3.methods.values():
            if not f3.name.startswith('encode'):
                continue
            ps3 = [p_ for p_ in flow.param_names(f3) if p_ != 'self']
            if not ps3:
                continue
            d3, _e3 = flow.deps(f3, sources=set(ps3))

            def derived(expr, d3=d3, ps3=ps3):
                return any((nm in ps3) or d3.get(nm) for nm in names_in(expr))
            for n in walk_no_nested(f3):
                key = None
                if isinstance(n, ast.Subscript) and isinstance(n.ctx, ast.Load) and not isinstance(n.slice, ast.Slice) and isinstance(n.value, ast.Attribute) \
                        and isinstance(n.value.value, ast.Name) and n.value.value.id == 'self':
                    key = n.slice
                elif isinstance(n, ast.Compare) and len(n.ops) == 1 and isinstance(n.ops[0], (ast.In, ast.NotIn)) and isinstance(n.comparators[0], ast.Attribute) \
                        and isinstance(n.comparators[0].value, ast.Name) and n.comparators[0].value.id == 'self':
                    key = n.left
                elif isinstance(n, ast.Call) and isinstance(n.func, ast.Attribute) and n.func.attr == 'get' and isinstance(n.func.value, ast.Attribute) \
                        and isinstance(n.func.value.value, ast.Name) and n.func.value.value.id == 'self' and n.args:
                    key = n.args[0]
                if key is None or isinstance(key, ast.Constant) or not derived(key):
                    continue
                n3b += 1
                ktxt = ast.unparse(key)
                try:
                    kx = ast.unparse(sem.View(f3).expr(key))         # a local alias of a part of the value (member_name = data[0]) stands for that part
                except Exception:
                    kx = ktxt
                ok = False
                how = ''
                for t in flow.enclosing_try_handlers(n, stop=f3):
                    for h in t.handlers:
                        if flow.handler_catches(h, ('TypeError', 'Exception')):
                            ok, how = True, 'TypeError handled'
                if not ok:
                    # on every path that reaches the lookup an isinstance test of the key has succeeded (the failing arm raised)
                    ps3_ = sem.paths(f3)
                    reach3 = sem.reaching(ps3_, Model.enclosing_stmt(n)) if ps3_ is not None else None
                    if reach3:
                        ok = all(any(c_[1] and (c_[0].startswith('isinstance(%s, ' % ktxt) or c_[0].startswith('isinstance(%s, ' % kx)) for c_ in conds_) or
                                 any('sys.version_info' in c_[0] and not c_[1] for c_ in conds_ if False) for _p, conds_ in reach3)
                        how = 'an isinstance test of the key holds on every path' if ok else ''
                if not ok:
                    # a template method may run the type test in a sibling step before this one: an isinstance test of the same part of the value in another method of
                    # the class (or its bases in this module) leaves the question open rather than answered
                    sib = [g_ for k_ in c3.mro() if k_.mod is tcm3 for g_ in k_.methods.values() if g_ is not f3
                           and any(isinstance(x_, ast.Call) and isinstance(x_.func, ast.Name) and x_.func.id == 'isinstance' and x_.args and ast.unparse(x_.args[0]) in (ktxt, kx)
                                   for x_ in walk_no_nested(g_))]
                    if sib:
                        ctx.instance('C12.R3', '%s key %s (may be unhashable)' % (Model.qual(f3), ktxt[:50]), 'undecided', 'the type test is in %s' % Model.qual(sib[0]), nontrivial=False,
                                     node=n, file=tcm3.rel)
                        continue
                ctx.instance('C12.R3', '%s key %s (may be unhashable)' % (Model.qual(f3), ktxt[:50]), how if ok else 'VIOLATION', node=n, file=tcm3.rel)
                if not ok:
                    ctx.violation('C12.R3', tcm3.rel, n, Model.qual(f3),
                                  '`%s` uses `%s`, a part of the value that no isinstance test has seen yet, as a dictionary key: an ill-typed unhashable value (a list where an INTEGER '
                                  'is expected) raises TypeError, a foreign exception without the path, instead of the encode error of the component' % (ast.unparse(n)[:70], ktxt[:50]),
                                  stmt='unchecked value as key')

    n4 = 0
    for f in sorted(reach, key=lambda g: (g._mod.rel, g.lineno)):
        rel = f._mod.rel
        if not rel.startswith('asn1tools/codecs/'):
            continue
        if not (f.name.startswith('encode') or f.name.startswith('append_') or f.name in ('is_default',)):
            continue
        for n in walk_no_nested(f):
            if not (isinstance(n, ast.Raise) and n.exc is not None):
                continue
            e = n.exc
            if isinstance(e, ast.Name):
                continue
            fn = e.func if isinstance(e, ast.Call) else e
            name = ast.unparse(fn)
            r = f._mod.resolve(fn) if isinstance(fn, (ast.Name, ast.Attribute)) else None
            ok = False
            if hasattr(r, 'mro'):
                names = {c.name for c in r.mro()}
                ok = bool(names & {'EncodeError', 'ConstraintsError'})
            elif name == 'NotImplementedError':
                ok = True
            else:
                # raise <helper>(...): a method / function of the module that builds the error
                g_ = None
                if isinstance(fn, ast.Attribute) and isinstance(fn.value, ast.Name) and fn.value.id in ('self', 'cls') and getattr(f, '_cls', None) is not None:
                    r2 = f._cls.find_method(fn.attr)
                    g_ = r2[1] if r2 else None
                elif isinstance(r, ast.FunctionDef):
                    g_ = r
                if g_ is not None:
                    built = []
                    for x_ in walk_no_nested(g_):
                        if isinstance(x_, ast.Return) and x_.value is not None:
                            v_ = x_.value
                            cfn = v_.func if isinstance(v_, ast.Call) else v_
                            # the class may be a parameter of the factory:  def unexpected(self, error_class, ..): return error_class(..)  -- then the
                            # argument at the raise site names it
                            gp_ = flow.param_names(g_)
                            if isinstance(cfn, ast.Name) and cfn.id in gp_ and isinstance(n.exc, ast.Call):
                                idx_ = gp_.index(cfn.id) - (1 if gp_ and gp_[0] in ('self', 'cls') else 0)
                                if 0 <= idx_ < len(n.exc.args):
                                    cfn = n.exc.args[idx_]
                                    rr = f._mod.resolve(cfn) if isinstance(cfn, (ast.Name, ast.Attribute)) else None
                                    built.append(bool(hasattr(rr, 'mro') and {c.name for c in rr.mro()} & {'EncodeError', 'ConstraintsError'}))
                                    continue
                            rr = g_._mod.resolve(cfn) if isinstance(cfn, (ast.Name, ast.Attribute)) else None
                            built.append(bool(hasattr(rr, 'mro') and {c.name for c in rr.mro()} & {'EncodeError', 'ConstraintsError'}))
                    ok = bool(built) and all(built)
            n4 += 1
            ctx.instance('C12.R4', '%s raise %s' % (Model.qual(f), name), 'library error' if ok else 'VIOLATION', node=n, file=rel)
            if not ok:
                ctx.violation('C12.R4', rel, n, Model.qual(f), 'encode path raises %s, not the library encode/constraints error' % name)
    if n4 < 40:
        raise AnalysisError('C12.R4 saw only %d raises on encode paths' % n4)

    # ---- R8: every component of the path is recorded once.  The path of an encode error is assembled by the enclosing containers: each adds the child it called
    #      (add_location drops a component only when it is the *same object* as the last one).  An EncodeError that is constructed with its raiser as location, or a type that adds
    #      itself, is recorded once more by whoever holds it under another object of the same name (ber.ExplicitTag around the type): "A.a.a: ..." instead of "A.a: ...".
    ctx.rule('C12.R8', 'encode errors are located by the containers only: no EncodeError / ConstraintsError is constructed with a location, no type adds itself to the path')
    n8 = 0
    for m_ in model.modules.values():
        if not m_.rel.startswith('asn1tools/codecs/'):
            continue
        for x_ in ast.walk(m_.tree):
            if not isinstance(x_, ast.Call):
                continue
            fn_ = x_.func
            nm_ = fn_.id if isinstance(fn_, ast.Name) else (fn_.attr if isinstance(fn_, ast.Attribute) else None)
            if nm_ in ('EncodeError', 'ConstraintsError'):
                n8 += 1
                loc_ = [k_ for k_ in x_.keywords if k_.arg == 'location'] or x_.args[1:2]
                bad_ = bool(loc_) and not (isinstance(loc_[0], ast.keyword) and isinstance(loc_[0].value, ast.Constant) and loc_[0].value.value is None)
                if bad_:
                    ctx.instance('C12.R8', '%s:%d %s constructed with a location' % (m_.rel, x_.lineno, nm_), 'VIOLATION', node=x_, file=m_.rel)
                    ctx.violation('C12.R8', m_.rel, x_, '%s::%s' % (m_.rel, Model.qual(Model.enclosing_function(x_)).split('::')[-1] if Model.enclosing_function(x_) is not None else '<module>'),
                                  '%s is constructed with `%s`: the enclosing container adds the child it called as well, and when that child is a wrapper of the same name '
                                  '(an EXPLICIT tag around the type) the component appears twice in the path (`A.a.a: ...`), so the text no longer starts with the path that leads to the component'
                                  % (nm_, ast.unparse(loc_[0])[:60]), stmt='%s(..., location)' % nm_)
    ctx.instance('C12.R8', '%d EncodeError / ConstraintsError constructions in asn1tools/codecs, none carries a location' % n8, 'ok', nontrivial=True)
    if n8 < 30:
        raise AnalysisError('C12.R8 saw only %d error constructions' % n8)

    # ---- R9: what the type check lets through, the codecs can encode - or refuse with the library's own error.  Two places where the check is wider than the codec:
    #      (a) INTEGER: the checker admits `str` (named numbers were meant), and no binary codec converts a str: '<' / bit_length on a str is a TypeError / AttributeError;
    #      (b) OBJECT IDENTIFIER: any str passes, the conversion of the arcs (int(), identifiers[1]) raises ValueError / IndexError for a text that is not a dotted number
    #          list.  (b) is decided by evaluating ber.encode_object_identifier (shared by BER, DER, PER, UPER, OER) on malformed texts.
    ctx.rule('C12.R9', 'the types / texts the type check admits are encodable by the binary codecs, or refused with EncodeError (no TypeError / ValueError / IndexError from the codec)')
    tcm9 = model.mod('asn1tools/codecs/type_checker.py')
    icls9 = tcm9.classes.get('Integer')
    admitted = set()
    if icls9 is not None and 'encode' in icls9.methods:
        for c_ in walk_no_nested(icls9.methods['encode']):
            if isinstance(c_, ast.Call) and isinstance(c_.func, ast.Name) and c_.func.id == 'isinstance' and len(c_.args) == 2:
                t_ = c_.args[1]
                for e_ in (t_.elts if isinstance(t_, ast.Tuple) else [t_]):
                    if isinstance(e_, ast.Name):
                        r_ = tcm9.resolve_name(e_.id)
                        if isinstance(r_, tuple) and r_[0] == 'const' and isinstance(r_[1], ast.Tuple):
                            admitted |= {x_.id for x_ in r_[1].elts if isinstance(x_, ast.Name)}
                        else:
                            admitted.add(e_.id)
    handles = []
    for cn9 in ('ber', 'per', 'oer'):
        k9 = model.mod('asn1tools/codecs/%s.py' % cn9).classes.get('Integer')
        if k9 is None:
            continue
        fam9 = [g_ for kk in k9.mro() for g_ in kk.methods.values() if g_.name.startswith('encode')]
        if any(isinstance(c_, ast.Call) and isinstance(c_.func, ast.Name) and c_.func.id == 'isinstance' and len(c_.args) == 2 and 'str' in ast.unparse(c_.args[1])
               for g_ in fam9 for c_ in walk_no_nested(g_)):
            handles.append(cn9)
    ok9a = 'str' not in admitted or len(handles) == 3
    ctx.instance('C12.R9', 'INTEGER: the type check admits %s; codecs that convert a str: %s' % (sorted(admitted), handles or 'none'), 'ok' if ok9a else 'VIOLATION',
                 node=icls9.methods['encode'] if icls9 is not None and 'encode' in icls9.methods else None, file=tcm9.rel)
    if not ok9a:
        ctx.violation('C12.R9', tcm9.rel, icls9.methods['encode'], 'asn1tools/codecs/type_checker.py::Integer.encode',
                      'the type check admits a str for INTEGER, and no binary codec converts one: encode(INTEGER, "1") raises TypeError (\'<\' not supported between str and int) in BER / DER, '
                      'AttributeError (bit_length) in PER / UPER / OER - a foreign exception without the path - while JER / XER / GSER emit the text as the number', stmt='str admitted for INTEGER')
    from .. import evalexpr as _ev9
    eo9 = model.mod('asn1tools/codecs/ber.py').functions.get('encode_object_identifier')
    foreign = None
    n9 = 0
    if eo9 is not None:
        p9 = flow.param_names(eo9)[0]
        for txt in ('', '1', 'a.b', '1..2', '1.2.x', '.1.2'):
            try:
                _ev9.run_function(eo9, {p9: txt})
                n9 += 1
            except _ev9.Raised as e_:
                n9 += 1
                if not (set(e_.mro or [e_.name]) & {'EncodeError', 'Error', 'ConstraintsError'}):
                    foreign = foreign or (txt, e_.name)
            except _ev9.Unsupported:
                pass
    ctx.instance('C12.R9', 'ber.encode_object_identifier evaluated on %d texts that are not dotted number lists' % n9, 'VIOLATION' if foreign else ('ok' if n9 else 'undecided'),
                 nontrivial=n9 > 0, node=eo9, file='asn1tools/codecs/ber.py')
    if foreign:
        ctx.violation('C12.R9', 'asn1tools/codecs/ber.py', eo9, 'asn1tools/codecs/ber.py::encode_object_identifier',
                      'the type check accepts any str for OBJECT IDENTIFIER; encode_object_identifier(%r) raises %s - a foreign exception without the path to the component - in BER, DER, PER, '
                      'UPER and OER' % foreign, stmt='malformed object identifier text')


OER = 'asn1tools/codecs/oer.py'
PER = 'asn1tools/codecs/per.py'
JER = 'asn1tools/codecs/jer.py'
MUTANTS = [
    dict(name='oer.Choice.encode member call unwrapped', file=OER, quick=True,
         old="""            member = self.name_to_root_member[name]
            encoder.append_bytes(member.tag)
            try:
                member.encode(data[1], encoder)
            except ErrorWithLocation as e:
                # Add member location
                e.add_location(member)
                raise e
""",
         new="""            member = self.name_to_root_member[name]
            encoder.append_bytes(member.tag)
            member.encode(data[1], encoder)
""", expect='C12.R1'),
    dict(name='per decode_root adds the wrong object', file=PER, quick=True,
         old="""                try:
                    value = member.decode(decoder)
                except ErrorWithLocation as e:
                    # Add member location
                    e.add_location(member)
                    raise e
                values[member.name] = value
            elif member.has_default():
                values[member.name] = member.default

        return values

    def decode_additions(self, decoder):
        # Presence bit field.
        length = decoder.read_normally_small_length()""",
         new="""                try:
                    value = member.decode(decoder)
                except ErrorWithLocation as e:
                    # Add member location
                    e.add_location(self)
                    raise e
                values[member.name] = value
            elif member.has_default():
                values[member.name] = member.default

        return values

    def decode_additions(self, decoder):
        # Presence bit field.
        length = decoder.read_normally_small_length()""", expect='C12.R1'),
    dict(name='jer members: handler swallows', file=JER,
         old="""                try:
                    value = member.encode(data[name])
                except ErrorWithLocation as e:
                    # Add member location
                    e.add_location(member)
                    raise e""",
         new="""                try:
                    value = member.encode(data[name])
                except ErrorWithLocation as e:
                    # Add member location
                    e.add_location(member)
                    raise EncodeError(e.message)""", expect='C12.R1'),
    dict(name='location_str not reversed', file='asn1tools/codecs/__init__.py', quick=True,
         old="return '.'.join(loc.name for loc in self.location[::-1] if loc.name)",
         new="return '.'.join(loc.name for loc in self.location if loc.name)", expect='C12.R2'),
    dict(name='ber Choice lookup loses its try', file='asn1tools/codecs/ber.py',
         old="""        try:
            member = self.name_to_member[data[0]]
        except KeyError:
            raise EncodeError(
                "Expected choice {}, but got '{}'.".format(
                    self.format_names(),
                    data[0]))
        try:
            member.encode(data[1], encoded)""",
         new="""        member = self.name_to_member[data[0]]
        try:
            member.encode(data[1], encoded)""", expect='C12.R3'),
]
MUTANTS.append(dict(name='type checker skips members whose value is None', file='asn1tools/codecs/type_checker.py',
                    old="""        for member in self.members:
            name = member.name

            if name in data:
                try:
                    member.encode(data[name])""",
                    new="""        for member in self.members:
            name = member.name
            value = data.get(name)

            if value is not None:
                try:
                    member.encode(value)""", expect='C12.R5'))
REFACTORS = [
    dict(name='bare raise instead of raise e', file=JER, quick=True,
         old="""                try:
                    value = member.encode(data[name])
                except ErrorWithLocation as e:
                    # Add member location
                    e.add_location(member)
                    raise e""",
         new="""                try:
                    value = member.encode(data[name])
                except ErrorWithLocation as e:
                    e.add_location(member)
                    raise"""),
]

MUTANTS.append(dict(name='add_location also drops an element with the name of the last one', file='asn1tools/codecs/__init__.py',
                    old="""                (not self.location or element != self.location[-1])):""",
                    new="""                (not self.location or element.name != self.location[-1].name)):""", expect='C12.R2'))

MUTANTS.append(dict(name='constraints checker walks only the members it considers constrained', file='asn1tools/codecs/constraints_checker.py',
                    old="""        for member in self.members:
            name = member.name""", new="""        for member in [m for m in self.members if m.is_bound()]:
            name = member.name""", expect='C12.R6'))

MUTANTS.append(dict(name='BIT STRING bit count may be a str (shared Integer type tuple)', file='asn1tools/codecs/type_checker.py',
                    old="            or not isinstance(data[1], int)):", new="            or not isinstance(data[1], (int, str))):", expect='C12.R7'))
