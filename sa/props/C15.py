"""C15 -- BER/DER framing helpers agree with the decoder (DESIGN.md section 4 C15)."""
import ast

from ..model import AnalysisError, Model, walk_no_nested, norm_stmt, names_in
from .. import flow

EXPLANATION = (
    'Decided: (R1) the length probe (decode_full_length -> skip_tag_length_contents) and every BER/DER decoder obtain lengths '
    'through the one decode_length function and tags through skip_tag, so they agree on where a message ends by construction; '
    '(R2) decode_full_length maps MissingDataError -> e.offset + e.expected_length and OutOfByteDataError -> None with the subclass '
    'handler first, and MissingDataError is raised with (post-length-octets offset, contents length) in the positions its __init__ '
    'names; (R3) no IndexError can escape from skip_tag/decode_length; (R4) tag continuation constants of encode_tag and skip_tag agree '
    'with each other and X.690 8.1.2.4; (R5) decode_with_length returns the offset of the same decode call whose value it returns, '
    'after the TAG_MISMATCH check; Specification.decode_with_length/decode_length pass them through unchanged.  '
    'Not decided: the numeric answers for all prefixes and tails.')
BER = 'asn1tools/codecs/ber.py'
DER = 'asn1tools/codecs/der.py'
COMP = 'asn1tools/compiler.py'


def check(ctx):
    model = ctx.model
    ber = model.mod(BER)
    ctx.rule('C15.R1', 'probe and decoders share decode_length / skip_tag (agreement by construction)')
    ctx.rule('C15.R2', 'decode_full_length handler order and result mapping; MissingDataError argument positions')
    ctx.rule('C15.R3', 'no IndexError escapes skip_tag/decode_length for a short prefix')
    ctx.rule('C15.R4', 'tag continuation constants agree between encode_tag, skip_tag and X.690 8.1.2.4')
    ctx.rule('C15.R5', 'decode_with_length returns value and offset of one decode call, after the sentinel check; Specification passes through')

    # ---- R1
    dfl = model.func(BER, 'decode_full_length')
    stlc = model.func(BER, 'skip_tag_length_contents')
    calls = [ast.unparse(c.func) for c in walk_no_nested(dfl) if isinstance(c, ast.Call)]
    ok = 'skip_tag_length_contents' in calls
    ctx.instance('C15.R1', '%s -> skip_tag_length_contents' % Model.qual(dfl), 'ok' if ok else 'VIOLATION', node=dfl, file=BER)
    if not ok:
        ctx.violation('C15.R1', BER, dfl, Model.qual(dfl), 'the length probe no longer goes through skip_tag_length_contents', stmt='probe callee')
    c2 = [ast.unparse(c.func) for c in walk_no_nested(stlc) if isinstance(c, ast.Call)]
    ok = 'skip_tag' in c2 and 'decode_length' in c2
    # result = sum(decode_length(...)) or offset+length of the same call
    ret = [r for r in walk_no_nested(stlc) if isinstance(r, ast.Return)]
    shape = bool(ret) and all(ast.unparse(r.value).replace(' ', '') in ('sum(decode_length(data,offset))',) or
                              ('decode_length' in ast.unparse(r.value)) or _is_sum_of_pair(r.value, stlc) for r in ret)
    # enforce_definite must stay True for the probe (indefinite => cannot know) -- default arg
    dl_call = [c for c in walk_no_nested(stlc) if isinstance(c, ast.Call) and ast.unparse(c.func) == 'decode_length']
    ok = ok and shape and all(not any(k.arg == 'enforce_definite' for k in c.keywords) and len(c.args) == 2 for c in dl_call)
    ctx.instance('C15.R1', '%s = skip_tag + decode_length' % Model.qual(stlc), 'ok' if ok else 'VIOLATION', node=stlc, file=BER)
    if not ok:
        ctx.violation('C15.R1', BER, stlc, Model.qual(stlc), 'skip_tag_length_contents no longer returns offset + length from skip_tag and decode_length', stmt='probe shape')
    # der re-exports the same function
    der = model.mod(DER)
    r = der.resolve_name('decode_full_length')
    ok = r is dfl
    ctx.instance('C15.R1', 'der.decode_full_length is ber.decode_full_length', 'ok' if ok else 'VIOLATION', node=der.tree, file=DER)
    if not ok:
        ctx.violation('C15.R1', DER, der.tree.body[0], 'der.decode_full_length', 'DER no longer uses the BER length probe', stmt='der probe')
    # every decoder gets its length via decode_length and (for unknown tags) skip_tag
    for qual in ('StandardDecodeMixin.decode', 'PrimitiveOrConstructedType.decode', 'Any.decode', 'AnyDefinedBy.decode'):
        f = model.func(BER, qual)
        cs = [ast.unparse(c.func) for c in walk_no_nested(f) if isinstance(c, ast.Call)]
        ok = 'decode_length' in cs
        ctx.instance('C15.R1', '%s uses decode_length' % Model.qual(f), 'ok' if ok else 'VIOLATION', node=f, file=BER)
        if not ok:
            ctx.violation('C15.R1', BER, f, Model.qual(f), 'decoder reads the length without decode_length: probe and decoder can disagree', stmt='decoder length reader')
    # no second length reader in ber/der: only decode_length masks with 0x7f after testing 0x80 on encoded[offset]
    for rel in (BER, DER):
        for f in [n for n in ast.walk(model.mod(rel).tree) if isinstance(n, ast.FunctionDef)]:
            if f.name in ('decode_length', 'encode_length_definite', 'encode_tag', 'skip_tag', 'encode_object_identifier_subidentifier',
                          'decode_object_identifier_subidentifier', 'encode_real', 'decode_real_binary', 'decode_real', 'decode_real_special',
                          'decode_real_decimal'):
                continue
            src = ast.unparse(f)
            if '& 127' in src and 'length' in src:
                ctx.violation('C15.R1', rel, f, Model.qual(f), 'a second long-form length reader (& 0x7f on a length octet) outside decode_length')

    # ---- R2
    tries = [n for n in walk_no_nested(dfl) if isinstance(n, ast.Try)]
    if len(tries) != 1:
        raise AnalysisError('decode_full_length: expected one try statement')
    hs = tries[0].handlers
    names = [ast.unparse(h.type) if h.type is not None else '' for h in hs]
    ok = names == ['MissingDataError', 'OutOfByteDataError']
    ctx.instance('C15.R2', '%s handlers %s' % (Model.qual(dfl), names), 'ok' if ok else 'VIOLATION', node=tries[0], file=BER)
    if not ok:
        ctx.violation('C15.R2', BER, tries[0], Model.qual(dfl),
                      'handlers are %s; expected [MissingDataError, OutOfByteDataError] in that order (the first is a subclass of the second: '
                      'swapped or merged, every answer becomes None or an exception escapes)' % names, stmt='handler order')
    else:
        h0, h1 = hs
        r0 = [r for r in ast.walk(h0) if isinstance(r, ast.Return)]
        ok0 = len(r0) == 1 and h0.name and ast.unparse(r0[0].value).replace(' ', '') in (
            '%s.offset+%s.expected_length' % (h0.name, h0.name), '%s.expected_length+%s.offset' % (h0.name, h0.name))
        ctx.instance('C15.R2', '%s MissingDataError -> offset + expected_length' % Model.qual(dfl), 'ok' if ok0 else 'VIOLATION', node=h0, file=BER)
        if not ok0:
            ctx.violation('C15.R2', BER, h0, Model.qual(dfl), 'MissingDataError is not mapped to e.offset + e.expected_length', stmt='MissingDataError mapping')
        r1 = [r for r in ast.walk(h1) if isinstance(r, ast.Return)]
        ok1 = len(r1) == 1 and (r1[0].value is None or (isinstance(r1[0].value, ast.Constant) and r1[0].value.value is None))
        ctx.instance('C15.R2', '%s OutOfByteDataError -> None' % Model.qual(dfl), 'ok' if ok1 else 'VIOLATION', node=h1, file=BER)
        if not ok1:
            ctx.violation('C15.R2', BER, h1, Model.qual(dfl), 'OutOfByteDataError is not mapped to None ("not yet known")', stmt='OutOfByteDataError mapping')
    # the try body returns the probe result unchanged
    body_ret = [r for s in tries[0].body for r in ast.walk(s) if isinstance(r, ast.Return)]
    ok = len(body_ret) == 1 and isinstance(body_ret[0].value, ast.Call) and ast.unparse(body_ret[0].value.func) == 'skip_tag_length_contents' \
        and len(body_ret[0].value.args) == 2 and ast.unparse(body_ret[0].value.args[1]) == '0' \
        and names_in(body_ret[0].value.args[0]) - {'bytearray', 'bytes', 'memoryview'} == {flow.param_names(dfl)[0]} \
        and not any(isinstance(n, (ast.Subscript, ast.BinOp)) for n in ast.walk(body_ret[0].value.args[0]))
    ctx.instance('C15.R2', '%s returns the probe result from offset 0' % Model.qual(dfl), 'ok' if ok else 'VIOLATION', node=dfl, file=BER)
    if not ok:
        ctx.violation('C15.R2', BER, dfl, Model.qual(dfl), 'decode_full_length does not return skip_tag_length_contents(<the whole data>, 0) unchanged (a sliced or offset buffer makes the probe disagree with the decoder for long headers)', stmt='probe result')
    # MissingDataError class hierarchy and constructor positions
    mde = model.cls(BER, 'MissingDataError')
    oob = model.cls(BER, 'OutOfByteDataError')
    ok = oob in mde.mro()
    ctx.instance('C15.R2', 'MissingDataError < OutOfByteDataError', 'ok' if ok else 'VIOLATION', node=mde.node, file=BER)
    if not ok:
        ctx.violation('C15.R2', BER, mde.node, mde.qname, 'MissingDataError is not a subclass of OutOfByteDataError')
    init = mde.methods.get('__init__')
    if init is None:
        raise AnalysisError('MissingDataError.__init__ vanished')
    pn = flow.param_names(init)[1:]
    dl = model.func(BER, 'decode_length')
    raises = [r for r in walk_no_nested(dl) if isinstance(r, ast.Raise) and isinstance(r.exc, ast.Call) and ast.unparse(r.exc.func) == 'MissingDataError']
    if len(raises) != 1:
        raise AnalysisError('decode_length: expected exactly one raise MissingDataError')
    call = raises[0].exc
    amap = {}
    for i, a in enumerate(call.args):
        if i < len(pn):
            amap[pn[i]] = ast.unparse(a)
    for k in call.keywords:
        amap[k.arg] = ast.unparse(k.value)
    ok = amap.get('offset') == 'offset' and amap.get('expected_length') == 'length'
    # and offset at that point is past the length octets: no assignment to offset after the raise's guard other than increments before it
    ctx.instance('C15.R2', 'decode_length raises MissingDataError(offset=%s, expected_length=%s)' % (amap.get('offset'), amap.get('expected_length')),
                 'ok' if ok else 'VIOLATION', node=raises[0], file=BER)
    if not ok:
        ctx.violation('C15.R2', BER, raises[0], Model.qual(dl), 'MissingDataError is constructed with offset=%s expected_length=%s; the probe adds them to obtain the total length'
                      % (amap.get('offset'), amap.get('expected_length')), stmt='MissingDataError arguments')
    # __init__ stores expected_length and passes offset on
    isrc = ast.unparse(init)
    ok = 'self.expected_length = expected_length' in isrc and ('offset' in ast.unparse([c for c in ast.walk(init) if isinstance(c, ast.Call)][0]))
    ctx.instance('C15.R2', 'MissingDataError.__init__ keeps offset and expected_length', 'ok' if ok else 'VIOLATION', node=init, file=BER)
    if not ok:
        ctx.violation('C15.R2', BER, init, Model.qual(init), 'MissingDataError.__init__ no longer records offset/expected_length')

    # ---- R3 (same rule instances as C16.R4, on the probe's two callees)
    for fn in ('skip_tag', 'decode_length'):
        f = model.func(BER, fn)
        buf = flow.param_names(f)[0]
        for n in walk_no_nested(f):
            if isinstance(n, ast.Subscript) and isinstance(n.value, ast.Name) and n.value.id == buf and not isinstance(n.slice, ast.Slice):
                ok = False
                for t in flow.enclosing_try_handlers(n, stop=f):
                    for h in t.handlers:
                        if flow.handler_catches(h, ('IndexError', 'Exception', 'LookupError')) and \
                                any(isinstance(r, ast.Raise) and 'OutOfByteDataError' in ast.unparse(r) for r in ast.walk(h)):
                            ok = True
                ctx.instance('C15.R3', '%s %s' % (Model.qual(f), ast.unparse(n)), 'IndexError mapped' if ok else 'VIOLATION', node=n, file=BER)
                if not ok:
                    ctx.violation('C15.R3', BER, n, Model.qual(f), 'buffer index %s can raise IndexError to the caller of decode_length()/decode_full_length()' % ast.unparse(n))
    # skip_tag: a tag that ends exactly at the end of data is "not yet known" (offset >= len(data) test)
    f = model.func(BER, 'skip_tag')
    ok = any(isinstance(n, ast.If) and ast.unparse(n.test).replace(' ', '') in ('offset>=len(data)', 'len(data)<=offset')
             and any(isinstance(r, ast.Raise) and 'OutOfByteDataError' in ast.unparse(r) for r in n.body) for n in walk_no_nested(f))
    ctx.instance('C15.R3', '%s end-of-data after the identifier octets' % Model.qual(f), 'ok' if ok else 'VIOLATION', node=f, file=BER)
    if not ok:
        ctx.violation('C15.R3', BER, f, Model.qual(f), 'a prefix that ends right after the identifier octets is no longer reported as out of data', stmt='offset >= len(data) test')
    ctx.floor('C15.R3', 4)

    # ---- R4
    et = model.func(BER, 'encode_tag')
    st = model.func(BER, 'skip_tag')
    consts_e = sorted({n.value for n in ast.walk(et) if isinstance(n, ast.Constant) and isinstance(n.value, int) and not isinstance(n.value, bool)})
    consts_s = sorted({n.value for n in ast.walk(st) if isinstance(n, ast.Constant) and isinstance(n.value, int) and not isinstance(n.value, bool)})
    ok_e = consts_e == [0, 7, 31, 127, 128]
    ok_s = consts_s == [1, 31, 128]
    ctx.instance('C15.R4', 'encode_tag constants %s' % consts_e, 'ok' if ok_e else 'VIOLATION', node=et, file=BER)
    ctx.instance('C15.R4', 'skip_tag constants %s' % consts_s, 'ok' if ok_s else 'VIOLATION', node=st, file=BER)
    if not ok_e:
        ctx.violation('C15.R4', BER, et, Model.qual(et), 'encode_tag constants %s differ from X.690 8.1.2.4 {31 (0x1f), 0x7f, 0x80, shift 7}' % consts_e, stmt='encode_tag constants')
    if not ok_s:
        ctx.violation('C15.R4', BER, st, Model.qual(st), 'skip_tag constants %s differ from X.690 8.1.2.4 {0x1f, 0x80}' % consts_s, stmt='skip_tag constants')
    # comparison operator:  number < 31 selects the short form
    cmp_ = [n for n in walk_no_nested(et) if isinstance(n, ast.Compare) and isinstance(n.comparators[0], ast.Constant) and n.comparators[0].value == 31]
    ok = len(cmp_) == 1 and isinstance(cmp_[0].ops[0], ast.Lt) and ast.unparse(cmp_[0].left) == 'number'
    ctx.instance('C15.R4', 'encode_tag short form iff number < 31', 'ok' if ok else 'VIOLATION', node=et, file=BER)
    if not ok:
        ctx.violation('C15.R4', BER, et, Model.qual(et), 'low-tag-number form must be used for numbers 0..30 only', stmt='number < 31')
    t = [n for n in walk_no_nested(st) if isinstance(n, ast.Compare) and '31' in ast.unparse(n)]
    ok = len(t) == 1 and ast.unparse(t[0]).replace(' ', '') in ('byte&31==31',)
    ctx.instance('C15.R4', 'skip_tag long form iff byte & 0x1f == 0x1f', 'ok' if ok else 'VIOLATION', node=st, file=BER)
    if not ok:
        ctx.violation('C15.R4', BER, st, Model.qual(st), 'high-tag-number test changed', stmt='byte & 0x1f == 0x1f')

    # ---- R5
    for rel in (BER,):
        f = model.func(rel, 'CompiledType.decode_with_length')
        decs = [c for c in walk_no_nested(f) if isinstance(c, ast.Call) and isinstance(c.func, ast.Attribute) and c.func.attr == 'decode']
        ok = len(decs) == 1
        if ok:
            stt = Model.enclosing_stmt(decs[0])
            ok = isinstance(stt, ast.Assign) and isinstance(stt.targets[0], ast.Tuple) and len(stt.targets[0].elts) == 2
            if ok:
                v, o = [e.id for e in stt.targets[0].elts]
                rets = [r for r in walk_no_nested(f) if isinstance(r, ast.Return)]
                ok = len(rets) == 1 and isinstance(rets[0].value, ast.Tuple) and [ast.unparse(e) for e in rets[0].value.elts] == [v, o]
                # no re-binding of v / o between
                for a in walk_no_nested(f):
                    if isinstance(a, (ast.Assign, ast.AugAssign)) and a is not stt:
                        tg = a.targets[0] if isinstance(a, ast.Assign) else a.target
                        if set(flow.target_names(tg)) & {v, o}:
                            ok = False
                # start offset 0
                ok = ok and len(decs[0].args) >= 2 and ast.unparse(decs[0].args[1]) == '0'
                # sentinel check present
                ok = ok and any(isinstance(c, ast.Call) and ast.unparse(c.func) == 'check_decode_error' for c in walk_no_nested(f))
        ctx.instance('C15.R5', Model.qual(f), 'ok' if ok else 'VIOLATION', node=f, file=rel)
        if not ok:
            ctx.violation('C15.R5', rel, f, Model.qual(f), 'decode_with_length must return (value, offset) of the single decode(data, 0) call after check_decode_error', stmt='decode_with_length shape')
        g = model.func(rel, 'CompiledType.decode')
        ok = _returns_result_of(g, 'self.decode_with_length')
        ctx.instance('C15.R5', Model.qual(g), 'ok' if ok else 'VIOLATION', node=g, file=rel)
        if not ok:
            ctx.violation('C15.R5', rel, g, Model.qual(g), 'decode() is no longer decode_with_length()[0]: the two entry points may disagree', stmt='decode = decode_with_length[0]')
    sp = model.func(COMP, 'Specification.decode_with_length')
    rets = [r for r in walk_no_nested(sp) if isinstance(r, ast.Return)]
    asg = [a for a in walk_no_nested(sp) if isinstance(a, ast.Assign) and isinstance(a.value, ast.Call) and ast.unparse(a.value.func).endswith('.decode_with_length')]
    ok = len(rets) == 1 and len(asg) == 1 and isinstance(asg[0].targets[0], ast.Tuple) and \
        [ast.unparse(e) for e in asg[0].targets[0].elts] == [ast.unparse(e) for e in getattr(rets[0].value, 'elts', [])]
    ctx.instance('C15.R5', Model.qual(sp), 'ok' if ok else 'VIOLATION', node=sp, file=COMP)
    if not ok:
        ctx.violation('C15.R5', COMP, sp, Model.qual(sp), 'Specification.decode_with_length does not return the codec result unchanged', stmt='pass-through')
    sl = model.func(COMP, 'Specification.decode_length')
    ok = _returns_result_of(sl, 'self._decode_length')
    ctx.instance('C15.R5', Model.qual(sl), 'ok' if ok else 'VIOLATION', node=sl, file=COMP)
    if not ok:
        ctx.violation('C15.R5', COMP, sl, Model.qual(sl), 'Specification.decode_length does not return the probe result unchanged', stmt='pass-through')
    cd = model.func(COMP, 'compile_dict')
    ok = 'codec.decode_full_length' in ast.unparse(cd)
    ctx.instance('C15.R5', 'compile_dict wires codec.decode_full_length', 'ok' if ok else 'VIOLATION', node=cd, file=COMP)
    if not ok:
        ctx.violation('C15.R5', COMP, cd, Model.qual(cd), 'Specification no longer receives the codec own decode_full_length', stmt='probe wiring')
    ctx.floor('C15.R1', 6)
    ctx.floor('C15.R2', 6)


def _returns_result_of(f, callee):
    """Every return of f returns (a projection of) the result of the single call of `callee`."""
    calls = [c for c in walk_no_nested(f) if isinstance(c, ast.Call) and ast.unparse(c.func) == callee]
    rets = [r for r in walk_no_nested(f) if isinstance(r, ast.Return) and r.value is not None]
    if len(calls) != 1 or not rets:
        return False
    bound = set()
    st = Model.enclosing_stmt(calls[0])
    if isinstance(st, ast.Assign):
        for t in st.targets:
            bound.update(flow.target_names(t))
    for r in rets:
        inside = any(n is calls[0] for n in ast.walk(r.value))
        vianame = bool(bound) and names_in(r.value) <= bound and bool(names_in(r.value))
        if not (inside or vianame):
            return False
        # no arithmetic on the result
        if any(isinstance(n, (ast.BinOp, ast.UnaryOp)) for n in ast.walk(r.value)):
            return False
    return True


def _is_sum_of_pair(expr, f):
    return isinstance(expr, ast.BinOp) and isinstance(expr.op, ast.Add)


MUTANTS = [
    dict(name='except clauses swapped', file=BER, quick=True,
         old="""    except MissingDataError as e:
        return e.offset + e.expected_length
    except OutOfByteDataError:
        return None""",
         new="""    except OutOfByteDataError:
        return None
    except MissingDataError as e:
        return e.offset + e.expected_length""", expect='C15.R2'),
    dict(name='MissingDataError args swapped', file=BER, quick=True,
         old="""            'Expected at least {} contents byte(s), but got {}.'.format(length, data_length - offset),
            offset,
            length
        )""",
         new="""            'Expected at least {} contents byte(s), but got {}.'.format(length, data_length - offset),
            length,
            offset
        )""", expect='C15.R2'),
    dict(name='MissingDataError mapped to None', file=BER,
         old="""    except MissingDataError as e:
        return e.offset + e.expected_length""",
         new="""    except MissingDataError as e:
        return None""", expect='C15.R2'),
    dict(name='probe reports contents length only', file=BER,
         old="""    except MissingDataError as e:
        return e.offset + e.expected_length""",
         new="""    except MissingDataError as e:
        return e.expected_length""", expect='C15.R2'),
    dict(name='skip_tag without try', file=BER,
         old="""    try:
        byte = data[offset]
        offset += 1

        if byte & 0x1f == 0x1f:
            while data[offset] & 0x80:
                offset += 1

            offset += 1
    except IndexError:
        raise OutOfByteDataError('Ran out of data when reading tag',
                                 offset=offset)
""", new="""    byte = data[offset]
    offset += 1

    if byte & 0x1f == 0x1f:
        while data[offset] & 0x80:
            offset += 1

        offset += 1
""", expect='C15.R3'),
    dict(name='encode_tag short form up to 31', file=BER, quick=True,
         old="    if number < 31:\n        tag = bytearray([flags | number])", new="    if number <= 31:\n        tag = bytearray([flags | number])", expect='C15.R4'),
    dict(name='decode_with_length returns start-relative length', file=BER,
         old="""            e.add_location(self._type)
            raise e
        return decoded, offset""", new="""            e.add_location(self._type)
            raise e
        return decoded, len(data)""", expect='C15.R5'),
    dict(name='probe end test relaxed', file=BER,
         old="""    if offset >= len(data):
        raise OutOfByteDataError('Ran out of data when reading tag',
                                 offset=offset)

    return offset""", new="""    if offset > len(data):
        raise OutOfByteDataError('Ran out of data when reading tag',
                                 offset=offset)

    return offset""", expect='C15.R3'),
]
MUTANTS.append(dict(name='probe looks at the first 8 octets only', file=BER,
                    old="return skip_tag_length_contents(bytearray(data), 0)", new="return skip_tag_length_contents(bytearray(data[:8]), 0)", expect='C15.R2'))
REFACTORS = [
    dict(name='probe result via local', file=BER, quick=True,
         old="""    offset = skip_tag(data, offset)

    return sum(decode_length(data, offset))""",
         new="""    offset = skip_tag(data, offset)
    length, offset = decode_length(data, offset)

    return offset + length"""),
]
