"""C15 -- BER/DER framing helpers agree with the decoder (DESIGN.md section 4 C15)."""
import ast

from ..model import AnalysisError, Model, walk_no_nested, norm_stmt, names_in
from .. import excmap, flow, sem

EXPLANATION = (
    'Decided: (R1) the length probe (decode_full_length -> skip_tag_length_contents) and every BER/DER decoder obtain lengths '
    'through the one decode_length function and tags through skip_tag, so they agree on where a message ends by construction; '
    '(R2) decode_full_length maps MissingDataError -> e.offset + e.expected_length and OutOfByteDataError -> None with the subclass '
    'handler first, and MissingDataError is raised with (post-length-octets offset, contents length) in the positions its __init__ '
    'names; (R3) no IndexError can escape from skip_tag/decode_length; (R4) tag continuation constants of encode_tag and skip_tag agree '
    'with each other and X.690 8.1.2.4; (R5) decode_with_length returns the offset of the same decode call whose value it returns, '
    'after the TAG_MISMATCH check; Specification.decode_with_length/decode_length pass them through unchanged.  '
    'Not decided: the numeric answers for all prefixes and tails.')
BER = 'asn1tools/codecs/ber.py'
DER = 'asn1tools/codecs/der.py'
COMP = 'asn1tools/compiler.py'


local_reach = flow.local_reach


def check(ctx):
    model = ctx.model
    ber = model.mod(BER)
    ctx.rule('C15.R1', 'probe and decoders share decode_length / skip_tag (agreement by construction)')
    ctx.rule('C15.R2', 'decode_full_length handler order and result mapping; MissingDataError argument positions')
    ctx.rule('C15.R3', 'no IndexError escapes skip_tag/decode_length for a short prefix')
    ctx.rule('C15.R4', 'tag continuation constants agree between encode_tag, skip_tag and X.690 8.1.2.4')
    ctx.rule('C15.R5', 'decode_with_length returns value and offset of one decode call, after the sentinel check; Specification passes through')

    # ---- R1
    dfl = model.func(BER, 'decode_full_length')
    stlc = model.func(BER, 'skip_tag_length_contents')
    dl = model.func(BER, 'decode_length')
    skt = model.func(BER, 'skip_tag')
    ok = stlc in local_reach(model, dfl)
    ctx.instance('C15.R1', '%s -> skip_tag_length_contents' % Model.qual(dfl), 'ok' if ok else 'VIOLATION', node=dfl, file=BER)
    if not ok:
        ctx.violation('C15.R1', BER, dfl, Model.qual(dfl), 'the length probe no longer goes through skip_tag_length_contents', stmt='probe callee')
    # skip_tag_length_contents(data, offset) = o + l  where (l, o) = decode_length(data, skip_tag(data, offset)), definite lengths enforced
    ps = sem.paths(stlc, positional=True)
    ok = ps is not None and len([p for p in ps if p.outcome[0] == 'return']) >= 1
    why = ''
    for p in (ps or []):
        if p.outcome[0] != 'return':
            continue
        e = p.outcome[3]
        dcalls = [n for n in ast.walk(e) if isinstance(n, ast.Call) and sem.callee_name(n) == 'decode_length']
        texts = {sem.ctext(c) for c in dcalls}
        want = 'decode_length(ARG0, skip_tag(ARG0, ARG1))'
        if texts != {want}:
            ok, why = False, 'the probed length is not read by decode_length(data, skip_tag(data, offset)) with definite lengths enforced: %s' % sorted(texts)
            continue
        is_sum = isinstance(e, ast.Call) and sem.callee_name(e) == 'sum' and len(e.args) == 1 and sem.ctext(e.args[0]) == want
        is_add = sem.ctext(e) == sem.ctext(sem.parse_expr('%s[0] + %s[1]' % (want, want)))
        if not (is_sum or is_add):
            ok, why = False, 'the result is %s, not offset + length of that call' % sem.ctext(e)
    ctx.instance('C15.R1', '%s = skip_tag + decode_length' % Model.qual(stlc), 'ok' if ok else 'VIOLATION', node=stlc, file=BER)
    if not ok:
        ctx.violation('C15.R1', BER, stlc, Model.qual(stlc), 'skip_tag_length_contents no longer returns offset + length from skip_tag and decode_length (%s)' % why, stmt='probe shape')
    # der re-exports the same function
    der = model.mod(DER)
    r = der.resolve_name('decode_full_length')
    ok = r is dfl
    ctx.instance('C15.R1', 'der.decode_full_length is ber.decode_full_length', 'ok' if ok else 'VIOLATION', node=der.tree, file=DER)
    if not ok:
        ctx.violation('C15.R1', DER, der.tree.body[0], 'der.decode_full_length', 'DER no longer uses the BER length probe', stmt='der probe')
    # every decoder gets its length via decode_length (directly or through a helper of the module)
    for qual in ('StandardDecodeMixin.decode', 'PrimitiveOrConstructedType.decode', 'Any.decode', 'AnyDefinedBy.decode'):
        f = model.func(BER, qual)
        ok = dl in local_reach(model, f)
        ctx.instance('C15.R1', '%s uses decode_length' % Model.qual(f), 'ok' if ok else 'VIOLATION', node=f, file=BER)
        if not ok:
            ctx.violation('C15.R1', BER, f, Model.qual(f), 'decoder reads the length without decode_length: probe and decoder can disagree', stmt='decoder length reader')
    # no second length reader in ber/der: only decode_length masks with 0x7f after testing 0x80 on encoded[offset]
    for rel in (BER, DER):
        for f in [n for n in ast.walk(model.mod(rel).tree) if isinstance(n, ast.FunctionDef)]:
            if f.name in ('decode_length', 'encode_length_definite', 'encode_tag', 'skip_tag', 'encode_object_identifier_subidentifier',
                          'decode_object_identifier_subidentifier', 'encode_real', 'decode_real_binary', 'decode_real', 'decode_real_special',
                          'decode_real_decimal'):
                continue
            masks = [n for n in walk_no_nested(f) if isinstance(n, ast.BinOp) and isinstance(n.op, ast.BitAnd)
                     and any(isinstance(x, ast.Constant) and x.value == 0x7f for x in (n.left, n.right))]
            if masks and 'length' in ast.unparse(f) and 'decode' in f.name:
                ctx.violation('C15.R1', rel, f, Model.qual(f), 'a second long-form length reader (& 0x7f on a length octet) outside decode_length')

    # ---- R2
    tries = [n for n in walk_no_nested(dfl) if isinstance(n, ast.Try)]
    if len(tries) != 1:
        raise AnalysisError('decode_full_length: expected one try statement')
    hs = tries[0].handlers
    mde = model.cls(BER, 'MissingDataError')
    oob = model.cls(BER, 'OutOfByteDataError')

    def caught(h):
        if h.type is None:
            return None
        ts = h.type.elts if isinstance(h.type, ast.Tuple) else [h.type]
        return [dfl._mod.resolve(t) for t in ts]
    first_mde = None
    shadow = None
    for i, h in enumerate(hs):
        cs = caught(h)
        if cs is None or any(c is not None and hasattr(c, 'mro') and c is not mde and c in mde.mro() for c in cs) or (cs and any(c is None for c in cs)):
            # catches a base class of MissingDataError (OutOfByteDataError, DecodeError, Exception, bare except)
            if first_mde is None and shadow is None:
                shadow = h
        if cs and any(c is mde for c in cs) and first_mde is None:
            first_mde = h
    ok = first_mde is not None and shadow is None or (first_mde is not None and shadow is not None and hs.index(first_mde) < hs.index(shadow))
    names = [ast.unparse(h.type) if h.type is not None else '' for h in hs]
    ctx.instance('C15.R2', '%s handlers %s' % (Model.qual(dfl), names), 'ok' if ok else 'VIOLATION', node=tries[0], file=BER)
    if not ok:
        ctx.violation('C15.R2', BER, tries[0], Model.qual(dfl),
                      'handlers are %s; MissingDataError must be caught before OutOfByteDataError (the first is a subclass of the second: '
                      'swapped or merged, every answer becomes None or an exception escapes)' % names, stmt='handler order')
    else:
        h0 = first_mde
        h1 = [h for h in hs if h is not h0 and (caught(h) is None or any(c is oob for c in caught(h)))]
        r0 = [r for r in ast.walk(h0) if isinstance(r, ast.Return)]
        ok0 = len(r0) == 1 and h0.name and r0[0].value is not None and \
            sem.ctext(r0[0].value) == sem.ctext(sem.parse_expr('%s.offset + %s.expected_length' % (h0.name, h0.name)))
        ctx.instance('C15.R2', '%s MissingDataError -> offset + expected_length' % Model.qual(dfl), 'ok' if ok0 else 'VIOLATION', node=h0, file=BER)
        if not ok0:
            ctx.violation('C15.R2', BER, h0, Model.qual(dfl), 'MissingDataError is not mapped to e.offset + e.expected_length', stmt='MissingDataError mapping')
        ok1 = bool(h1)
        for h in h1:
            r1 = [r for r in ast.walk(h) if isinstance(r, ast.Return)]
            falls = not r1 and not any(isinstance(x, ast.Raise) for x in ast.walk(h))
            if not (falls or (len(r1) == 1 and (r1[0].value is None or (isinstance(r1[0].value, ast.Constant) and r1[0].value.value is None)))):
                ok1 = False
        ctx.instance('C15.R2', '%s OutOfByteDataError -> None' % Model.qual(dfl), 'ok' if ok1 else 'VIOLATION', node=h1[0] if h1 else dfl, file=BER)
        if not ok1:
            ctx.violation('C15.R2', BER, h1[0] if h1 else dfl, Model.qual(dfl), 'OutOfByteDataError is not mapped to None ("not yet known")', stmt='OutOfByteDataError mapping')
    # the try body returns the probe result unchanged: skip_tag_length_contents(<the whole data>, 0)
    v = sem.View(dfl)
    body_ret = [r for s in tries[0].body for r in ast.walk(s) if isinstance(r, ast.Return)]
    after = [r for s in tries[0].orelse + dfl.body[dfl.body.index(tries[0]) + 1:] for r in ast.walk(s) if isinstance(r, ast.Return)]
    rets = body_ret + after
    ok = len(rets) == 1 and rets[0].value is not None
    if ok:
        e = v.expr(rets[0].value)
        ok = isinstance(e, ast.Call) and sem.callee_name(e) == 'skip_tag_length_contents' and len(e.args) == 2 and ast.unparse(e.args[1]) == '0' \
            and names_in(e.args[0]) - {'bytearray', 'bytes', 'memoryview'} == {flow.param_names(dfl)[0]} \
            and not any(isinstance(n, (ast.Subscript, ast.BinOp)) for n in ast.walk(e.args[0]))
    ctx.instance('C15.R2', '%s returns the probe result from offset 0' % Model.qual(dfl), 'ok' if ok else 'VIOLATION', node=dfl, file=BER)
    if not ok:
        ctx.violation('C15.R2', BER, dfl, Model.qual(dfl), 'decode_full_length does not return skip_tag_length_contents(<the whole data>, 0) unchanged (a sliced or offset buffer makes the probe disagree with the decoder for long headers)', stmt='probe result')
    # ---- R7: the probe itself, by bounded evaluation (sa/excmap.py evaluate_probe): every prefix of the identifier and length octets of definite-length TLVs in every
    #      length form -> None, every longer prefix -> the total length.  When it is decisive the path-shape rules on how MissingDataError is constructed and mapped
    #      are its fall-back only.
    ctx.rule('C15.R7', 'the length probe evaluated on every prefix of definite-length TLVs (all tag and length forms): None while the header is incomplete, the total length afterwards')
    pr_ok, pr_und, pr_bad, pr_why = excmap.evaluate_probe(dfl)
    probe_decided = pr_und == 0 and pr_ok > 0
    ctx.instance('C15.R7', '%s: %d (message, prefix) cases evaluated, %d undecided' % (Model.qual(dfl), pr_ok, pr_und), 'VIOLATION' if pr_bad else ('ok' if probe_decided else 'undecided'),
                 pr_why or '', nontrivial=pr_ok > 0, node=dfl, file=BER)
    if pr_bad:
        ctx.violation('C15.R7', BER, dfl, Model.qual(dfl), pr_bad + ': the probe and the decoder disagree on where the message ends (or the probe answers before it can know)', stmt='probe evaluation')
    # MissingDataError class hierarchy and constructor positions
    ok = oob in mde.mro()
    ctx.instance('C15.R2', 'MissingDataError < OutOfByteDataError', 'ok' if ok else 'VIOLATION', node=mde.node, file=BER)
    if not ok:
        ctx.violation('C15.R2', BER, mde.node, mde.qname, 'MissingDataError is not a subclass of OutOfByteDataError')
    init = mde.methods.get('__init__')
    if init is None:
        raise AnalysisError('MissingDataError.__init__ vanished')
    pn = flow.param_names(init)[1:]
    dps = sem.paths(dl, positional=True)
    if dps is None and not probe_decided:
        raise AnalysisError('decode_length: too many paths')
    rp = [p for p in (dps or []) if p.outcome[0] == 'raise' and p.outcome[1] == 'MissingDataError']
    if not rp and not probe_decided:
        raise AnalysisError('decode_length: no path raises MissingDataError')
    ok = True
    shown = None
    for p in (rp if not probe_decided else []):
        call = sem.subst(p.outcome[3].exc, p.env) if False else None
        node = p.outcome[3]
        exc = sem.bounded(sem.subst(node.exc, p.env))
        amap = {}
        for i, a in enumerate(exc.args):
            if i < len(pn):
                amap[pn[i]] = a
        for k in exc.keywords:
            amap[k.arg] = k.value
        shown = {k: sem.ctext(x) for k, x in amap.items() if k in ('offset', 'expected_length')}
        if 'offset' not in amap or 'expected_length' not in amap:
            ok = False
            continue
        # the probe adds them: they must be exactly the two quantities whose sum was found to exceed the data
        t, pol = sem.ccond(ast.Compare(ast.BinOp(amap['offset'], ast.Add(), amap['expected_length']), [ast.Gt()], [sem.parse_expr('len(ARG0)')]))
        if not p.has(t, pol):
            ok = False
        # and the offset is the position after the length octets = the offset the function would return
        sib = [q for q in dps if q.outcome[0] == 'return' and q.conds[:-1] == p.conds[:-1] and isinstance(q.outcome[3], ast.Tuple)]
        if sib and not (sem.ctext(sib[0].outcome[3].elts[1]) == sem.ctext(amap['offset']) and sem.ctext(sib[0].outcome[3].elts[0]) == sem.ctext(amap['expected_length'])):
            ok = False
    ctx.instance('C15.R2', 'decode_length raises MissingDataError(%s) on %d paths' % (shown, len(rp)), 'ok' if ok else 'VIOLATION', 'decided by the probe evaluation (R7)' if probe_decided else '',
                 node=rp[0].outcome[3] if rp else dl, file=BER)
    if not ok:
        ctx.violation('C15.R2', BER, rp[0].outcome[3], Model.qual(dl), 'MissingDataError is constructed with %s; the probe adds offset and expected_length to obtain the total length, so they must be '
                      'the offset after the length octets and the contents length' % shown, stmt='MissingDataError arguments')
    # __init__ stores expected_length and passes offset on
    stores = {ast.unparse(t): ast.unparse(a.value) for a in walk_no_nested(init) if isinstance(a, ast.Assign) for t in a.targets}
    sup = [c for c in walk_no_nested(init) if isinstance(c, ast.Call) and isinstance(c.func, ast.Attribute) and c.func.attr == '__init__']
    ok = stores.get('self.expected_length') == 'expected_length' and (stores.get('self.offset') == 'offset' or any('offset' in names_in(c) for c in sup))
    ctx.instance('C15.R2', 'MissingDataError.__init__ keeps offset and expected_length', 'ok' if ok else 'VIOLATION', node=init, file=BER)
    if not ok:
        ctx.violation('C15.R2', BER, init, Model.qual(init), 'MissingDataError.__init__ no longer records offset/expected_length')

    # ---- R3 (same rule instances as C16.R4, on the probe's two callees)
    for fn in ('skip_tag', 'decode_length'):
        f = model.func(BER, fn)
        buf = flow.param_names(f)[0]
        for g, n, ok in excmap.index_sites(f, buf):
            ctx.instance('C15.R3', '%s %s' % (Model.qual(g), ast.unparse(n)), 'IndexError mapped' if ok else 'VIOLATION', node=n, file=BER)
            if not ok:
                ctx.violation('C15.R3', BER, n, Model.qual(g), 'buffer index %s can raise IndexError to the caller of decode_length()/decode_full_length()' % ast.unparse(n))
    # every conversion of a bounded slice of the buffer into a number is preceded, on its path, by a comparison of the number of octets present
    for fn in ('skip_tag', 'decode_length'):
        f = model.func(BER, fn)
        for g, conv, sl, guarded, node in [r if len(r) == 5 else r + (None,) for r in excmap.slice_conversions(f, flow.param_names(f)[0])]:
            if conv is None:
                ctx.instance('C15.R3', '%s slice conversions' % Model.qual(g), 'undecided', 'too many paths', nontrivial=False, node=g, file=BER)
                continue
            ctx.instance('C15.R3', '%s converts %s' % (Model.qual(g), sl), 'octet count compared first' if guarded else 'VIOLATION', node=node, file=BER)
            if not guarded:
                ctx.violation('C15.R3', BER, node, Model.qual(g),
                              '%s is converted to a number on a path that never compared the number of octets present (a Python slice near the end of the data is silently shorter): '
                              'a prefix that ends inside the length octets yields a wrong length instead of "not yet known"' % sl, stmt='unchecked ' + sl)
    dl_ = model.func(BER, 'decode_length')
    n_ok_, n_und_, bad_, und_ = excmap.evaluate_decode_length(dl_)
    ctx.instance('C15.R3', 'decode_length on short, minimal and non-minimal long forms and all their prefixes: %d cases evaluated, %d undecided' % (n_ok_, n_und_),
                 'VIOLATION' if bad_ else ('ok' if n_ok_ else 'undecided'), und_ or '', nontrivial=n_ok_ > 0, node=dl_, file=BER)
    if bad_:
        ctx.violation('C15.R3', BER, dl_, Model.qual(dl_), bad_ + ': the length probe reports a wrong number (or "not yet known" too late) for this prefix', stmt='decode_length evaluation')
    # skip_tag: a tag that ends exactly at the end of data is "not yet known": every returning path has established  returned offset < len(data)
    sps = sem.paths(skt, positional=True)
    ok = sps is not None
    nret = 0
    for p in (sps or []):
        if p.outcome[0] != 'return':
            continue
        nret += 1
        t, pol = sem.ccond(ast.Compare(sem.clone(p.outcome[3]), [ast.GtE()], [sem.parse_expr('len(ARG0)')]))
        if not p.has(t, not pol):
            ok = False
    ok = ok and nret >= 1
    ctx.instance('C15.R3', '%s end-of-data after the identifier octets (%d returning paths)' % (Model.qual(skt), nret), 'ok' if ok else 'VIOLATION', node=skt, file=BER)
    if not ok:
        ctx.violation('C15.R3', BER, skt, Model.qual(skt), 'a prefix that ends right after the identifier octets is no longer reported as out of data', stmt='offset >= len(data) test')
    ctx.floor('C15.R3', 4)

    # ---- R6: a content decoder is handed the whole input buffer with (offset, length); whatever it (or a helper it passes the buffer to)
    #      slices out of that buffer must end at an explicit upper bound -- `buffer[x:]` takes the octets of whatever follows the value too
    ctx.rule('C15.R6', 'content decoders never take an open-ended slice of the whole input buffer')
    n6 = 0
    bm = model.mod(BER)
    dm_ = model.mod('asn1tools/codecs/der.py')
    for m_ in (bm, dm_):
        for c_ in m_.classes.values():
            for mn in ('decode_content', 'decode_primitive_contents', 'decode_constructed_contents', 'decode'):
                f_ = c_.methods.get(mn)
                if f_ is None:
                    continue
                pn = flow.param_names(f_)
                if len(pn) < 3 or pn[0] != 'self':
                    continue
                buf = pn[1]
                fam = [(f_, buf)] + [(g_, p_) for g_, p_, _c in excmap.buffer_helpers(f_, buf, depth=3)]
                for g_, b_ in fam:
                    for n_ in walk_no_nested(g_):
                        if isinstance(n_, ast.Subscript) and isinstance(n_.slice, ast.Slice) and isinstance(n_.value, ast.Name) and n_.value.id == b_:
                            n6 += 1
                            # the parameter may have been re-bound to a bounded slice of itself first
                            rebound = any(isinstance(a_, ast.Assign) and any(isinstance(t_, ast.Name) and t_.id == b_ for t_ in a_.targets)
                                          and isinstance(a_.value, ast.Subscript) and isinstance(a_.value.slice, ast.Slice) and a_.value.slice.upper is not None
                                          and a_.lineno < n_.lineno for a_ in walk_no_nested(g_))
                            ok = n_.slice.upper is not None or rebound
                            ctx.instance('C15.R6', '%s (buffer of %s.%s): %s' % (Model.qual(g_), c_.name, mn, ast.unparse(n_)), 'bounded' if ok else 'VIOLATION', node=n_, file=g_._mod.rel)
                            if not ok:
                                ctx.violation('C15.R6', g_._mod.rel, n_, Model.qual(g_),
                                              '%s is an open-ended slice of the whole input buffer (handed down from %s.%s): the octets that follow this value in the buffer become part '
                                              'of it, so decode_with_length() of a message followed by more data no longer returns the value decode() gives for the message alone'
                                              % (ast.unparse(n_), c_.name, mn), stmt=norm_stmt(Model.enclosing_stmt(n_)))
    if n6 < 10:
        raise AnalysisError('C15.R6 examined only %d buffer slices' % n6)

    # ---- R4  (decided by bounded evaluation: skip_tag on the octets X.690 prescribes, below, and on the octets encode_tag writes, here; the constant tables are the
    #           fall-back for functions the evaluator cannot follow)
    et = model.func(BER, 'encode_tag')
    st = skt
    from .. import evalexpr as _ev4
    etp, stp = flow.param_names(et), flow.param_names(st)
    wr_ok = wr_und = 0
    wr_bad = wr_why = None
    for flags in (0x00, 0x20, 0x40, 0x80, 0xa0, 0xc0, 0xe0):
        for number in (0, 1, 30, 31, 32, 100, 127, 128, 16383, 16384, 2 ** 21 + 1):
            try:
                tag_, _e = _ev4.run_function(et, {etp[0]: number, etp[1]: flags})
                tag_ = bytes(tag_)
                got_, _e = _ev4.run_function(st, {stp[0]: tag_ + b'\x03\x01\x02\x03', stp[1]: 0})
            except _ev4.Raised as e:
                wr_bad = wr_bad or 'skip_tag raises %s on the identifier octets encode_tag(%d, 0x%02x) writes' % (e.name, number, flags)
                continue
            except (_ev4.Unsupported, KeyError, TypeError, IndexError, ValueError) as e:
                wr_und += 1
                wr_why = wr_why or 'encode_tag(%d, 0x%02x) / skip_tag: %s' % (number, flags, e)
                continue
            if got_ != len(tag_):
                wr_bad = wr_bad or 'encode_tag(%d, 0x%02x) writes %s (%d octets), skip_tag stops after %s' % (number, flags, tag_.hex(), len(tag_), got_)
            else:
                wr_ok += 1
    tags_decided = wr_und == 0 and wr_ok > 0
    ctx.instance('C15.R4', 'skip_tag steps over exactly the identifier octets encode_tag writes: %d (number, class/form) cases evaluated, %d undecided' % (wr_ok, wr_und),
                 'VIOLATION' if wr_bad else ('ok' if tags_decided else 'undecided'), wr_why or '', nontrivial=wr_ok > 0, node=st, file=BER)
    if wr_bad:
        ctx.violation('C15.R4', BER, st, Model.qual(st), wr_bad + ': the probe reads the length from the wrong octet', stmt='encode_tag / skip_tag agreement')
    if not tags_decided:
        consts_e = sorted({n.value for n in ast.walk(et) if isinstance(n, ast.Constant) and isinstance(n.value, int) and not isinstance(n.value, bool)})
        consts_s = sorted({n.value for n in ast.walk(st) if isinstance(n, ast.Constant) and isinstance(n.value, int) and not isinstance(n.value, bool)})
        ok_e = {31, 127, 128} <= set(consts_e) <= {0, 1, 7, 8, 31, 127, 128}
        ok_s = {31, 128} <= set(consts_s) <= {0, 1, 2, 31, 128}
        ctx.instance('C15.R4', 'encode_tag constants %s' % consts_e, 'ok' if ok_e else 'VIOLATION', node=et, file=BER)
        ctx.instance('C15.R4', 'skip_tag constants %s' % consts_s, 'ok' if ok_s else 'VIOLATION', node=st, file=BER)
        if not ok_e:
            ctx.violation('C15.R4', BER, et, Model.qual(et), 'encode_tag constants %s differ from X.690 8.1.2.4 {31 (0x1f), 0x7f, 0x80, shift 7}' % consts_e, stmt='encode_tag constants')
        if not ok_s:
            ctx.violation('C15.R4', BER, st, Model.qual(st), 'skip_tag constants %s differ from X.690 8.1.2.4 {0x1f, 0x80}' % consts_s, stmt='skip_tag constants')
        # comparison operator:  number < 31 selects the short form
        eps = sem.paths(et, positional=True) or []
        low = sem.ccond(sem.parse_expr('ARG0 < 31'))
        ok = any(p.has(low[0], low[1]) for p in eps) and any(p.has(low[0], not low[1]) for p in eps)
        ctx.instance('C15.R4', 'encode_tag short form iff number < 31', 'ok' if ok else 'VIOLATION', node=et, file=BER)
        if not ok:
            ctx.violation('C15.R4', BER, et, Model.qual(et), 'low-tag-number form must be used for numbers 0..30 only', stmt='number < 31')
        def is31(x):
            return isinstance(x, ast.Constant) and x.value == 31
        t = [n for n in walk_no_nested(st) if isinstance(n, ast.Compare) and len(n.ops) == 1 and isinstance(n.ops[0], ast.Eq)
             and any(isinstance(a, ast.BinOp) and isinstance(a.op, ast.BitAnd) and (is31(a.left) or is31(a.right)) and is31(b)
                     for a, b in ((n.left, n.comparators[0]), (n.comparators[0], n.left)))]
        ok = len(t) >= 1
        ctx.instance('C15.R4', 'skip_tag long form iff byte & 0x1f == 0x1f', 'ok' if ok else 'VIOLATION', node=st, file=BER)
        if not ok:
            ctx.violation('C15.R4', BER, st, Model.qual(st), 'high-tag-number test changed', stmt='byte & 0x1f == 0x1f')

    # the identifier octets, by bounded evaluation (sa/evalexpr.py): for every class / form and tag numbers around the group boundaries, skip_tag applied to the
    # octets X.690 8.1.2 prescribes, followed by a length octet, stops exactly behind them -- and reports "out of data" when nothing follows
    from .. import evalexpr

    def ref_tag(number, flags):
        if number < 31:
            return bytes([flags | number])
        groups = []
        while number > 0:
            groups.append(number & 0x7f)
            number >>= 7
        groups.reverse()
        return bytes([flags | 0x1f] + [0x80 | g_ for g_ in groups[:-1]] + [groups[-1]])
    sp = flow.param_names(st)
    n_ok = n_und = 0
    bad4 = und4 = None
    for flags in (0x00, 0x20, 0x40, 0x60, 0x80, 0xa0, 0xc0, 0xe0):
        for number in (0, 1, 30, 31, 32, 33, 100, 127, 128, 1000, 16383, 16384, 2 ** 21 + 1):
            tag = ref_tag(number, flags)
            for tail, want in ((b'\x05\x01\x02', len(tag)), (b'', 'raise')):
                try:
                    got, _e = evalexpr.run_function(st, {sp[0]: tag + tail, sp[1]: 0})
                except evalexpr.Raised:
                    got = 'raise'
                except (evalexpr.Unsupported, KeyError, TypeError) as e:
                    n_und += 1
                    und4 = und4 or 'skip_tag(%s): %s' % ((tag + tail).hex(), e)
                    continue
                if got != want:
                    bad4 = bad4 or 'skip_tag(%s, 0) gives %s; the identifier octets of tag number %d (class/form bits 0x%02x) are %s, so it must %s' % (
                        (tag + tail).hex(), got, number, flags, tag.hex(), 'return %d' % want if want != 'raise' else 'report that the data ran out')
                else:
                    n_ok += 1
    ctx.instance('C15.R4', 'skip_tag on the identifier octets of X.690 8.1.2: %d cases evaluated, %d undecided' % (n_ok, n_und), 'VIOLATION' if bad4 else ('ok' if n_ok else 'undecided'),
                 und4 or '', nontrivial=n_ok > 0, node=st, file=BER)
    if bad4:
        ctx.violation('C15.R4', BER, st, Model.qual(st), bad4 + ': the length probe reads the length from the wrong octet and disagrees with the decoder on where the message ends', stmt='skip_tag octets')

    # ---- R5
    for rel in (BER,):
        f = model.func(rel, 'CompiledType.decode_with_length')
        ps = sem.paths(f, positional=True)
        rets = [p for p in (ps or []) if p.outcome[0] == 'return']
        ok = bool(rets)
        for p in rets:
            e = p.outcome[3]
            if not (isinstance(e, ast.Tuple) and len(e.elts) == 2):
                ok = False
                continue
            a, b = e.elts
            # (X[0], X[1]) for one type-level decode call X that starts at offset 0
            if not (isinstance(a, ast.Subscript) and isinstance(b, ast.Subscript) and ast.unparse(a.slice) == '0' and ast.unparse(b.slice) == '1'
                    and sem.ctext(a.value) == sem.ctext(b.value) and isinstance(a.value, ast.Call) and sem.callee_name(a.value) == 'decode'
                    and len(a.value.args) >= 2 and ast.unparse(a.value.args[1]) == '0'):
                ok = False
            if not p.calls('check_decode_error'):
                ok = False
        ctx.instance('C15.R5', Model.qual(f), 'ok' if ok else 'VIOLATION', node=f, file=rel)
        if not ok:
            ctx.violation('C15.R5', rel, f, Model.qual(f), 'decode_with_length must return (value, offset) of the single decode(data, 0) call after check_decode_error', stmt='decode_with_length shape')
        g = model.func(rel, 'CompiledType.decode')
        ok = _projection_of(g, 'decode_with_length')
        ctx.instance('C15.R5', Model.qual(g), 'ok' if ok else 'VIOLATION', node=g, file=rel)
        if not ok:
            ctx.violation('C15.R5', rel, g, Model.qual(g), 'decode() is no longer decode_with_length()[0]: the two entry points may disagree', stmt='decode = decode_with_length[0]')
    sp = model.func(COMP, 'Specification.decode_with_length')
    ok = _projection_of(sp, 'decode_with_length', whole=True)
    ctx.instance('C15.R5', Model.qual(sp), 'ok' if ok else 'VIOLATION', node=sp, file=COMP)
    if not ok:
        ctx.violation('C15.R5', COMP, sp, Model.qual(sp), 'Specification.decode_with_length does not return the codec result unchanged', stmt='pass-through')
    sl = model.func(COMP, 'Specification.decode_length')
    ok = _projection_of(sl, '_decode_length', whole=True)
    ctx.instance('C15.R5', Model.qual(sl), 'ok' if ok else 'VIOLATION', node=sl, file=COMP)
    if not ok:
        ctx.violation('C15.R5', COMP, sl, Model.qual(sl), 'Specification.decode_length does not return the probe result unchanged', stmt='pass-through')
    cd = model.func(COMP, 'compile_dict')
    ok = any(isinstance(n, ast.Attribute) and n.attr == 'decode_full_length' for n in walk_no_nested(cd))
    ctx.instance('C15.R5', 'compile_dict wires the codec\'s decode_full_length', 'ok' if ok else 'VIOLATION', node=cd, file=COMP)
    if not ok:
        ctx.violation('C15.R5', COMP, cd, Model.qual(cd), 'Specification no longer receives the codec own decode_full_length', stmt='probe wiring')
    ctx.floor('C15.R1', 6)
    ctx.floor('C15.R2', 6)


def _projection_of(f, callee, whole=False):
    """Every value f returns is the result of one call of `callee` -- unchanged (whole=True: the result itself or the tuple of its
    components in order) or a component of it -- with no arithmetic applied."""
    ps = sem.paths(f)
    if ps is None:
        return False
    rets = [p for p in ps if p.outcome[0] == 'return']
    if not rets:
        return False
    for p in rets:
        e = p.outcome[3]
        calls = {sem.ctext(c) for c in ast.walk(e) if isinstance(c, ast.Call) and sem.callee_name(c) == callee}
        if len(calls) != 1:
            return False
        ct = list(calls)[0]
        def is_call(x):
            return isinstance(x, ast.Call) and sem.ctext(x) == ct
        def is_comp(x, i=None):
            return isinstance(x, ast.Subscript) and is_call(x.value) and isinstance(x.slice, ast.Constant) and (i is None or x.slice.value == i)
        if is_call(e):
            continue
        if isinstance(e, ast.Tuple) and all(is_comp(x, i) for i, x in enumerate(e.elts)):
            continue
        if not whole and is_comp(e):
            continue
        return False
    return True


def _returns_result_of(f, callee):
    """Every return of f returns (a projection of) the result of the single call of `callee`."""
    calls = [c for c in walk_no_nested(f) if isinstance(c, ast.Call) and ast.unparse(c.func) == callee]
    rets = [r for r in walk_no_nested(f) if isinstance(r, ast.Return) and r.value is not None]
    if len(calls) != 1 or not rets:
        return False
    bound = set()
    st = Model.enclosing_stmt(calls[0])
    if isinstance(st, ast.Assign):
        for t in st.targets:
            bound.update(flow.target_names(t))
    for r in rets:
        inside = any(n is calls[0] for n in ast.walk(r.value))
        vianame = bool(bound) and names_in(r.value) <= bound and bool(names_in(r.value))
        if not (inside or vianame):
            return False
        # no arithmetic on the result
        if any(isinstance(n, (ast.BinOp, ast.UnaryOp)) for n in ast.walk(r.value)):
            return False
    return True


def _is_sum_of_pair(expr, f):
    return isinstance(expr, ast.BinOp) and isinstance(expr.op, ast.Add)


MUTANTS = [
    dict(name='except clauses swapped', file=BER, quick=True,
         old="""    except MissingDataError as e:
        return e.offset + e.expected_length
    except OutOfByteDataError:
        return None""",
         new="""    except OutOfByteDataError:
        return None
    except MissingDataError as e:
        return e.offset + e.expected_length""", expect='C15.R2'),
    # (swapping the two arguments is not a control any more: the probe adds them, so its answers do not change -- the probe evaluation R7 rightly stays silent)
    dict(name='MissingDataError carries the offset before the length octets', file=BER, quick=True,
         old="""            'Expected at least {} contents byte(s), but got {}.'.format(length, data_length - offset),
            offset,
            length
        )""",
         new="""            'Expected at least {} contents byte(s), but got {}.'.format(length, data_length - offset),
            offset - 1,
            length
        )""", expect=('C15.R2', 'C15.R7')),
    dict(name='MissingDataError mapped to None', file=BER,
         old="""    except MissingDataError as e:
        return e.offset + e.expected_length""",
         new="""    except MissingDataError as e:
        return None""", expect='C15.R2'),
    dict(name='probe reports contents length only', file=BER,
         old="""    except MissingDataError as e:
        return e.offset + e.expected_length""",
         new="""    except MissingDataError as e:
        return e.expected_length""", expect='C15.R2'),
    dict(name='skip_tag without try', file=BER,
         old="""    try:
        byte = data[offset]
        offset += 1

        if byte & 0x1f == 0x1f:
            while data[offset] & 0x80:
                offset += 1

            offset += 1
    except IndexError:
        raise OutOfByteDataError('Ran out of data when reading tag',
                                 offset=offset)
""", new="""    byte = data[offset]
    offset += 1

    if byte & 0x1f == 0x1f:
        while data[offset] & 0x80:
            offset += 1

        offset += 1
""", expect='C15.R3'),
    dict(name='encode_tag short form up to 31', file=BER, quick=True,
         old="    if number < 31:\n        tag = bytearray([flags | number])", new="    if number <= 31:\n        tag = bytearray([flags | number])", expect='C15.R4'),
    dict(name='decode_with_length returns start-relative length', file=BER,
         old="""            e.add_location(self._type)
            raise e
        return decoded, offset""", new="""            e.add_location(self._type)
            raise e
        return decoded, len(data)""", expect='C15.R5'),
    dict(name='probe end test relaxed', file=BER,
         old="""    if offset >= len(data):
        raise OutOfByteDataError('Ran out of data when reading tag',
                                 offset=offset)

    return offset""", new="""    if offset > len(data):
        raise OutOfByteDataError('Ran out of data when reading tag',
                                 offset=offset)

    return offset""", expect='C15.R3'),
]
MUTANTS.append(dict(name='probe looks at the first 8 octets only', file=BER,
                    old="return skip_tag_length_contents(bytearray(data), 0)", new="return skip_tag_length_contents(bytearray(data[:8]), 0)", expect='C15.R2'))
REFACTORS = [
    dict(name='probe result via local', file=BER, quick=True,
         old="""    offset = skip_tag(data, offset)

    return sum(decode_length(data, offset))""",
         new="""    offset = skip_tag(data, offset)
    length, offset = decode_length(data, offset)

    return offset + length"""),
]

MUTANTS.append(dict(name='REAL contents decoded in place from the whole buffer with an open-ended mantissa slice', file=BER,
                    old="""        end_offset = offset + length
        decoded = decode_real(data[offset:end_offset])
""", new="""        end_offset = offset + length
        decoded = decode_real_binary(data[offset], data) if length and data[offset] & 0x80 else decode_real(data[offset:end_offset])
""", expect='C15.R6'))

MUTANTS.append(dict(name='skip_tag tests bit 8 of the leading identifier octet as a continuation bit', file=BER,
                    old="""            while data[offset] & 0x80:
                offset += 1

            offset += 1
""", new="""            while byte & 0x80:
                byte = data[offset]
                offset += 1
""", expect='C15.R4'))
