"""C16 -- a truncated encoding is a decode error (guard discipline; DESIGN.md section 4 C16)."""
import ast

from ..model import AnalysisError, Model, walk_no_nested, norm_stmt, names_in
from ..callgraph import CallGraph
from .. import excmap, sem, flow

EXPLANATION = (
    'Argument: a strict prefix drives the decoder along the path of the full encoding until it asks for bits beyond the cut; '
    'if every request is a guarded primitive the first such request raises OutOfDataError.  Decided: (R1) in per/uper/oer Decoder '
    'every method that subtracts from self.number_of_bits, indexes/slices self.value or shifts by an amount derived from '
    'self.number_of_bits is dominated by a remaining-bits test that raises OutOfDataError (self-masking align is the one listed '
    'exception); (R2) nothing outside the Decoder classes writes decoder state or reads decoder.value; (R3) the out-of-data error '
    'classes are DecodeError subclasses; (R4) BER tag matching reports short data as OutOfByteDataError and contents are reached only '
    'after decode_length, whose missing-data test compares offset + length with len(encoded); (R5) every raise in a decode-reachable '
    'function of the binary codecs raises a DecodeError subclass (or NotImplementedError / re-raise).  '
    'Not decided: foreign exceptions raised after a successful read on garbage (C08 territory); value arithmetic.')
ASSUMPTIONS = ['the encoder never emits a whole octet of padding (zero-width trailing reads cannot matter)']

PER = 'asn1tools/codecs/per.py'
UPER = 'asn1tools/codecs/uper.py'
OER = 'asn1tools/codecs/oer.py'
BER = 'asn1tools/codecs/ber.py'
DER = 'asn1tools/codecs/der.py'
INIT = 'asn1tools/codecs/__init__.py'


def is_self_attr(n, attr):
    return isinstance(n, ast.Attribute) and n.attr == attr and isinstance(n.value, ast.Name) and n.value.id == 'self'


def mentions_self_attr(expr, attr):
    return any(is_self_attr(n, attr) for n in ast.walk(expr))


def raw_accesses(f):
    """Raw reads of decoder state in a Decoder method that need a remaining-bits guard:
    (node, kind, amount_expr)"""
    out = []
    # local names derived from self.number_of_bits (offset = self.number_of_read_bits() is derived
    # from total - number_of_bits: an index into value that is valid while number_of_bits >= amount)
    for n in walk_no_nested(f):
        if isinstance(n, ast.AugAssign) and isinstance(n.op, ast.Sub) and is_self_attr(n.target, 'number_of_bits'):
            out.append((n, 'consume', n.value))
        elif isinstance(n, ast.Assign) and any(is_self_attr(t, 'number_of_bits') for t in n.targets) and f.name != '__init__':
            out.append((n, 'assign', n.value))
        elif isinstance(n, ast.Subscript) and is_self_attr(n.value, 'value') and isinstance(n.ctx, ast.Load):
            out.append((n, 'index', n.slice))
        elif isinstance(n, ast.BinOp) and isinstance(n.op, (ast.LShift, ast.RShift)) and mentions_self_attr(n.right, 'number_of_bits') \
                and isinstance(n.right, ast.BinOp) and isinstance(n.right.op, ast.Sub):
            # shift by (self.number_of_bits - k): negative when fewer than k bits remain
            out.append((n, 'shift', n.right))
    return out


NB = 'self.number_of_bits'


def _lits(*srcs):
    out = set()
    for src in srcs:
        t, pol = sem.ccond(sem.parse_expr(src))
        out.add((t, pol))
    return out


def sufficient_facts(kind, amount_text):
    """Condition literals (canonical text, polarity) each of which, established before the access, excludes
    'fewer bits remain than are consumed'."""
    at_least_one = _lits('self.number_of_bits != 0', 'self.number_of_bits > 0', 'self.number_of_bits >= 1', 'not (self.number_of_bits < 1)')
    if kind == 'shift':
        return at_least_one
    if amount_text == '1':
        return at_least_one
    if amount_text is not None:
        return _lits('not (%s > self.number_of_bits)' % amount_text)
    return None


def guard_status(f, node, kind, amount, resolver):
    """-> (ok, why).  Every path of f that executes the statement holding `node` has established, before it, a fact that
    bounds the consumed amount by the remaining bits -- directly or through a checking helper it calls first."""
    ps = sem.paths(f, resolver=resolver)
    if ps is None:
        return None, 'too many paths'
    st = Model.enclosing_stmt(node)
    reach = sem.reaching(ps, st)
    if not reach:
        return None, 'statement not found on any path'
    v = sem.View(f)
    amount_text = None
    if amount is not None and kind in ('consume',):
        amount_text = sem.ctext(v.expr(amount))
    want = sufficient_facts(kind, amount_text)
    for p, conds in reach:
        have = {(c[0], c[1]) for c in conds}
        if kind == 'index' or want is None:
            # value[offset:offset + n] / value[self.number_of_read_bits()]: any established bound of an amount by the remaining bits
            ok = any(NB in t and (' > 0' in t or ' == 0' in t) for t, pol in have)
        else:
            ok = bool(have & want)
        if not ok:
            tests = sorted(('' if pol else 'not ') + t for t, pol in have if NB in t)
            if tests:
                return False, 'the tests established before it (%s) do not bound the amount consumed' % '; '.join(tests)
            return False, 'no remaining-bits test precedes it'
    return True, ''


def check(ctx):
    model = ctx.model
    ctx.rule('C16.R1', 'every raw access to Decoder state is dominated by a remaining-bits test raising OutOfDataError')
    ctx.rule('C16.R2', 'no bypass: outside the Decoder classes nothing stores decoder.number_of_bits/value or reads decoder.value')
    ctx.rule('C16.R3', 'out-of-data errors are DecodeError subclasses (library decode error)')
    ctx.rule('C16.R4', 'BER: short tag data -> OutOfByteDataError; decode_length missing-data test; IndexError on the length octet mapped')
    ctx.rule('C16.R5', 'every raise in a decode-reachable function of ber/der/per/uper/oer raises a DecodeError subclass / NotImplementedError / re-raise')

    # ---- R1
    n_methods = 0
    for rel in (PER, UPER, OER):
        m = model.mod(rel)
        c = m.classes.get('Decoder')
        if c is None:
            raise AnalysisError('Decoder class vanished from %s' % rel)
        for name, f in c.methods.items():
            n_methods += 1
            raws = raw_accesses(f)
            if not raws:
                ctx.instance('C16.R1', Model.qual(f), 'delegates', 'no raw state access', nontrivial=False, node=f, file=rel)
                continue
            bad = []
            undecided = []
            resolver = sem.class_resolver(c)
            for node, kind, amount in raws:
                # SELF-MASK idiom: amount is a local bound to self.number_of_bits & const (align)
                if kind == 'consume' and isinstance(amount, ast.Name):
                    binds = [a.value for a in walk_no_nested(f) if isinstance(a, ast.Assign)
                             and amount.id in [x for t in a.targets for x in flow.target_names(t)]]
                    if binds and all(isinstance(b, ast.BinOp) and isinstance(b.op, ast.BitAnd) and mentions_self_attr(b, 'number_of_bits')
                                     and isinstance(b.right, ast.Constant) for b in binds):
                        continue
                # SELF-MASK idiom, inline:  self.number_of_bits -= self.number_of_bits % 8  /  & 7   (a remainder of the count is never more than the count)
                if kind == 'consume' and isinstance(amount, ast.BinOp) and isinstance(amount.op, (ast.Mod, ast.BitAnd)) and is_self_attr(amount.left, 'number_of_bits') \
                        and isinstance(amount.right, ast.Constant) and isinstance(amount.right.value, int) and amount.right.value > 0:
                    continue
                # an index obtained from a checking helper of the same object inside the subscript:  self.value[self.consume_bits(1)]
                if kind == 'index':
                    helper_guarded = False
                    for c_ in ast.walk(amount) if amount is not None else ():
                        if isinstance(c_, ast.Call) and isinstance(c_.func, ast.Attribute) and isinstance(c_.func.value, ast.Name) and c_.func.value.id == 'self':
                            r_ = c.find_method(c_.func.attr)
                            if r_ is None:
                                continue
                            hps = sem.paths(r_[1])
                            if hps is None:
                                continue
                            rets_ = [p_ for p_ in hps if p_.outcome[0] != 'raise']
                            # every returning path of the helper has compared an amount with the remaining bits, and it raises OutOfDataError otherwise
                            if rets_ and all(any(NB in t_ and (' > 0' in t_ or ' == 0' in t_) for t_, _pol in [(cc[0], cc[1]) for cc in p_.conds]) for p_ in rets_) \
                                    and any(p_.outcome[0] == 'raise' and p_.outcome[1] == 'OutOfDataError' for p_ in hps):
                                helper_guarded = True
                    if helper_guarded:
                        continue
                if kind == 'assign':
                    # re-windowing the stream: acceptable only when the new number of available bits was first compared with the bits that exist
                    ok, why = guard_status(f, node, 'consume', amount, resolver)
                    if not ok:
                        bad.append((node, 'assigns self.number_of_bits outside __init__ from a value that was not compared with the bits that remain'))
                    continue
                ok, why = guard_status(f, node, kind, amount, resolver)
                if ok is None:
                    undecided.append(why)
                elif not ok:
                    bad.append((node, '%s: %s' % (norm_stmt(Model.enclosing_stmt(node)), why)))
            if undecided and not bad:
                ctx.instance('C16.R1', Model.qual(f), 'undecided', undecided[0], nontrivial=False, node=f, file=rel)
                continue
            ctx.instance('C16.R1', Model.qual(f), 'guarded' if not bad else 'VIOLATION', '%d raw accesses' % len(raws), node=f, file=rel)
            for node, why in bad:
                ctx.violation('C16.R1', rel, node, Model.qual(f),
                              '%s: on a truncated encoding this reads past the end instead of raising OutOfDataError '
                              '(wrong value or a foreign exception such as ValueError: negative shift count)' % why,
                              stmt=norm_stmt(Model.enclosing_stmt(node)))
    if n_methods < 30:
        raise AnalysisError('C16.R1 examined %d Decoder methods (floor 30)' % n_methods)

    # ---- R2
    n2 = 0
    for rel in (PER, UPER, OER):
        m = model.mod(rel)
        for f in [n for n in ast.walk(m.tree) if isinstance(n, ast.FunctionDef)]:
            if getattr(f, '_cls', None) is not None and f._cls.name in ('Decoder', 'Encoder'):
                continue
            for n in walk_no_nested(f):
                if isinstance(n, ast.Attribute) and isinstance(n.value, ast.Name) and n.value.id in ('decoder', '_decoder') \
                        and n.attr in ('number_of_bits', 'value', 'total_number_of_bits'):
                    n2 += 1
                    bad = isinstance(n.ctx, (ast.Store, ast.Del)) or n.attr == 'value'
                    par = getattr(n, '_parent', None)
                    if isinstance(par, ast.AugAssign) and par.target is n:
                        bad = True
                    ctx.instance('C16.R2', '%s %s' % (Model.qual(f), ast.unparse(n)), 'read-only offset arithmetic' if not bad else 'VIOLATION', node=n, file=rel)
                    if bad:
                        ctx.violation('C16.R2', rel, n, Model.qual(f), 'type class touches raw decoder state (%s) bypassing the guarded primitives' % ast.unparse(n))
    ctx.floor('C16.R2', 3)

    # ---- R3
    init = model.mod(INIT)
    base = init.classes.get('DecodeError')
    if base is None:
        raise AnalysisError('codecs.DecodeError vanished')
    wanted = [(INIT, 'OutOfDataError'), (BER, 'OutOfByteDataError'), (BER, 'MissingDataError'), (BER, 'MissingMandatoryFieldError'),
              (BER, 'DecodeTagError'), (BER, 'NoEndOfContentsTagError')]
    for rel, cn in wanted:
        c = model.cls(rel, cn)
        ok = base in c.mro()
        ctx.instance('C16.R3', c.qname, 'DecodeError subclass' if ok else 'VIOLATION', node=c.node, file=rel)
        if not ok:
            ctx.violation('C16.R3', rel, c.node, c.qname, '%s is no longer a subclass of codecs.DecodeError: a truncated encoding surfaces as a foreign exception' % cn)
    # codecs.DecodeError itself derives from errors.DecodeError
    r = init.resolve_name('_DecodeError')
    ok = any(isinstance(init.resolve(b), type(base)) and init.resolve(b).name == 'DecodeError' and init.resolve(b).mod.rel == 'asn1tools/errors.py'
             for b in base.node.bases)
    ctx.instance('C16.R3', 'codecs.DecodeError < errors.DecodeError', 'ok' if ok else 'VIOLATION', node=base.node, file=INIT)
    if not ok:
        ctx.violation('C16.R3', INIT, base.node, 'codecs.DecodeError', 'codecs.DecodeError no longer derives from asn1tools.errors.DecodeError')

    # ---- R4
    ber = model.mod(BER)
    for qual in ('StandardDecodeMixin.decode', 'PrimitiveOrConstructedType.decode'):
        f = model.func(BER, qual)
        # a branch testing len(<tag slice>) != self.tag_len that raises OutOfByteDataError
        ps = sem.paths(f)
        if ps is None:
            ctx.instance('C16.R4', '%s short-tag test' % Model.qual(f), 'undecided', 'too many paths', nontrivial=False, node=f, file=BER)
            continue
        # some path raises OutOfByteDataError because the number of octets found differs from the (configured) tag length
        ok = any(p.outcome[0] == 'raise' and p.outcome[1] == 'OutOfByteDataError' and p.conds and 'len(' in p.conds[-1][0]
                 and 'tag' in p.conds[-1][0] for p in ps)
        ctx.instance('C16.R4', '%s short-tag test' % Model.qual(f), 'ok' if ok else 'VIOLATION', node=f, file=BER)
        if not ok:
            ctx.violation('C16.R4', BER, f, Model.qual(f), 'a tag cut short by truncation is no longer reported as OutOfByteDataError (falls through to TAG_MISMATCH / wrong value)',
                          stmt='short-tag test missing')
    for fn in ('skip_tag', 'decode_length'):
        f = model.func(BER, fn)
        # every subscript of the buffer parameter with a non-slice index (in the function and in the helpers it hands the buffer to)
        # lies in try/except IndexError -> OutOfByteDataError
        buf = flow.param_names(f)[0]
        for g, n, ok in excmap.index_sites(f, buf):
            ctx.instance('C16.R4', '%s %s' % (Model.qual(g), ast.unparse(n)), 'IndexError mapped' if ok else 'VIOLATION', node=n, file=BER)
            if not ok:
                ctx.violation('C16.R4', BER, n, Model.qual(g), 'buffer index %s outside try/except IndexError -> OutOfByteDataError: a short prefix raises IndexError' % ast.unparse(n))
    # long-form length octets: taken by slicing and compared by count
    f = model.func(BER, 'decode_length')
    # some path raises OutOfByteDataError because the slice holding the long-form length octets is shorter than announced
    ok = False
    for g, dps in excmap.family_paths(f, flow.param_names(f)[0]):
        ok = ok or any(p.outcome[0] == 'raise' and p.outcome[1] == 'OutOfByteDataError' and p.conds and 'len(' in p.conds[-1][0] and ' == 0' in p.conds[-1][0]
                       and not p.conds[-1][1] for p in (dps or []))
    ctx.instance('C16.R4', '%s long-form octet count test' % Model.qual(f), 'ok' if ok else 'VIOLATION', node=f, file=BER)
    if not ok:
        ctx.violation('C16.R4', BER, f, Model.qual(f), 'missing length octets are no longer detected (int() of a short slice gives a wrong length)', stmt='length octet count test missing')
    # ... on *every* path that converts a bounded slice of the buffer into a number (a slice near the end of the data is silently shorter)
    for g, conv, sl, guarded, node in [r if len(r) == 5 else r + (None,) for r in excmap.slice_conversions(f, flow.param_names(f)[0])]:
        if conv is None:
            ctx.instance('C16.R4', '%s slice conversions' % Model.qual(g), 'undecided', 'too many paths', nontrivial=False, node=g, file=BER)
            continue
        ctx.instance('C16.R4', '%s converts %s' % (Model.qual(g), sl), 'octet count compared first' if guarded else 'VIOLATION', node=node, file=BER)
        if not guarded:
            ctx.violation('C16.R4', BER, node, Model.qual(g),
                          '%s is converted to a number on a path that never compared the number of octets present: an encoding cut inside the length octets is decoded with a wrong '
                          'length (MissingDataError with a wrong expected length, or a value) instead of the out-of-data error' % sl, stmt='unchecked ' + sl)
    dl_ = model.func(BER, 'decode_length')
    n_ok_, n_und_, bad_, und_ = excmap.evaluate_decode_length(dl_)
    ctx.instance('C16.R4', 'decode_length on short, minimal and non-minimal long forms and all their prefixes: %d cases evaluated, %d undecided' % (n_ok_, n_und_),
                 'VIOLATION' if bad_ else ('ok' if n_ok_ else 'undecided'), und_ or '', nontrivial=n_ok_ > 0, node=dl_, file=BER)
    if bad_:
        ctx.violation('C16.R4', BER, dl_, Model.qual(dl_), bad_ + ': a truncated encoding is not reported with the out-of-data error at this point', stmt='decode_length evaluation')
    # missing-data test (same rule as C08.R5)
    from .C08 import decode_length_missing_data
    ok, why, _n = decode_length_missing_data(model)
    ctx.instance('C16.R4', '%s missing-data test' % Model.qual(f), 'ok' if ok else 'VIOLATION', node=f, file=BER)
    if not ok:
        ctx.violation('C16.R4', BER, f, Model.qual(f), 'offset + length > len(encoded) is no longer rejected unconditionally with MissingDataError (%s)' % why, stmt='missing-data test')
    ctx.floor('C16.R4', 6)

    # ---- R5
    cg = CallGraph(model)
    from .C08 import decode_roots
    roots = decode_roots(model)
    reach = cg.reachable(roots)
    n5 = 0
    for f in sorted(reach, key=lambda g: (g._mod.rel, g.lineno)):
        rel = f._mod.rel
        if rel not in (BER, DER, PER, UPER, OER, INIT):
            continue
        for n in walk_no_nested(f):
            if not isinstance(n, ast.Raise):
                continue
            n5 += 1
            if n.exc is None:
                ctx.instance('C16.R5', '%s re-raise' % Model.qual(f), 'ok', nontrivial=False, node=n, file=rel)
                continue
            e = n.exc
            if isinstance(e, ast.Name):      # raise e  (caught exception)
                ctx.instance('C16.R5', '%s raise %s' % (Model.qual(f), e.id), 're-raise', nontrivial=False, node=n, file=rel)
                continue
            fn = e.func if isinstance(e, ast.Call) else e
            resolve_in = f._mod
            if isinstance(e, ast.Call):
                ef = sem.error_factory(f, fn)
                if ef is not None:
                    fn, resolve_in = ef[0], ef[1]._mod        # raise <helper>(..): the class the helper constructs
            r = resolve_in.resolve(fn) if isinstance(fn, (ast.Name, ast.Attribute)) else None
            name = ast.unparse(fn)
            ok = False
            if hasattr(r, 'mro'):
                names = {c.name for c in r.mro()}
                # a library error that is not of the encode/constraints/compile family
                # (content-level parse errors such as Error("Expected a UTC time string") are not truncation paths)
                ok = (base in r.mro()) or ('Error' in names and not names & {'EncodeError', 'ConstraintsError', 'CompileError', 'ParseError'})
            elif name in ('NotImplementedError',):
                ok = True
            ctx.instance('C16.R5', '%s raise %s' % (Model.qual(f), name), 'DecodeError' if ok else 'VIOLATION', node=n, file=rel)
            if not ok:
                ctx.violation('C16.R5', rel, n, Model.qual(f), 'decode path raises %s, which is not the library decode error' % name)
    if n5 < 40:
        raise AnalysisError('C16.R5 saw only %d raise statements on decode paths' % n5)


    # ---- R6: skipping is reading.  The BER decoders jump over a TLV they do not decode (an unknown CHOICE alternative, trailing extension additions) with
    #      skip_tag_length_contents: on a truncated encoding the jump must fail like a read would -- the helper is evaluated (sa/evalexpr.py) on complete TLVs and on every
    #      proper prefix of them: a complete TLV gives its end, a prefix raises the library's decode error and never yields an offset.
    ctx.rule('C16.R6', 'BER: skipping a TLV fails on truncated data like reading it (skip_tag_length_contents evaluated on every proper prefix of complete TLVs)')
    from .. import evalexpr as _ev6
    sk = model.mod(BER).functions.get('skip_tag_length_contents')
    if sk is None:
        ctx.instance('C16.R6', 'ber.skip_tag_length_contents', 'undecided', 'helper not found', nontrivial=False, file=BER)
    else:
        sp6 = flow.param_names(sk)
        n_ok = n_und = 0
        bad6 = None
        und6 = ''
        for tag in (b'\x30', b'\xa1', b'\x04', b'\x9f\x1f', b'\xbf\x81\x02'):
            for n in (0, 1, 5, 127, 128, 300):
                k = max(1, (n.bit_length() + 7) // 8)
                lf = bytes([n]) if n < 128 else bytes([0x80 | k]) + n.to_bytes(k, 'big')
                full = tag + lf + bytes(n)
                cuts = sorted({0, 1, len(tag), len(tag) + 1, len(tag) + len(lf), len(full) - 1} - {len(full)})
                for cut in cuts + [len(full)]:
                    if cut < 0:
                        continue
                    data = full[:cut]
                    try:
                        got, _e = _ev6.run_function(sk, {sp6[0]: bytearray(data), sp6[1]: 0})
                    except _ev6.Raised as e_:
                        lib = set(e_.mro or [e_.name]) & {'DecodeError', 'OutOfByteDataError', 'MissingDataError', 'Error'}
                        if cut == len(full):
                            bad6 = bad6 or (data, 'raises %s for the complete TLV' % e_.name)
                        elif not lib:
                            bad6 = bad6 or (data, 'raises %s, not the library\'s decode error,' % e_.name)
                        else:
                            n_ok += 1
                        continue
                    except (_ev6.Unsupported, TypeError, KeyError) as e_:
                        n_und += 1
                        und6 = und6 or str(e_)[:80]
                        continue
                    if cut == len(full) and got == len(full):
                        n_ok += 1
                    elif cut < len(full):
                        bad6 = bad6 or (data, 'returns the offset %r' % (got,))
                    else:
                        bad6 = bad6 or (data, 'returns %r, the TLV ends at %d' % (got, len(full)))
        ctx.instance('C16.R6', 'ber.skip_tag_length_contents on %d TLVs and prefixes (%d undecided)' % (n_ok + (1 if bad6 else 0), n_und), 'VIOLATION' if bad6 else ('ok' if n_ok > n_und else 'undecided'),
                     und6, nontrivial=n_ok > 0, node=sk, file=BER)
        if bad6:
            ctx.violation('C16.R6', BER, sk, Model.qual(sk),
                          'skip_tag_length_contents(%s, 0) %s for a %d-octet prefix of a longer TLV: a decoder that skips with it (an unknown CHOICE alternative) accepts the truncated '
                          'encoding and returns a value instead of a decode error' % (bad6[0].hex() or "b\'\'", bad6[1], len(bad6[0])), stmt='skip over missing contents')

MUTANTS = [
    dict(name='per read_bits guard dropped', file=PER, quick=True,
         old='''        """Read given number of bits.

        """

        if number_of_bits > self.number_of_bits:
            raise OutOfDataError(self.number_of_read_bits())

        offset = self.number_of_read_bits()
        value = self.value[offset:offset + number_of_bits]
        self.number_of_bits -= number_of_bits
        value = '10000000' + value''',
         new='''        """Read given number of bits.

        """

        offset = self.number_of_read_bits()
        value = self.value[offset:offset + number_of_bits]
        self.number_of_bits -= number_of_bits
        value = '10000000' + value''', expect='C16.R1'),
    dict(name='oer skip_bits guard compares >= 0 instead', file=OER, quick=True,
         old="""    def skip_bits(self, number_of_bits):
        if number_of_bits > self.number_of_bits:
            raise OutOfDataError(self.number_of_read_bits())""",
         new="""    def skip_bits(self, number_of_bits):
        if number_of_bits > self.total_number_of_bits:
            raise OutOfDataError(self.number_of_read_bits())""", expect='C16.R1'),
    dict(name='type class pokes decoder.number_of_bits', file=PER, quick=True,
         old="""                alignment_bits = (offset - decoder.number_of_bits) % 8

                if alignment_bits != 0:
                    decoder.skip_bits(8 - alignment_bits)""",
         new="""                alignment_bits = (offset - decoder.number_of_bits) % 8

                if alignment_bits != 0:
                    decoder.number_of_bits -= 8 - alignment_bits""", expect='C16.R2'),
    dict(name='OutOfByteDataError no longer a DecodeError', file=BER,
         old="class OutOfByteDataError(DecodeError):", new="class OutOfByteDataError(Exception):", expect='C16.R3'),
    dict(name='skip_tag loses its try', file=BER,
         old="""    try:
        byte = data[offset]
        offset += 1

        if byte & 0x1f == 0x1f:
            while data[offset] & 0x80:
                offset += 1

            offset += 1
    except IndexError:
        raise OutOfByteDataError('Ran out of data when reading tag',
                                 offset=offset)
""", new="""    byte = data[offset]
    offset += 1

    if byte & 0x1f == 0x1f:
        while data[offset] & 0x80:
            offset += 1

        offset += 1
""", expect='C16.R4'),
    dict(name='short tag falls through to TAG_MISMATCH', file=BER,
         old="""            if len(tag_data) != self.tag_len:
                raise OutOfByteDataError('Ran out of data when reading tag',
                                         offset=start_offset)
""", new="", expect='C16.R4'),
    dict(name='decode path raises EncodeError', file=PER,
         old="""                raise DecodeError(
                    'Bad length determinant fragmentation value 0x{:02x}.'.format(
                        value))""",
         new="""                raise EncodeError(
                    'Bad length determinant fragmentation value 0x{:02x}.'.format(
                        value))""", expect='C16.R5'),
]
REFACTORS = [
    dict(name='guard written with < instead of >', file=PER, quick=True,
         old="""    def skip_bits(self, number_of_bits):
        if number_of_bits > self.number_of_bits:""",
         new="""    def skip_bits(self, number_of_bits):
        if self.number_of_bits < number_of_bits:"""),
]
