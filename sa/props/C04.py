"""C04 -- the BER decoder accepts every valid BER serialisation (acceptance shape; DESIGN.md section 4 C04)."""
import ast

from ..model import AnalysisError, Model, walk_no_nested, norm_stmt, names_in
from .. import flow, dispatch, loops

EXPLANATION = (
    'Decided on codecs/ber.py: (R1) every class whose tag is built with Encoding.CONSTRUCTED and that decodes through StandardDecodeMixin has '
    'indefinite_allowed = True; PrimitiveOrConstructedType.decode calls decode_length(..., enforce_definite=False); the mixin passes '
    'enforce_definite=not self.indefinite_allowed; (R2) in those classes every arithmetic use of `length` is dominated by a `length is None` test, '
    'and the indefinite branch ends on detect_end_of_contents_tag / is_end_of_data; (R3) Choice.get_member_tags adds the constructed_tag alias and '
    'recurses into nested CHOICE and Recursive members; (R4) the member loop is order-insensitive (T-RETRY template: undecoded members are '
    're-offered while progress is made); (R5) string classes are PrimitiveOrConstructedType whose segment is an OCTET STRING (BIT/OCTET STRING: '
    'self), constructed segments recurse, and text is decoded once from the concatenation of all segments (a segment boundary may fall inside a '
    'multi-octet character); (R6) decode_length has no upper bound on the number of length octets and no minimality test.  '
    'Not decided: that every re-serialisation decodes to the same value; indefinite-length unknown CHOICE alternatives.')
BER = 'asn1tools/codecs/ber.py'


def check(ctx):
    model = ctx.model
    m = model.mod(BER)
    tab = dispatch.table(model, 'ber')
    ctx.rule('C04.R1', 'constructed classes allow the indefinite form; enforce_definite wiring')
    ctx.rule('C04.R2', 'length is None handled before any arithmetic; indefinite branch ends on end-of-contents')
    ctx.rule('C04.R3', 'CHOICE tag dispatch: constructed-tag aliases, nested CHOICE and Recursive members')
    ctx.rule('C04.R4', 'order-insensitive member decoding (T-RETRY)')
    ctx.rule('C04.R5', 'primitive-or-constructed strings: segment type, recursion, join before text decoding')
    ctx.rule('C04.R6', 'decode_length: no bound on the number of length octets, no minimality test')

    mixin = model.cls(BER, 'StandardDecodeMixin')
    # ---- R1
    n1 = 0
    for c in m.classes.values():
        if mixin not in c.mro() or c is mixin:
            continue
        constructed = False
        for mn in ('__init__', 'set_tag'):
            f = c.methods.get(mn)
            if f is not None and 'Encoding.CONSTRUCTED' in ast.unparse(f):
                constructed = True
        if not constructed:
            continue
        n1 += 1
        r = c.find_attr('indefinite_allowed')
        ok = r is not None and isinstance(r[1], ast.Constant) and r[1].value is True
        ctx.instance('C04.R1', '%s (constructed) indefinite_allowed = %s' % (c.qname, ast.unparse(r[1]) if r else None), 'ok' if ok else 'VIOLATION', node=c.node, file=BER)
        if not ok:
            ctx.violation('C04.R1', BER, c.node, '%s::%s' % (BER, c.name),
                          'class %s has a constructed encoding but indefinite_allowed is not True: the indefinite-length form (80 ... 00 00), valid BER for any constructed node, is rejected'
                          % c.name, stmt='indefinite_allowed')
    if n1 < 3:
        raise AnalysisError('C04.R1 found only %d constructed mixin classes' % n1)
    f = mixin.methods['decode']
    ok = 'decode_length(data, offset, enforce_definite=not self.indefinite_allowed)' in ast.unparse(f)
    ctx.instance('C04.R1', 'StandardDecodeMixin.decode: enforce_definite = not self.indefinite_allowed', 'ok' if ok else 'VIOLATION', node=f, file=BER)
    if not ok:
        ctx.violation('C04.R1', BER, f, Model.qual(f), 'the mixin must enforce definite lengths exactly for classes that do not allow the indefinite form', stmt='enforce_definite wiring')
    f = model.func(BER, 'PrimitiveOrConstructedType.decode')
    ok = 'decode_length(data, offset, enforce_definite=False)' in ast.unparse(f)
    ctx.instance('C04.R1', 'PrimitiveOrConstructedType.decode: enforce_definite=False', 'ok' if ok else 'VIOLATION', node=f, file=BER)
    if not ok:
        ctx.violation('C04.R1', BER, f, Model.qual(f), 'constructed strings may use the indefinite form: decode_length must be called with enforce_definite=False', stmt='enforce_definite=False')
    ok = 'elif tag == self.constructed_tag:' in ast.unparse(f) and 'self.decode_constructed_contents(data, offset, length)' in ast.unparse(f)
    ctx.instance('C04.R1', 'PrimitiveOrConstructedType.decode accepts the constructed tag', 'ok' if ok else 'VIOLATION', node=f, file=BER)
    if not ok:
        ctx.violation('C04.R1', BER, f, Model.qual(f), 'the constructed form of a string type is no longer recognised', stmt='constructed tag')
    dl = model.func(BER, 'decode_length')
    ok = any(isinstance(n, ast.If) and ast.unparse(n.test) == 'length == 128' for n in walk_no_nested(dl)) and \
        any(isinstance(n, ast.Return) and ast.unparse(n.value).replace(' ', '') in ('(None,offset)', 'None,offset') for n in walk_no_nested(dl))
    ctx.instance('C04.R1', 'decode_length maps 0x80 to (None, offset)', 'ok' if ok else 'VIOLATION', node=dl, file=BER)
    if not ok:
        ctx.violation('C04.R1', BER, dl, Model.qual(dl), 'the indefinite-length octet 0x80 must yield length None', stmt='0x80 -> None')

    # ---- R2
    for qual in ('MembersType.decode_content', 'ArrayType.decode_content', 'ExplicitTag.decode_content', 'PrimitiveOrConstructedType.decode_constructed_contents'):
        f = model.func(BER, qual)
        bad = []
        for n in walk_no_nested(f):
            if isinstance(n, ast.BinOp) and 'length' in names_in(n) and isinstance(n.op, (ast.Add, ast.Sub, ast.Mult)):
                guarded = False
                # inside  X if length is None else <here>   or under an if testing length is None
                for a in flow.ancestors(n):
                    if isinstance(a, ast.IfExp) and 'length is None' in ast.unparse(a.test):
                        guarded = True
                for t, pol in flow.guards_of(n, f):
                    if 'length is None' in ast.unparse(t) or 'length is not None' in ast.unparse(t):
                        guarded = True
                if not guarded:
                    bad.append(n)
            if isinstance(n, ast.Compare) and 'length' in names_in(n) and not isinstance(n.ops[0], (ast.Is, ast.IsNot)):
                guarded = any('length is None' in ast.unparse(t) for t, pol in flow.guards_of(n, f))
                # `elif (offset - start) >= length` after `if length is None`
                par = getattr(n, '_parent', None)
                if isinstance(par, ast.If):
                    pp = getattr(par, '_parent', None)
                    if isinstance(pp, ast.If) and par in pp.orelse and 'length is None' in ast.unparse(pp.test):
                        guarded = True
                if not guarded:
                    bad.append(n)
        has_none = 'length is None' in ast.unparse(f)
        ends = any(isinstance(c, ast.Call) and ast.unparse(c.func) in ('detect_end_of_contents_tag', 'is_end_of_data', 'self.decode_members') for c in walk_no_nested(f))
        ok = not bad and has_none and ends
        ctx.instance('C04.R2', '%s handles length None before arithmetic and ends on end-of-contents' % Model.qual(f), 'ok' if ok else 'VIOLATION', node=f, file=BER)
        if not ok:
            why = ('uses `length` arithmetically (%s) without a dominating `length is None` test' % ast.unparse(bad[0])) if bad else \
                  ('never tests `length is None`' if not has_none else 'the indefinite branch does not look for the end-of-contents octets')
            ctx.violation('C04.R2', BER, bad[0] if bad else f, Model.qual(f), '%s: an indefinite-length encoding of this constructed type raises TypeError / is misparsed' % why, stmt='length None handling')
    f = model.func(BER, 'is_end_of_data')
    src = ast.unparse(f)
    ok = 'if end_offset is not None:' in src and 'elif detect_end_of_contents_tag(data, offset):' in src and 'return (True, offset + 2)' in src
    ctx.instance('C04.R2', 'is_end_of_data: definite -> offset >= end_offset, indefinite -> 00 00 consumed', 'ok' if ok else 'VIOLATION', node=f, file=BER)
    if not ok:
        ctx.violation('C04.R2', BER, f, Model.qual(f), 'end-of-data detection changed (definite: offset >= end_offset; indefinite: end-of-contents octets, consumed)', stmt='is_end_of_data')

    # ---- R3
    f = model.func(BER, 'Choice.get_member_tags')
    src = ast.unparse(f)
    ok = "hasattr(member, 'constructed_tag')" in src and 'tags.append(bytes(member.constructed_tag))' in src
    ctx.instance('C04.R3', 'Choice.get_member_tags adds the constructed-tag alias', 'ok' if ok else 'VIOLATION', node=f, file=BER)
    if not ok:
        ctx.violation('C04.R3', BER, f, Model.qual(f), 'a string alternative of a CHOICE in constructed form is no longer dispatched (tag alias with the constructed bit missing)', stmt='constructed alias')
    ok = 'isinstance(member, Choice)' in src and 'self.get_choice_tags(member)' in src and 'isinstance(member, Recursive)' in src and 'self.get_member_tags(member.inner)' in src
    ctx.instance('C04.R3', 'Choice.get_member_tags recurses into nested CHOICE and Recursive', 'ok' if ok else 'VIOLATION', node=f, file=BER)
    if not ok:
        ctx.violation('C04.R3', BER, f, Model.qual(f), 'untagged nested CHOICE / recursive alternatives are no longer reachable by their tags', stmt='nested alternatives')
    f = model.func(BER, 'Choice.decode')
    ok = 'tag = bytes(read_tag(data, offset))' in ast.unparse(f) and 'if tag in self.tag_to_member:' in ast.unparse(f)
    ctx.instance('C04.R3', 'Choice.decode dispatches on the full identifier octets', 'ok' if ok else 'VIOLATION', node=f, file=BER)
    if not ok:
        ctx.violation('C04.R3', BER, f, Model.qual(f), 'CHOICE dispatch no longer uses the complete identifier octets', stmt='tag dispatch')

    # ---- R4
    f = model.func(BER, 'MembersType.decode_members')
    ws = [n for n in walk_no_nested(f) if isinstance(n, ast.While)]
    if len(ws) != 1:
        raise AnalysisError('decode_members: expected one while loop')
    from ..callgraph import CallGraph
    tmpl, ok, why = loops.classify_while(ws[0], f, model, CallGraph(model))
    ok = ok and tmpl == 'T-RETRY'
    ctx.instance('C04.R4', 'MembersType.decode_members retry loop: %s' % tmpl, 'ok' if ok else 'VIOLATION', why, node=ws[0], file=BER)
    if not ok:
        ctx.violation('C04.R4', BER, ws[0], Model.qual(f), 'members that did not match in this pass must be offered again while another member decoded (%s): SET components in any order are valid BER' % why, stmt='retry loop')
    # a mismatching member must not consume input nor abort: TAG_MISMATCH -> appended to the undecoded list
    ok = any(isinstance(n, ast.If) and 'value == TAG_MISMATCH' in ast.unparse(n.test) and 'undecoded_members.append(member)' in ast.unparse(n.body[0]) for n in walk_no_nested(f))
    ctx.instance('C04.R4', 'a member whose tag does not match is deferred, not an error', 'ok' if ok else 'VIOLATION', node=f, file=BER)
    if not ok:
        ctx.violation('C04.R4', BER, f, Model.qual(f), 'a tag mismatch must defer the member to the next pass', stmt='defer on mismatch')

    # ---- R5
    poc = model.cls(BER, 'PrimitiveOrConstructedType')
    n5 = 0
    for kind, cell in sorted(tab.cells.items()):
        c = cell.cls
        if c is None or poc not in c.mro():
            continue
        n5 += 1
        init = c.find_method('__init__')[1]
        seg = None
        for n in walk_no_nested(init):
            if isinstance(n, ast.Call) and isinstance(n.func, ast.Attribute) and n.func.attr == '__init__':
                if len(n.args) >= 4:
                    seg = ast.unparse(n.args[3])
        want = 'self' if kind in ('BIT STRING', 'OCTET STRING') else 'OctetString(name)'
        ok = seg == want
        ctx.instance('C04.R5', "ber['%s'] -> %s segment = %s" % (kind, c.qname, seg), 'ok' if ok else 'VIOLATION', node=init, file=BER)
        if not ok:
            ctx.violation('C04.R5', BER, init, '%s::%s.__init__' % (BER, c.name), 'segments of a constructed %s must be decoded as %s (X.690 8.7/8.21)' % (kind, 'the same type' if want == 'self' else 'OCTET STRING'), stmt='segment type')
    if n5 < 12:
        raise AnalysisError('C04.R5 found only %d primitive-or-constructed cells' % n5)
    f = poc.methods['decode_constructed_contents']
    ok = 'self.segment.decode(data, offset)' in ast.unparse(f) and 'self.decode_constructed_segments(segments)' in ast.unparse(f)
    ctx.instance('C04.R5', 'decode_constructed_contents decodes each segment with the segment type (nested segmentation recurses)', 'ok' if ok else 'VIOLATION', node=f, file=BER)
    if not ok:
        ctx.violation('C04.R5', BER, f, Model.qual(f), 'constructed contents must be decoded segment by segment through self.segment.decode', stmt='segment recursion')
    st = model.cls(BER, 'StringType')
    f = st.methods['decode_constructed_segments']
    # the text decoding (.decode(self.ENCODING)) is applied to the join of all segments, not inside a loop/comprehension over them
    decs = [c for c in walk_no_nested(f) if isinstance(c, ast.Call) and isinstance(c.func, ast.Attribute) and c.func.attr == 'decode' and 'ENCODING' in ast.unparse(c)]
    ok = len(decs) == 1
    if ok:
        recv = decs[0].func.value
        ok = isinstance(recv, ast.Call) and isinstance(recv.func, ast.Attribute) and recv.func.attr == 'join' and 'segments' in ast.unparse(recv) \
            and not any(isinstance(a, (ast.GeneratorExp, ast.ListComp, ast.For)) for a in flow.ancestors(decs[0]) if a is not f)
    ctx.instance('C04.R5', 'StringType.decode_constructed_segments decodes the text once, from the joined segments', 'ok' if ok else 'VIOLATION', node=f, file=BER)
    if not ok:
        ctx.violation('C04.R5', BER, f, Model.qual(f),
                      'the character decoding must be applied to the concatenation of all segments: X.690 lets a segment boundary fall anywhere, also inside a multi-octet '
                      'character (UTF-8, BMPString, UniversalString), which per-segment decoding rejects', stmt='join before decode')
    bs = model.cls(BER, 'BitString').methods['decode_constructed_segments']
    ok = 'decoded.extend(data)' in ast.unparse(bs) and 'number_of_bits += length' in ast.unparse(bs)
    ctx.instance('C04.R5', 'BitString.decode_constructed_segments concatenates data and adds bit counts', 'ok' if ok else 'VIOLATION', node=bs, file=BER)
    if not ok:
        ctx.violation('C04.R5', BER, bs, Model.qual(bs), 'constructed BIT STRING segments must be concatenated and their bit counts added', stmt='bit string segments')

    # ---- R6
    cmps = [ast.unparse(n) for n in walk_no_nested(dl) if isinstance(n, ast.Compare)]
    allowed = {'length == 128', 'len(encoded_length) != number_of_bytes', 'offset + length > data_length', 'offset + length > len(encoded)'}
    extra = [c for c in cmps if c not in allowed]
    ctx.instance('C04.R6', 'decode_length comparisons %s' % cmps, 'ok' if not extra else 'VIOLATION', node=dl, file=BER)
    if extra:
        ctx.violation('C04.R6', BER, dl, Model.qual(dl),
                      'decode_length has an additional test %s: BER allows any number of length octets and non-minimal lengths (only DER forbids them)' % extra, stmt='extra length test')


MUTANTS = [
    dict(name='ArrayType loses indefinite_allowed', file=BER, quick=True,
         old="""class ArrayType(StandardEncodeMixin, StandardDecodeMixin, Type):
    indefinite_allowed = True
""", new="""class ArrayType(StandardEncodeMixin, StandardDecodeMixin, Type):
""", expect='C04.R1'),
    dict(name='choice tags without constructed alias', file=BER, quick=True,
         old="""            if hasattr(member, 'constructed_tag'):
                tags.append(bytes(member.constructed_tag))
""", new="", expect='C04.R3'),
    dict(name='decode_length caps the number of length octets', file=BER, quick=True,
         old="""            number_of_bytes = (length & 0x7f)
            encoded_length = encoded[offset:number_of_bytes + offset]""",
         new="""            number_of_bytes = (length & 0x7f)

            if number_of_bytes > 4:
                raise DecodeError('Too many length octets.', offset=offset)

            encoded_length = encoded[offset:number_of_bytes + offset]""", expect='C04.R6'),
    dict(name='ExplicitTag ignores indefinite length', file=BER,
         old="""        # Verify End of Contents tag exists for Indefinite field
        if length is None:
            if not detect_end_of_contents_tag(data, end_offset):
                raise NoEndOfContentsTagError('Expected end-of-contents tag.',
                                              offset=end_offset,
                                              location=self)
            end_offset += 2

        return values, end_offset""", new="""        return values, end_offset""", expect='C04.R2'),
    dict(name='text decoded per segment', file=BER,
         old="        return bytearray().join(segments).decode(self.ENCODING)", new="        return ''.join(segment.decode(self.ENCODING) for segment in segments)", expect='C04.R5'),
    dict(name='member loop gives up after one pass', file=BER,
         old="""            remaining_members = undecoded_members
            if out_of_data:
                break

            if not decode_success:
                # No members are able to decode data, exit loop
                break""", new="""            remaining_members = undecoded_members
            break""", expect='C04.R4'),
]
REFACTORS = []
