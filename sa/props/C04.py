"""C04 -- the BER decoder accepts every valid BER serialisation (acceptance shape; DESIGN.md section 4 C04)."""
import ast

from ..model import AnalysisError, Model, walk_no_nested, norm_stmt, names_in
from .. import flow, dispatch, loops, sem, excmap

EXPLANATION = (
    'Decided on codecs/ber.py: (R1) every class whose tag is built with Encoding.CONSTRUCTED and that decodes through StandardDecodeMixin has '
    'indefinite_allowed = True; PrimitiveOrConstructedType.decode calls decode_length(..., enforce_definite=False); the mixin passes '
    'enforce_definite=not self.indefinite_allowed; (R2) in those classes every arithmetic use of `length` is dominated by a `length is None` test, '
    'and the indefinite branch ends on detect_end_of_contents_tag / is_end_of_data; (R3) Choice.get_member_tags adds the constructed_tag alias and '
    'recurses into nested CHOICE and Recursive members; (R4) the member loop is order-insensitive (T-RETRY template: undecoded members are '
    're-offered while progress is made); (R5) string classes are PrimitiveOrConstructedType whose segment is an OCTET STRING (BIT/OCTET STRING: '
    'self), constructed segments recurse, and text is decoded once from the concatenation of all segments (a segment boundary may fall inside a '
    'multi-octet character); (R6) decode_length has no upper bound on the number of length octets and no minimality test.  '
    'Not decided: that every re-serialisation decodes to the same value; indefinite-length unknown CHOICE alternatives.')
BER = 'asn1tools/codecs/ber.py'


def check(ctx):
    model = ctx.model
    m = model.mod(BER)
    tab = dispatch.table(model, 'ber')
    ctx.rule('C04.R1', 'constructed classes allow the indefinite form; enforce_definite wiring')
    ctx.rule('C04.R2', 'length is None handled before any arithmetic; indefinite branch ends on end-of-contents')
    ctx.rule('C04.R3', 'CHOICE tag dispatch: constructed-tag aliases, nested CHOICE and Recursive members')
    ctx.rule('C04.R4', 'order-insensitive member decoding (T-RETRY)')
    ctx.rule('C04.R5', 'primitive-or-constructed strings: segment type, recursion, join before text decoding')
    ctx.rule('C04.R6', 'decode_length: no bound on the number of length octets, no minimality test')

    mixin = model.cls(BER, 'StandardDecodeMixin')
    # ---- R1
    n1 = 0
    for c in m.classes.values():
        if mixin not in c.mro() or c is mixin:
            continue
        constructed = False
        for b in c.mro():
            # the class itself or one of its bases / mixins other than the primitive-or-constructed string base
            if not hasattr(b, 'methods') or b.name in ('Type', 'PrimitiveOrConstructedType', 'object'):
                continue
            for mn in ('__init__', 'set_tag'):
                f = b.methods.get(mn)
                if f is not None and 'Encoding.CONSTRUCTED' in ast.unparse(f):
                    constructed = True
        if not constructed:
            continue
        n1 += 1
        r = c.find_attr('indefinite_allowed')
        ok = r is not None and isinstance(r[1], ast.Constant) and r[1].value is True
        ctx.instance('C04.R1', '%s (constructed) indefinite_allowed = %s' % (c.qname, ast.unparse(r[1]) if r else None), 'ok' if ok else 'VIOLATION', node=c.node, file=BER)
        if not ok:
            ctx.violation('C04.R1', BER, c.node, '%s::%s' % (BER, c.name),
                          'class %s has a constructed encoding but indefinite_allowed is not True: the indefinite-length form (80 ... 00 00), valid BER for any constructed node, is rejected'
                          % c.name, stmt='indefinite_allowed')
    if n1 < 3:
        raise AnalysisError('C04.R1 found only %d constructed mixin classes' % n1)
    def enforce_arg(f):
        """canonical (text, polarity) of the enforce_definite argument of the decode_length call(s) in f"""
        v = sem.View(f)
        out = []
        for c in sem.method_calls(f, 'decode_length', v):
            arg = None
            for k in c.keywords:
                if k.arg == 'enforce_definite':
                    arg = k.value
            if arg is None and len(c.args) >= 3:
                arg = c.args[2]
            out.append(None if arg is None else v.cond(arg))
        return out
    f = mixin.methods['decode']
    ea = enforce_arg(f)
    ok = bool(ea) and all(x == ('self.indefinite_allowed', False) for x in ea)
    ctx.instance('C04.R1', 'StandardDecodeMixin.decode: enforce_definite = not self.indefinite_allowed', 'ok' if ok else 'VIOLATION', node=f, file=BER)
    if not ok:
        ctx.violation('C04.R1', BER, f, Model.qual(f), 'the mixin must enforce definite lengths exactly for classes that do not allow the indefinite form', stmt='enforce_definite wiring')
    f = model.func(BER, 'PrimitiveOrConstructedType.decode')
    ea = enforce_arg(f)
    ok = bool(ea) and all(x == ('True', False) for x in ea)
    ctx.instance('C04.R1', 'PrimitiveOrConstructedType.decode: enforce_definite=False', 'ok' if ok else 'VIOLATION', node=f, file=BER)
    if not ok:
        ctx.violation('C04.R1', BER, f, Model.qual(f), 'constructed strings may use the indefinite form: decode_length must be called with enforce_definite=False', stmt='enforce_definite=False')
    ps = sem.paths(f)
    if ps is None:
        ctx.instance('C04.R1', 'PrimitiveOrConstructedType.decode accepts the constructed tag', 'undecided', 'too many paths', nontrivial=False, node=f, file=BER)
    else:
        ok = any(p.mentions('self.constructed_tag', True) and p.calls('decode_constructed_contents') and p.outcome[0] == 'return' for p in ps)
        ctx.instance('C04.R1', 'PrimitiveOrConstructedType.decode accepts the constructed tag', 'ok' if ok else 'VIOLATION', node=f, file=BER)
        if not ok:
            ctx.violation('C04.R1', BER, f, Model.qual(f), 'the constructed form of a string type is no longer recognised', stmt='constructed tag')
    dl = model.func(BER, 'decode_length')
    # decode_length is decided by bounded evaluation (sa/excmap.py: every length form of X.690 8.1.3, every prefix, the indefinite form with and without
    # enforce_definite); the path-shape rules below are the fall-back for a decode_length the evaluator cannot follow
    dl_ok, dl_und, dl_bad, dl_why = excmap.evaluate_decode_length(dl)
    dl_decided = dl_und == 0 and dl_ok > 0
    ctx.instance('C04.R1', 'decode_length on every length form and prefix, indefinite form included: %d cases evaluated, %d undecided' % (dl_ok, dl_und),
                 'VIOLATION' if dl_bad else ('ok' if dl_decided else 'undecided'), dl_why or '', nontrivial=dl_ok > 0, node=dl, file=BER)
    if dl_bad:
        ctx.violation('C04.R1', BER, dl, Model.qual(dl), dl_bad + ': a length form X.690 allows is not read as the encoder of another implementation wrote it', stmt='decode_length evaluation')
    dps = sem.paths(dl)
    if dps is None and not dl_decided:
        raise AnalysisError('decode_length: too many paths')
    dps = dps or []
    if not dl_decided:
        # the path on which the first length octet equals 0x80 and definite lengths are not enforced returns None as the length
        indef = [p for p in dps if p.outcome[0] == 'return' and isinstance(p.outcome[3], ast.Tuple) and isinstance(p.outcome[3].elts[0], ast.Constant)
                 and p.outcome[3].elts[0].value is None]
        ok = bool(indef) and all(any('-128 == 0' in c[0] and c[1] for c in p.conds) for p in indef)
        ctx.instance('C04.R1', 'decode_length maps 0x80 to (None, offset)', 'ok' if ok else 'VIOLATION', node=dl, file=BER)
        if not ok:
            ctx.violation('C04.R1', BER, dl, Model.qual(dl), 'the indefinite-length octet 0x80 must yield length None', stmt='0x80 -> None')

    # ---- R2
    def arith_on(expr, name):
        """Is `name` an operand of arithmetic / an ordering comparison in expr (not merely passed on as an argument)?"""
        for n in ast.walk(expr):
            if isinstance(n, ast.BinOp) or (isinstance(n, ast.Compare) and not all(isinstance(o, (ast.Is, ast.IsNot)) for o in n.ops)):
                stack = [n.left, n.right] if isinstance(n, ast.BinOp) else [n.left] + list(n.comparators)
                while stack:
                    x = stack.pop()
                    if isinstance(x, ast.Name) and x.id == name:
                        return n
                    if isinstance(x, ast.Call):
                        continue
                    stack.extend(ast.iter_child_nodes(x))
        return None
    def length_handling(f, L, depth=0):
        """-> (verdict 'ok'|'undecided'|'bad', why, number of paths): the function distinguishes `L is None` before using L arithmetically
        and its indefinite-form returns follow an end-of-contents search; a function that only hands L to a helper is decided there."""
        cls_ = getattr(f, '_cls', None)
        res = sem.class_resolver(cls_) if cls_ is not None else sem.module_resolver(f._mod)
        ps = sem.paths(f, resolver=res)     # a helper that computes the end offset is looked into
        if ps is None:
            return 'undecided', 'too many paths', 0
        ps = sem.with_loop_bodies(ps)
        none_lit = '%s is None' % L
        bad = None
        has_none = any(p.has(none_lit, True) for p in ps)
        ends_ok = True
        for p in ps:
            is_none = p.has(none_lit, True)
            is_some = p.has(none_lit, False)
            exprs = [c[3] for c in p.conds if c[0] != none_lit] + [ev[3] for ev in p.events if len(ev) > 3 and ev[0].endswith('call')]
            if p.outcome[0] == 'return' and len(p.outcome) > 3:
                exprs.append(p.outcome[3])
            if not is_some:
                for e in exprs:
                    hit = arith_on(e, L)
                    if hit is not None:
                        bad = hit
                        break
            if is_none and p.outcome[0] == 'return':
                if not (p.calls('detect_end_of_contents_tag') or p.calls('is_end_of_data') or any('decode_' in (sem.callee_name(n_) or '') and 'members' in (sem.callee_name(n_) or '') for _t, n_ in p.calls())):
                    ends_ok = False
            if bad is not None:
                break
        if bad is None and not has_none and depth < 2:
            # the length is only handed on: decided in the callee that receives it
            for n in walk_no_nested(f):
                if isinstance(n, ast.Call) and any(isinstance(a_, ast.Name) and a_.id == L for a_ in n.args):
                    g = res(n)
                    if g is None or g is f:
                        continue
                    gp = [a_.arg for a_ in g.args.args]
                    if gp and gp[0] in ('self', 'cls') and isinstance(n.func, ast.Attribute):
                        gp = gp[1:]
                    for pn, a_ in zip(gp, n.args):
                        if isinstance(a_, ast.Name) and a_.id == L:
                            v_, why_, np_ = length_handling(g, pn, depth + 1)
                            return v_, ('in %s: %s' % (g.name, why_)) if why_ else 'decided in %s' % g.name, np_
        if bad is not None:
            return 'bad', 'uses `%s` arithmetically (%s) on a path that has not established `%s is not None`' % (L, ast.unparse(bad), L), len(ps)
        if not has_none:
            return 'bad', 'never distinguishes `%s is None`' % L, len(ps)
        if not ends_ok:
            return 'bad', 'a path for the indefinite form returns without looking for the end-of-contents octets', len(ps)
        return 'ok', '', len(ps)

    for qual in ('MembersType.decode_content', 'ArrayType.decode_content', 'ExplicitTag.decode_content', 'PrimitiveOrConstructedType.decode_constructed_contents'):
        f = model.func(BER, qual)
        params = flow.param_names(f)
        if len(params) < 4:
            raise AnalysisError('%s: expected (self, data, offset, length)' % Model.qual(f))
        verdict, why, np_ = length_handling(f, params[3])
        if verdict == 'undecided':
            ctx.instance('C04.R2', '%s handles length None' % Model.qual(f), 'undecided', why, nontrivial=False, node=f, file=BER)
            continue
        ok = verdict == 'ok'
        ctx.instance('C04.R2', '%s handles length None before arithmetic and ends on end-of-contents [%d paths]' % (Model.qual(f), np_), 'ok' if ok else 'VIOLATION', why, node=f, file=BER)
        if not ok:
            ctx.violation('C04.R2', BER, f, Model.qual(f), '%s: an indefinite-length encoding of this constructed type raises TypeError / is misparsed' % why, stmt='length None handling')
    f = model.func(BER, 'is_end_of_data')
    ps = sem.paths(f, positional=True)
    # specification of the four cases over (data, offset, end_offset) = (ARG0, ARG1, ARG2)
    table = {}
    for p in ps or []:
        table.setdefault(frozenset(p.cond_set()), set()).add(p.outcome[1] if p.outcome[0] == 'return' else p.outcome[0])
    def lit(src, flip=False):
        t, pol = sem.ccond(sem.parse_expr(src))
        return (t, pol != flip)
    ret = lambda src: sem.ctext(sem.parse_expr(src))
    want = {
        frozenset({lit('ARG2 is None'), lit('detect_end_of_contents_tag(ARG0, ARG1)')}): {ret('(True, ARG1 + 2)')},
        frozenset({lit('ARG2 is None'), lit('detect_end_of_contents_tag(ARG0, ARG1)', True)}): {ret('(False, ARG1)')},
        frozenset({lit('ARG2 is None', True), lit('ARG1 >= ARG2')}): {ret('(True, ARG1)')},
        frozenset({lit('ARG2 is None', True), lit('ARG1 >= ARG2', True)}): {ret('(False, ARG1)')},
    }
    ok = table == want
    e_ok, e_und, e_bad, e_why = excmap.evaluate_is_end_of_data(f)
    how = ''
    if e_und == 0 and e_ok > 0:
        # decided by evaluation (definite and indefinite cases, end-of-contents consumed)
        ok = e_bad is None
        how = 'decided by evaluation on %d cases' % e_ok
    ctx.instance('C04.R2', 'is_end_of_data: definite -> offset >= end_offset, indefinite -> 00 00 consumed [%d cases]' % len(table), 'ok' if ok else 'VIOLATION', how, node=f, file=BER)
    if not ok:
        diff = [e_bad] if e_bad else sorted('%s -> %s' % (' & '.join(('' if p else 'not ') + t for t, p in sorted(k)), sorted(v)) for k, v in table.items() if want.get(k) != v)
        ctx.violation('C04.R2', BER, f, Model.qual(f), 'end-of-data detection changed (definite: offset >= end_offset; indefinite: end-of-contents octets, consumed): %s' % '; '.join(diff)[:400], stmt='is_end_of_data')

    # is_end_of_data consumes the end-of-contents octets when it reports the end of an indefinite form (it returns an advanced offset):
    # once it has reported the end it must not be evaluated again on that value (typestate over the flag it returns)
    from .. import typestate
    eod = model.func(BER, 'is_end_of_data')
    eps_ = sem.paths(eod, positional=True) or []
    consumes = any(p_.outcome[0] == 'return' and isinstance(p_.outcome[3], ast.Tuple) and len(p_.outcome[3].elts) == 2 and isinstance(p_.outcome[3].elts[0], ast.Constant)
                   and p_.outcome[3].elts[0].value is True and sem.ctext(p_.outcome[3].elts[1]) != 'ARG1' for p_ in eps_)
    n_ts = 0
    for rel_ in (BER, 'asn1tools/codecs/der.py'):
        for g_ in [n_ for n_ in ast.walk(model.mod(rel_).tree) if isinstance(n_, ast.FunctionDef) and n_ is not eod]:
            if not any(isinstance(c_, ast.Call) and sem.callee_name(c_) == eod.name for c_ in walk_no_nested(g_)):
                continue
            if not consumes:
                ctx.instance('C04.R2', '%s: %s is idempotent, repeated evaluation is harmless' % (Model.qual(g_), eod.name), 'n/a', nontrivial=False, node=g_, file=rel_)
                continue
            ts = typestate.FlagTypestate(g_, eod.name)
            if not ts.flags:
                ctx.instance('C04.R2', '%s: end-of-data flag' % Model.qual(g_), 'undecided', 'the result of %s is not bound to a flag variable' % eod.name, nontrivial=False, node=g_, file=rel_)
                continue
            viol = ts.run()
            n_ts += 1
            ctx.instance('C04.R2', '%s: %s is not evaluated again once it reported the end (%d call sites, flag %s)' % (Model.qual(g_), eod.name, len(ts.calls), '/'.join(sorted(ts.flags))),
                         'ok' if not viol else 'VIOLATION', node=g_, file=rel_)
            for call_, fl_ in viol[:1]:
                ctx.violation('C04.R2', rel_, call_, Model.qual(g_),
                              '%s(...) can be evaluated again after it has already reported the end of the contents (%s may be True here): for the indefinite form the first report '
                              'consumed the end-of-contents octets, so the second evaluation inspects the octets that follow the value and the decoder mis-parses or over-reads'
                              % (eod.name, fl_), stmt='end-of-contents consumed twice')

    # ---- R3
    f = model.func(BER, 'Choice.get_member_tags')
    attrs = {n.attr for n in walk_no_nested(f) if isinstance(n, ast.Attribute)}
    adds = [c for c in walk_no_nested(f) if isinstance(c, ast.Call) and isinstance(c.func, ast.Attribute) and c.func.attr in ('append', 'extend', 'add', 'update', 'insert')
            and any(isinstance(x, ast.Attribute) and x.attr == 'constructed_tag' for a in c.args for x in ast.walk(a))]
    ok = 'constructed_tag' in attrs and bool(adds)
    ctx.instance('C04.R3', 'Choice.get_member_tags adds the constructed-tag alias', 'ok' if ok else 'VIOLATION', node=f, file=BER)
    if not ok:
        ctx.violation('C04.R3', BER, f, Model.qual(f), 'a string alternative of a CHOICE in constructed form is no longer dispatched (tag alias with the constructed bit missing)', stmt='constructed alias')
    isinst = {ast.unparse(c.args[1]) for c in walk_no_nested(f) if isinstance(c, ast.Call) and isinstance(c.func, ast.Name) and c.func.id == 'isinstance' and len(c.args) == 2}
    rec = [c for c in sem.method_calls(f, 'get_member_tags') if any(isinstance(x, ast.Attribute) and x.attr == 'inner' for a in c.args for x in ast.walk(a))]
    ok = 'Choice' in isinst and bool(sem.method_calls(f, 'get_choice_tags')) and 'Recursive' in isinst and bool(rec)
    ctx.instance('C04.R3', 'Choice.get_member_tags recurses into nested CHOICE and Recursive', 'ok' if ok else 'VIOLATION', node=f, file=BER)
    if not ok:
        ctx.violation('C04.R3', BER, f, Model.qual(f), 'untagged nested CHOICE / recursive alternatives are no longer reachable by their tags', stmt='nested alternatives')
    # wherever the tags of *other* type objects (members, alternatives) are collected for dispatch -- a map keyed by <member>.tag, a list or set of them -- the
    # constructed-form alias of string types has to be collected with them: a string member in constructed (segmented) form carries the tag with bit 6 set
    n_maps = 0
    for rel_ in (BER, 'asn1tools/codecs/der.py'):
        for g_ in [n for n in ast.walk(model.mod(rel_).tree) if isinstance(n, ast.FunctionDef)]:
            if g_.name.startswith(('encode', '__repr__', 'format_')):
                continue

            def other_tag(e):
                return any(isinstance(x, ast.Attribute) and x.attr == 'tag' and isinstance(x.ctx, ast.Load) and not (isinstance(x.value, ast.Name) and x.value.id == 'self')
                           for x in ast.walk(e))
            sites = []
            for n in walk_no_nested(g_):
                if isinstance(n, ast.DictComp) and other_tag(n.key):
                    sites.append(n)
                elif isinstance(n, (ast.SetComp, ast.ListComp)) and other_tag(n.elt) and not isinstance(getattr(n, '_parent', None), ast.Call):
                    sites.append(n)
                elif isinstance(n, ast.Call) and isinstance(n.func, ast.Attribute) and n.func.attr in ('append', 'add', 'setdefault') and n.args and other_tag(n.args[0]):
                    sites.append(n)
                elif isinstance(n, ast.Assign) and any(isinstance(t_, ast.Subscript) and other_tag(t_.slice) for t_ in n.targets):
                    sites.append(n)
            for st_ in sites:
                n_maps += 1
                ok = any(isinstance(x, ast.Attribute) and x.attr == 'constructed_tag' for x in ast.walk(g_))
                ctx.instance('C04.R3', '%s collects member tags for dispatch: %s' % (Model.qual(g_), ast.unparse(st_)[:70]), 'constructed alias collected too' if ok else 'VIOLATION', node=st_, file=rel_)
                if not ok:
                    ctx.violation('C04.R3', rel_, st_, Model.qual(g_),
                                  '`%s` dispatches on the tags of the members but never registers their constructed_tag: a string member in constructed (segmented) form -- valid BER -- '
                                  'is not found by its tag, and the value or the rest of the SET is lost' % ast.unparse(st_)[:90], stmt='member tags without the constructed alias')
    if n_maps < 1:
        ctx.instance('C04.R3', 'collections of member tags for dispatch', 'undecided', 'no map / list keyed by <member>.tag recognised', nontrivial=False, file=BER)
    f = model.func(BER, 'Choice.decode')
    ps = sem.paths(f)
    # the key looked up in tag_to_member is what read_tag() returns (membership test, subscript or .get())
    def full_tag_lookup(p):
        if any('read_tag(' in c[0] and c[0].endswith(' in self.tag_to_member') and c[1] for c in p.conds):
            return True
        if any('read_tag(' in c[0] and 'self.tag_to_member' in c[0] for c in p.conds):
            return True
        return any(ev[0] == 'call' and ev[1].startswith('self.tag_to_member.get(') and 'read_tag(' in ev[1] for ev in p.events)
    ok = ps is not None and any(full_tag_lookup(p) for p in ps)
    ctx.instance('C04.R3', 'Choice.decode dispatches on the full identifier octets', 'ok' if ok else ('undecided' if ps is None else 'VIOLATION'), node=f, file=BER)
    if not ok and ps is not None:
        ctx.violation('C04.R3', BER, f, Model.qual(f), 'CHOICE dispatch no longer uses the complete identifier octets', stmt='tag dispatch')

    # ---- R4
    f0 = model.func(BER, 'MembersType.decode_members')
    # the member loop may live in a method decode_members delegates to
    fam4 = [g_ for g_ in flow.local_reach(model, f0, limit=2) if getattr(g_, '_cls', None) is not None and g_._cls is f0._cls]
    with_loop = [g_ for g_ in fam4 if any(isinstance(n, ast.While) for n in walk_no_nested(g_))]
    f = with_loop[0] if with_loop else f0
    ws = [n for n in walk_no_nested(f) if isinstance(n, ast.While)]
    from ..callgraph import CallGraph
    cg = CallGraph(model)
    found = False
    for w in ws:
        tmpl, ok, why = loops.classify_while(w, f, model, cg)
        if tmpl != 'T-RETRY':
            continue
        found = True
        ctx.instance('C04.R4', 'MembersType.decode_members retry loop: %s' % tmpl, 'ok' if ok else 'VIOLATION', why, node=w, file=BER)
        if not ok:
            ctx.violation('C04.R4', BER, w, Model.qual(f), 'members that did not match in this pass must be offered again while another member decoded (%s): SET components in any order are valid BER' % why, stmt='retry loop')
    if not found:
        # the member loop is not in the retry shape any more: either it gives up after one pass (a violation) or it was rewritten
        # in a way this template does not follow.  One pass over the members = a `for` over them that is not inside a loop that re-offers.
        single = [n for n in walk_no_nested(f) if isinstance(n, ast.For) and any(isinstance(c, ast.Call) and loops.is_type_decode_call(c, loops.decode_aliases(f)) for c in walk_no_nested(n))]
        gives_up = bool(single) and all(not any(isinstance(a, ast.While) for a in flow.ancestors(n) if a is not f) or
                                        any(isinstance(s, ast.Break) for a in flow.ancestors(n) if isinstance(a, ast.While) for s in a.body) for n in single)
        ctx.instance('C04.R4', 'MembersType.decode_members retry loop', 'VIOLATION' if gives_up else 'undecided', node=f, file=BER)
        if gives_up:
            ctx.violation('C04.R4', BER, f, Model.qual(f), 'members that did not match in this pass must be offered again while another member decoded (the member loop runs a single pass): SET components in any order are valid BER', stmt='retry loop')
        else:
            ctx.note('C04.R4: decode_members has no loop in the retry shape: undecided')
    # a mismatching member must not consume input nor abort: TAG_MISMATCH -> deferred to a list
    ok = any(isinstance(n, ast.If) and 'TAG_MISMATCH' in ast.unparse(n.test) and
             any(isinstance(c, ast.Call) and isinstance(c.func, ast.Attribute) and c.func.attr in ('append', 'add', 'extend', 'insert') for s in n.body + n.orelse for c in ast.walk(s))
             for g4 in ([f] + [x for x in fam4 if x is not f]) for n in walk_no_nested(g4))
    ctx.instance('C04.R4', 'a member whose tag does not match is deferred, not an error', 'ok' if ok else 'VIOLATION', node=f, file=BER)
    if not ok:
        ctx.violation('C04.R4', BER, f, Model.qual(f), 'a tag mismatch must defer the member to the next pass', stmt='defer on mismatch')

    # ---- R5
    poc = model.cls(BER, 'PrimitiveOrConstructedType')
    n5 = 0
    pinit = poc.methods['__init__']
    pparams = flow.param_names(pinit)[1:]
    seg_idx = pparams.index('segment') if 'segment' in pparams else 3
    for kind, cell in sorted(tab.cells.items()):
        c = cell.cls
        if c is None or poc not in c.mro():
            continue
        n5 += 1
        init = c.find_method('__init__')[1]
        seg = None
        for n in walk_no_nested(init):
            if isinstance(n, ast.Call) and isinstance(n.func, ast.Attribute) and n.func.attr == '__init__':
                if len(n.args) > seg_idx:
                    seg = ast.unparse(n.args[seg_idx])
                for k in n.keywords:
                    if k.arg == 'segment':
                        seg = ast.unparse(k.value)
        ok = seg == 'self' if kind in ('BIT STRING', 'OCTET STRING') else (seg is not None and seg.startswith('OctetString('))
        ctx.instance('C04.R5', "ber['%s'] -> %s segment = %s" % (kind, c.qname, seg), 'ok' if ok else 'VIOLATION', node=init, file=BER)
        if not ok:
            ctx.violation('C04.R5', BER, init, '%s::%s.__init__' % (BER, c.name), 'segments of a constructed %s must be decoded as %s (X.690 8.7/8.21)' % (kind, 'the same type' if kind in ('BIT STRING', 'OCTET STRING') else 'OCTET STRING'), stmt='segment type')
    if n5 < 12:
        raise AnalysisError('C04.R5 found only %d primitive-or-constructed cells' % n5)
    # every definition of decode_constructed_contents (the base class and any subclass that overrides it, in ber and der)
    from .. import defaults
    defs = [(poc, poc.methods['decode_constructed_contents'])]
    for rel_ in (BER, 'asn1tools/codecs/der.py'):
        for c_ in model.mod(rel_).classes.values():
            if c_ is not poc and poc in c_.mro() and 'decode_constructed_contents' in c_.methods:
                defs.append((c_, c_.methods['decode_constructed_contents']))
    for c_, f in defs:
        v = sem.View(f)
        segdec = [c for c in sem.method_calls(f, 'decode', v) if isinstance(v.expr(c.func), ast.Attribute) and v.text(v.expr(c.func).value) == 'self.segment']
        if not segdec:
            # through a helper that is handed the segment type and calls its decode
            segdec = [st_ for st_ in defaults.EncodeSites(c_, method='decode').sites if st_[0] is f and st_[2] == 'self.segment']
        # a segment is never decoded with the type object itself: `self` may carry an IMPLICIT tag, the segments always carry the universal one
        own = [c for c in sem.method_calls(f, 'decode', v) if isinstance(v.expr(c.func), ast.Attribute) and v.text(v.expr(c.func).value) == 'self']
        delegates = any(isinstance(c.func, ast.Attribute) and isinstance(c.func.value, ast.Call) and ast.unparse(c.func.value.func) == 'super' and c.func.attr == 'decode_constructed_contents'
                        for c in walk_no_nested(f) if isinstance(c, ast.Call))
        ok = (bool(segdec) and bool(sem.method_calls(f, 'decode_constructed_segments', v)) or delegates) and not own
        ctx.instance('C04.R5', '%s decodes each segment with the segment type (nested segmentation recurses)' % Model.qual(f), 'ok' if ok else 'VIOLATION', node=f, file=f._mod.rel)
        if not ok:
            ctx.violation('C04.R5', f._mod.rel, own[0] if own else f, Model.qual(f),
                          'constructed contents must be decoded segment by segment through self.segment.decode%s' %
                          (': here the segments are decoded with `self`, whose tag may have been replaced by an IMPLICIT tag while the segments keep the universal tag' if own else ''),
                          stmt='segment recursion')
    st = model.cls(BER, 'StringType')
    f = st.methods['decode_constructed_segments']
    segs = flow.param_names(f)[1]
    # the text decoding (.decode(self.ENCODING)) is applied to the join of all segments, not inside a loop/comprehension over them
    decs = [c for c in walk_no_nested(f) if isinstance(c, ast.Call) and isinstance(c.func, ast.Attribute) and c.func.attr == 'decode' and 'ENCODING' in ast.unparse(c)]
    v = sem.View(f)
    ok = len(decs) == 1
    if ok:
        recv = v.expr(decs[0].func.value)
        ok = isinstance(recv, ast.Call) and isinstance(recv.func, ast.Attribute) and recv.func.attr == 'join' and segs in names_in(recv) \
            and not any(isinstance(a, (ast.GeneratorExp, ast.ListComp, ast.For)) for a in flow.ancestors(decs[0]) if a is not f)
    if not ok and not decs:
        # the text decoding may be a step of its own (self.decode_octets(<joined segments>)): the join is handed, once and outside any loop, to a method of the object
        # whose result is <its parameter>.decode(<encoding>)
        for c_ in walk_no_nested(f):
            if isinstance(c_, ast.Call) and isinstance(c_.func, ast.Attribute) and isinstance(c_.func.value, ast.Name) and c_.func.value.id == 'self' and len(c_.args) == 1:
                a_ = v.expr(c_.args[0])
                r_ = st.find_method(c_.func.attr)
                if r_ is None or not (isinstance(a_, ast.Call) and isinstance(a_.func, ast.Attribute) and a_.func.attr == 'join' and segs in names_in(a_)):
                    continue
                g_ = r_[1]
                gp_ = [p_ for p_ in flow.param_names(g_) if p_ != 'self']
                rets_ = [x_ for x_ in walk_no_nested(g_) if isinstance(x_, ast.Return) and x_.value is not None]
                dec_ret = rets_ and all(isinstance(x_.value, ast.Call) and isinstance(x_.value.func, ast.Attribute) and x_.value.func.attr == 'decode'
                                        and isinstance(x_.value.func.value, ast.Name) and x_.value.func.value.id in gp_ for x_ in rets_)
                in_loop = any(isinstance(an_, (ast.GeneratorExp, ast.ListComp, ast.For)) for an_ in flow.ancestors(c_) if an_ is not f)
                if dec_ret and not in_loop:
                    ok = True
    ctx.instance('C04.R5', 'StringType.decode_constructed_segments decodes the text once, from the joined segments', 'ok' if ok else 'VIOLATION', node=f, file=BER)
    if not ok:
        ctx.violation('C04.R5', BER, f, Model.qual(f),
                      'the character decoding must be applied to the concatenation of all segments: X.690 lets a segment boundary fall anywhere, also inside a multi-octet '
                      'character (UTF-8, BMPString, UniversalString), which per-segment decoding rejects', stmt='join before decode')
    bs = model.cls(BER, 'BitString').methods['decode_constructed_segments']
    segs = flow.param_names(bs)[1]
    # both components of every segment (octets, bit count) flow into the returned value
    rets = [r for r in walk_no_nested(bs) if isinstance(r, ast.Return) and r.value is not None]
    loops_over = [n for n in walk_no_nested(bs) if isinstance(n, (ast.For, ast.comprehension)) and segs in names_in(n.iter)]
    ok = bool(rets) and bool(loops_over)
    if ok:
        comp = set()
        for lp in loops_over:
            comp |= set(flow.target_names(lp.target))
        for nm in comp:
            d, ed = flow.deps(bs, sources={nm})
            if not any(nm in ed(r.value) for r in rets):
                ok = False
        if len(comp) < 2:
            # `for segment in segments`: both segment[0] and segment[1] must be read
            subs = {ast.unparse(n.slice) for n in walk_no_nested(bs) if isinstance(n, ast.Subscript) and isinstance(n.value, ast.Name) and n.value.id in comp}
            ok = ok and {'0', '1'} <= subs
    ctx.instance('C04.R5', 'BitString.decode_constructed_segments: octets and bit count of every segment reach the result', 'ok' if ok else 'VIOLATION', node=bs, file=BER)
    if not ok:
        ctx.violation('C04.R5', BER, bs, Model.qual(bs), 'constructed BIT STRING segments must be concatenated and their bit counts added', stmt='bit string segments')

    # ---- R6
    # decode_length may refuse an encoding only because (a) the indefinite form is not allowed here, or (b) octets are missing
    # (a comparison with the amount of data present).  Any other reason to raise is a restriction BER does not have
    # (bound on the number of length octets, minimality).
    extra = []
    n_raise = 0
    for p in dps:
        if p.outcome[0] != 'raise' or not p.conds:
            continue
        n_raise += 1
        t, pol = p.conds[-1][0], p.conds[-1][1]
        if (t == 'enforce_definite' and pol) or 'len(' in t:
            continue
        extra.append(('' if pol else 'not ') + t)
    if dl_decided:
        # non-minimal long forms and a length in nine octets are among the evaluated cases: nothing but missing data / a forbidden indefinite form is refused
        extra = []
        ctx.instance('C04.R6', 'decode_length accepts non-minimal and many-octet long forms (evaluated under R1)', 'ok' if not dl_bad else 'see C04.R1', node=dl, file=BER)
    else:
        ctx.instance('C04.R6', 'decode_length: %d raising paths, each for a missing-data or enforce_definite reason' % n_raise, 'ok' if not extra else 'VIOLATION', node=dl, file=BER)
        if n_raise < 3:
            raise AnalysisError('decode_length: only %d raising paths seen' % n_raise)
    if extra:
        ctx.violation('C04.R6', BER, dl, Model.qual(dl),
                      'decode_length also rejects encodings when %s: BER allows any number of length octets and non-minimal lengths (only DER forbids them)' % sorted(set(extra)), stmt='extra length test')


    # ---- R7: the binary form of REAL (X.690 8.5.7): sign, base 2 / 8 / 16, scaling factor 0..3, exponent of one, two, three or a counted number of octets, mantissa N:
    #      value = S * N * 2**F * B**E.  A BER decoder accepts every combination (DER and this tool's encoder use base 2, F = 0, the shortest exponent).  decode_real is
    #      evaluated (sa/evalexpr.py) on encodings of small values in every form.
    ctx.rule('C04.R7', 'REAL, binary form: every base / scaling factor / exponent form of X.690 8.5.7 is decoded to S * N * 2**F * B**E (bounded evaluation of decode_real)')
    from .. import evalexpr as _ev7
    dr = model.mod(BER).functions.get('decode_real')
    if dr is None:
        ctx.instance('C04.R7', 'ber.decode_real', 'undecided', 'function not found', nontrivial=False, file=BER)
    else:
        dp7 = flow.param_names(dr)[0]
        cases7 = []
        for sign in (0, 1):
            for bbits, base in ((0, 2), (1, 8), (2, 16)):
                for fac in (0, 1, 3):
                    for eform in (0, 1, 2, 3):
                        for exp in (0, 1, -1, 3):
                            for mant in (1, 5, 0x0a):
                                control = 0x80 | (sign << 6) | (bbits << 4) | (fac << 2) | eform
                                if eform < 3:
                                    eo = exp.to_bytes(eform + 1, 'big', signed=True)
                                else:
                                    eo = b'\x01' + exp.to_bytes(1, 'big', signed=True)
                                data = bytes([control]) + eo + bytes([mant])
                                want = (-1 if sign else 1) * mant * (2 ** fac) * (float(base) ** exp)
                                cases7.append((data, want, (base, fac, eform)))
        n_ok = n_und = 0
        bad7 = {}
        und7 = ''
        for data, want, form in cases7:
            try:
                got, _e = _ev7.run_function(dr, {dp7: bytearray(data)})
            except _ev7.Raised as e_:
                bad7.setdefault(form, (data, 'raises %s' % e_.name, want))
                continue
            except (_ev7.Unsupported, TypeError, KeyError) as e_:
                n_und += 1
                und7 = und7 or str(e_)[:80]
                continue
            if isinstance(got, (int, float)) and float(got) == want:
                n_ok += 1
            else:
                bad7.setdefault(form, (data, 'gives %r' % (got,), want))
        ctx.instance('C04.R7', 'ber.decode_real on %d binary REAL encodings (%d forms; %d undecided)' % (n_ok + sum(1 for _ in bad7), 36, n_und),
                     'VIOLATION' if bad7 else ('ok' if n_ok > n_und else 'undecided'), und7, nontrivial=n_ok > 0, node=dr, file=BER)
        if bad7:
            forms = sorted(bad7)
            data, what, want = bad7[forms[0]]
            ctx.violation('C04.R7', BER, dr, Model.qual(dr),
                          'decode_real(%s) %s; X.690 8.5.7 gives %r (base %d, scaling factor %d, exponent form %d).  %d of the 36 (base, scaling factor, exponent form) combinations of the '
                          'binary form are not decoded: a REAL sent by an encoder that uses base 8 / 16, a scaling factor or a three-octet / counted exponent is rejected'
                          % (data.hex(), what, want, forms[0][0], forms[0][1], forms[0][2], len(forms)), stmt='binary REAL forms')

MUTANTS = [
    dict(name='end-of-data re-evaluated at the head of every member iteration', file=BER,
         old="""                if out_of_data:
                    undecoded_members.append(member)
                    continue
""", new="""                out_of_data, offset = is_end_of_data(data, offset, end_offset)
                if out_of_data:
                    undecoded_members.append(member)
                    continue
""", expect='C04.R2'),
    dict(name='ArrayType loses indefinite_allowed', file=BER, quick=True,
         old="""class ArrayType(StandardEncodeMixin, StandardDecodeMixin, Type):
    indefinite_allowed = True
""", new="""class ArrayType(StandardEncodeMixin, StandardDecodeMixin, Type):
""", expect='C04.R1'),
    dict(name='choice tags without constructed alias', file=BER, quick=True,
         old="""            if hasattr(member, 'constructed_tag'):
                tags.append(bytes(member.constructed_tag))
""", new="", expect='C04.R3'),
    dict(name='decode_length caps the number of length octets', file=BER, quick=True,
         old="""            number_of_bytes = (length & 0x7f)
            encoded_length = encoded[offset:number_of_bytes + offset]""",
         new="""            number_of_bytes = (length & 0x7f)

            if number_of_bytes > 4:
                raise DecodeError('Too many length octets.', offset=offset)

            encoded_length = encoded[offset:number_of_bytes + offset]""", expect=('C04.R6', 'C04.R1')),
    dict(name='ExplicitTag ignores indefinite length', file=BER,
         old="""        # Verify End of Contents tag exists for Indefinite field
        if length is None:
            if not detect_end_of_contents_tag(data, end_offset):
                raise NoEndOfContentsTagError('Expected end-of-contents tag.',
                                              offset=end_offset,
                                              location=self)
            end_offset += 2

        return values, end_offset""", new="""        return values, end_offset""", expect='C04.R2'),
    dict(name='text decoded per segment', file=BER,
         old="        return bytearray().join(segments).decode(self.ENCODING)", new="        return ''.join(segment.decode(self.ENCODING) for segment in segments)", expect='C04.R5'),
    dict(name='member loop gives up after one pass', file=BER,
         old="""            remaining_members = undecoded_members
            if out_of_data:
                break

            if not decode_success:
                # No members are able to decode data, exit loop
                break""", new="""            remaining_members = undecoded_members
            break""", expect='C04.R4'),
]
REFACTORS = []

MUTANTS.append(dict(name='BIT STRING decodes its constructed segments with the (possibly re-tagged) type itself', file=BER,
                    old="""    def decode_constructed_segments(self, segments):
        decoded = bytearray()
        number_of_bits = 0""", new="""    def decode_constructed_contents(self, data, offset, length):
        segments = []
        end_offset = None if length is None else offset + length

        while True:
            end_of_data, offset = is_end_of_data(data, offset, end_offset)
            if end_of_data:
                break

            decoded, offset = self.decode(data, offset)
            check_decode_error(self, decoded, data, offset)
            segments.append(decoded)

        return self.decode_constructed_segments(segments), offset

    def decode_constructed_segments(self, segments):
        decoded = bytearray()
        number_of_bits = 0""", expect='C04.R5'))
