"""C13 -- compiling is independent of compile history (DESIGN.md section 4 C13)."""
import ast
import re

from ..model import AnalysisError, Model, ClassInfo, walk_no_nested, norm_stmt, names_in
from ..callgraph import CallGraph
from .. import flow, effects, sem

EXPLANATION = (
    'The parsed specification dictionary is shared by every compile of it.  Decided: (R1) who may write: values derived from the '
    'specification dictionary (taint from self._specification / descriptor parameters, cut at deepcopy/dict/list/sorted) are written '
    'only in Compiler.pre_process* and _compile_any_defined_by_*; the ten codec/checker compilers are read-only over descriptors; '
    '(R2) each in-place rewrite is idempotent: it carries the guard that makes a second run the identity (listed per site, or the '
    'generic `key not in d` form); an unlisted rewrite is a violation; (R3) no rewrite depends on a per-call option (numeric_enums, '
    'codec): a later compile with another option would see the earlier value; (R4) values written are literal-representable '
    '(no instances of library classes), so pformat/eval round-trips; (R5) no compile-reachable function reads or writes module-level '
    'mutable state (a memo keyed on less than all inputs makes the result depend on the previous compile).  '
    'Not decided: behavioural equality of the resulting codec objects.')
BASE = 'asn1tools/codecs/compiler.py'
COMP = 'asn1tools/compiler.py'
CODECS = ['ber', 'der', 'per', 'uper', 'oer', 'jer', 'xer', 'gser', 'type_checker', 'constraints_checker']
DESC_PARAMS = {'type_descriptor', 'type_descriptors', 'member', 'members', 'module', 'types', 'specification', 'type_',
               'resolved_member', 'parameterized_type_descriptor', 'tag'}
MUTATORS = {'append', 'extend', 'insert', 'pop', 'remove', 'clear', 'update', 'setdefault', 'sort', 'reverse', 'popitem'}

# Site-specific second-run arguments that no generic recogniser covers, keyed by *what is written* (a fragment of the canonical
# store text) -> (fragment a condition established before the write -- or a helper called in the written value -- must mention, reason)
SPECIFIC = [
    ("['members'] = ", "'components-of'", 'expansion replaces the {components-of} entries; none is left for a second run'),
    ("['tag']['number'] = ", 'is_any_member_tagged(', 'numbering happens only while no member is tagged; after the first run every member is'),
    ("['types'] = ", "'parameters'", 'filtering / instantiating parameterized types is a projection'),
]
OPTION_ATTRS = ('_numeric_enums',)


def is_cut(e):
    """Expressions whose value is a fresh object, not the shared descriptor."""
    if isinstance(e, ast.Call):
        fn = ast.unparse(e.func)
        if fn in ('deepcopy', 'copy.deepcopy', 'dict', 'list', 'sorted', 'flatten', 'len', 'str', 'int', 'tuple', 'enumerate', 'zip'):
            return fn not in ('flatten', 'enumerate', 'zip', 'list', 'tuple')   # flatten/list/enumerate keep the element objects
        return False
    if isinstance(e, (ast.Dict, ast.Constant, ast.ListComp, ast.DictComp)):
        return isinstance(e, (ast.Dict, ast.Constant)) and not (isinstance(e, ast.Dict) and e.keys)
    return False


def write_sites(f):
    """(node, root name, description) of in-place writes in f."""
    out = []
    for n in walk_no_nested(f):
        if isinstance(n, (ast.Assign, ast.AugAssign, ast.Delete)):
            tgs = n.targets if not isinstance(n, ast.AugAssign) else [n.target]
            for t in tgs:
                for tt in (t.elts if isinstance(t, (ast.Tuple, ast.List)) else [t]):
                    if isinstance(tt, ast.Subscript):
                        r = flow._root(tt)
                        if r and r != 'self':
                            out.append((n, r, norm_stmt(n)))
        elif isinstance(n, ast.Call) and isinstance(n.func, ast.Attribute) and n.func.attr in MUTATORS:
            r = flow._root(n.func.value)
            if r and r != 'self':
                out.append((n, r, norm_stmt(Model.enclosing_stmt(n))))
    return out


STRIP_CALLS = ('flatten', 'list', 'enumerate', 'zip', 'reversed', 'tuple', 'iter')
STRIP_METHODS = ('values', 'items', 'keys', 'get', 'setdefault', 'pop')


def alias_root(e, al=()):
    """Root Name of an expression that denotes (part of) the same object graph as its root:
    subscripts, attributes, dict views, flatten()/list()/enumerate() wrappers.  None if the
    expression builds a new object (deepcopy, dict(), displays, other calls)."""
    while True:
        if isinstance(e, ast.Name):
            return e.id
        if isinstance(e, (ast.Subscript, ast.Attribute, ast.Starred)):
            if isinstance(e, ast.Attribute) and e.attr == '_specification':
                return '__spec__'
            e = e.value
        elif isinstance(e, ast.Call):
            fn = e.func
            if isinstance(fn, ast.Name) and fn.id in STRIP_CALLS and e.args:
                e = e.args[0]
            elif isinstance(fn, ast.Attribute) and fn.attr in STRIP_METHODS:
                e = fn.value
            elif isinstance(fn, ast.Attribute) and isinstance(fn.value, ast.Name) and fn.value.id == 'self' \
                    and not fn.attr.startswith('compile') and fn.attr not in ('copy',):
                # a helper of the compiler given (part of) the dictionary returns parts of it
                # (get_type_descriptors, resolve_type_descriptor, lookup_type_descriptor, ...)
                for a in e.args:
                    r = alias_root(a, al)
                    if r is not None and r in al:
                        return r
                if fn.attr.startswith(('lookup_', 'resolve_type_descriptor', 'get_type_descriptors')):
                    return '__spec__'
                return None
            else:
                return None
        else:
            return None


def tainted_names(f, extra_sources=()):
    """Names of f that alias the shared specification dictionary (or a part of it)."""
    params = flow.param_names(f)
    al = {p for p in params if p in DESC_PARAMS} | {'__spec__'} | set(extra_sources)
    changed = True
    while changed:
        changed = False
        for n in walk_no_nested(f):
            val = None
            tg = []
            if isinstance(n, ast.Assign):
                val, tg = n.value, [x for t in n.targets for x in flow.target_names(t)]
            elif isinstance(n, (ast.For, ast.comprehension)):
                val, tg = n.iter, flow.target_names(n.target)
            if val is None:
                continue
            vals = val.elts if isinstance(val, ast.Tuple) and isinstance(n, ast.Assign) else [val]
            for v in vals:
                r = alias_root(v, al)
                if r is not None and r in al:
                    for x in tg:
                        if x not in al:
                            al.add(x)
                            changed = True
    return al


def aliases_at(f, root, node, al):
    """Is `root` an alias of the dictionary at `node`?  (a dominating re-binding to a fresh object kills it)"""
    if root not in al:
        return False
    from ..copyrule import _last_dominating_binding
    dom = _last_dominating_binding(root, f, Model.enclosing_stmt(node))
    if dom is not None:
        r = alias_root(dom.value, al)
        if r is None or r not in al:
            return False
    return True


def check(ctx):
    model = ctx.model
    ctx.rule('C13.R1', 'only Compiler.pre_process* / _compile_any_defined_by_* write values derived from the specification dictionary')
    ctx.rule('C13.R2', 'every in-place rewrite of the dictionary carries its idempotence guard (listed site or generic `key not in d`)')
    ctx.rule('C13.R3', 'no rewrite of the shared dictionary depends on a per-call option (numeric_enums, codec)')
    ctx.rule('C13.R4', 'values written into the dictionary are literal-representable')
    ctx.rule('C13.R5', 'no compile-reachable function touches module-level mutable state')

    # ---- collect functions
    funcs = []
    base = model.mod(BASE)
    for f in base.classes['Compiler'].methods.values():
        funcs.append(f)
    for f in base.functions.values():
        funcs.append(f)
    for f in model.mod(COMP).functions.values():
        funcs.append(f)
    for c in model.mod(COMP).classes.values():
        funcs.extend(c.methods.values())
    for name in CODECS:
        m = model.mod('asn1tools/codecs/%s.py' % name)
        comp = m.classes.get('Compiler')
        if comp is None:
            raise AnalysisError('Compiler class vanished from %s' % m.rel)
        funcs.extend(comp.methods.values())
        for f in m.functions.values():
            if f.name == 'compile_dict':
                funcs.append(f)

    # allowed writers: the pre-processing passes, and helpers that are called only from allowed writers
    by_name = {}
    for f in funcs:
        by_name.setdefault(f.name, []).append(f)
    callers = {}
    for g in funcs:
        for c_ in walk_no_nested(g):
            if isinstance(c_, ast.Call):
                nm = c_.func.attr if isinstance(c_.func, ast.Attribute) else (c_.func.id if isinstance(c_.func, ast.Name) else None)
                if nm in by_name:
                    for t_ in by_name[nm]:
                        if t_._mod is g._mod or nm.startswith('pre_process'):
                            callers.setdefault(t_, set()).add(g)

    def is_allowed(f, seen=()):
        if f.name.startswith('pre_process') or f.name.startswith('_compile_any_defined_by'):
            return True
        cs = callers.get(f, set()) - {f}
        if not cs or f in seen:
            return False
        return all(is_allowed(g, seen + (f,)) for g in cs)

    n_sites = 0
    allowed_sites = []
    for f in funcs:
        al = tainted_names(f)
        for node, root, desc in write_sites(f):
            if not aliases_at(f, root, node, al):
                continue       # a local container, not the shared dictionary
            n_sites += 1
            allowed = is_allowed(f)
            cons = '%s [%s]' % (Model.qual(f), desc[:80])
            ctx.instance('C13.R1', cons, 'allowed writer' if allowed else 'VIOLATION', node=node, file=f._mod.rel)
            if not allowed:
                ctx.violation('C13.R1', f._mod.rel, node, Model.qual(f),
                              'writes into the shared specification dictionary (%s) outside the pre-processing passes: every later compile of the '
                              'same dictionary, by any codec, sees the change' % desc, stmt=desc)
            else:
                allowed_sites.append((f, node, root, desc))
    if n_sites < 12:
        raise AnalysisError('C13.R1 found only %d descriptor write sites' % n_sites)

    # ---- R2 / R3 / R4 on allowed sites
    comp_cls = base.classes['Compiler']
    resolver = sem.class_resolver(comp_cls)

    def deepcopy_owned(f, pname, seen=()):
        """Every call of f passes for parameter pname a deep copy made by the caller (or a parameter the caller owns in the same way)."""
        cs = callers.get(f, set()) - {f}
        if not cs or f in seen:
            return False
        params = flow.param_names(f)
        idx = params.index(pname) - (1 if params and params[0] == 'self' else 0)
        for g in cs:
            gv = sem.View(g)
            for c_ in sem.method_calls(g, f.name, gv):
                if idx >= len(c_.args):
                    return False
                a_ = c_.args[idx]
                e_ = gv.expr(a_)
                if isinstance(e_, ast.Call) and sem.callee_name(e_) == 'deepcopy':
                    continue
                if isinstance(a_, ast.Name):
                    from ..copyrule import _last_dominating_binding
                    dom = _last_dominating_binding(a_.id, g, Model.enclosing_stmt(c_))
                    if dom is not None and isinstance(dom, ast.Assign) and isinstance(dom.value, ast.Call) and sem.callee_name(dom.value) == 'deepcopy':
                        continue
                    if a_.id in flow.param_names(g) and deepcopy_owned(g, a_.id, seen + (f,)):
                        continue
                # a part of an object the caller owns in the same way
                r_ = alias_root(a_, set(flow.param_names(g)))
                if r_ in flow.param_names(g) and deepcopy_owned(g, r_, seen + (f,)):
                    continue
                return False
        return True

    def caller_contexts(f, depth=0):
        """The condition lists under which the callers reach their calls of f, with the argument names renamed to f's parameters;
        [] when f has no caller, a caller is not summarised, or an argument is not a plain name."""
        cs = callers.get(f, set()) - {f}
        if not cs:
            return []
        params = [p_ for p_ in flow.param_names(f) if p_ != 'self']
        out = []
        for g in cs:
            gps = sem.paths(g, resolver=resolver)
            if gps is None:
                return []
            for c_ in [n_ for n_ in walk_no_nested(g) if isinstance(n_, ast.Call) and sem.callee_name(n_) == f.name]:
                ren = {}
                for i_, a_ in enumerate(c_.args):
                    if i_ < len(params) and isinstance(a_, ast.Name):
                        ren[a_.id] = params[i_]
                for k_ in c_.keywords:
                    if k_.arg and isinstance(k_.value, ast.Name):
                        ren[k_.value.id] = k_.arg
                reach_ = sem.reaching(gps, Model.enclosing_stmt(c_))
                if not reach_:
                    return []
                for _p, conds_ in reach_:
                    lits_ = []
                    for c2 in conds_:
                        t_ = re.sub(r'\s*@before .*$', '', c2[0])
                        t_ = re.sub(r'@\d+', '', t_)           # the version marks of loop variables: inside the callee the parameter is one object
                        for a_, b_ in ren.items():
                            if a_ != b_:
                                t_ = re.sub(r'\b%s\b' % re.escape(a_), b_, t_)
                        lits_.append((t_, c2[1]))
                    out.append(lits_)
        return out[:64]

    def second_run_argument(f, node, root, desc):
        """-> (verdict, why): verdict True (idempotent) / False / None (undecided)"""
        # operates on a deep copy
        params = flow.param_names(f)
        al_roots = {root}
        if root in params and deepcopy_owned(f, root):
            return True, 'operates on the deep copy made by its callers'
        fv = sem.View(f)
        e_root = fv.expr(ast.Name(id=root, ctx=ast.Load()))
        rr = flow._root(e_root)
        if rr in params and rr != root and deepcopy_owned(f, rr):
            return True, 'operates on the deep copy made by its callers'
        ps = sem.paths(f, resolver=resolver)
        if ps is None:
            return None, 'too many paths'
        st_ = Model.enclosing_stmt(node)
        reach = sem.reaching(ps, st_)
        if not reach:
            return None, 'write not found on the summarised paths'
        # the canonical text of what is written
        target_txt = None
        written = None
        if isinstance(node, ast.Assign) and isinstance(node.targets[0], ast.Subscript):
            written = node.value
        verdict_all = True
        why = ''
        contexts = None
        todo_ = [(p, [(c[0], c[1]) for c in conds], False) for p, conds in reach]
        while todo_:
            p, lits, in_ctx = todo_.pop(0)
            if any('sys.version_info' in t and not pol for t, pol in lits):
                continue        # the Python 2 arm of a version test
            store = None
            store_val = None
            for ev in p.events:
                if ev[0] == 'store' and ev[2] is st_:
                    store = ev[1]
                    store_val = ev[3] if len(ev) > 3 else None
            call_txt = None
            for ev in p.events:
                if ev[0] == 'call' and ev[2] is node:
                    call_txt = ev[1]
            ok_ = False
            if store:
                store = re.sub(r"\.setdefault\(('[^']*'), (\{\}|\[\])\)\[", r'[\1][', store)      # d.setdefault('k', {})['x'] = v writes d['k']['x']
            # (1) set only when the key is absent
            if store and ' = ' in store and not store.startswith('del '):
                tgt = store.split(' = ', 1)[0]
                m_ = re.match(r"^(.*)\[('[^']*')\]$", tgt)
                if m_ and (('%s in %s' % (m_.group(2), m_.group(1)), False) in lits):
                    ok_, why = True, 'set only when the key is absent'
                # (3) type tag: the current value was tested with isinstance and found not yet converted
                if not ok_ and any(t.startswith('isinstance(%s, ' % tgt) and not pol for t, pol in lits):
                    ok_, why = True, 'already-converted values are recognised by their type and left alone'
                # (4) value set: rewritten only while it is one of the listed source spellings, into a value of another type
                if not ok_ and any(t.startswith('%s in ' % tgt) and pol for t, pol in lits) and written is not None and isinstance(written, (ast.Compare, ast.Constant)):
                    ok_, why = True, 'a converted value is no longer one of the source spellings'
            # (2) add-if-absent
            if not ok_ and call_txt:
                m_ = re.match(r'^(.*)\.(append|add)\((.*)\)$', call_txt)
                if m_ and ('%s in %s' % (m_.group(3), m_.group(1)), False) in lits:
                    ok_, why = True, 'appended only when absent'
            # (5) consumes its trigger: done only while a key is present which the same path removes
            if not ok_:
                present = [t for t, pol in lits if pol and re.match(r"^'[^']+' in ", t)]
                removed = [ev[1] for ev in p.events if ev[0] == 'store' and ev[1].startswith('del ')] + \
                          [ev[1] for ev in p.events if ev[0] == 'call' and re.search(r"\.pop\('", ev[1])]
                for t in present:
                    key, d_ = t.split(' in ', 1)
                    if any(r_ == 'del %s[%s]' % (d_, key) or r_.startswith('%s.pop(%s' % (d_, key)) for r_ in removed):
                        ok_, why = True, 'done only while %s is present, which this pass removes' % key
            # (6) site-specific arguments
            if not ok_ and (store or call_txt):
                for frag, need, reason in SPECIFIC:
                    if frag in (store or call_txt):
                        hs_ = list(_called_helpers(f, comp_cls, node))
                        if store_val is not None:
                            for c2 in ast.walk(store_val):
                                if isinstance(c2, ast.Call) and isinstance(c2.func, ast.Attribute) and isinstance(c2.func.value, ast.Name) and c2.func.value.id == 'self':
                                    r2 = comp_cls.find_method(c2.func.attr)
                                    if r2:
                                        hs_.append(r2[1])
                        helpers_src = ' '.join(ast.unparse(h_) for h_ in hs_)
                        if any(need in t for t, pol in lits) or need in helpers_src or (store_val is not None and need in ast.unparse(store_val)):
                            ok_, why = True, reason
            if not ok_ and not in_ctx:
                # an extracted helper: the conditions its callers establish before the call belong to the path
                if contexts is None:
                    contexts = caller_contexts(f)
                if contexts:
                    todo_ = [(p, lits + cx_, True) for cx_ in contexts] + todo_
                    continue
            if not ok_:
                verdict_all = False
                why = 'no condition established before it makes a second run the identity (conditions: %s)' % ('; '.join(('' if pol else 'not ') + t for t, pol in lits)[:200] or 'none')
                break
        return verdict_all, why

    # R3 (b): the passes themselves run for every compiler alike.  A pass that is skipped under an option of the compiler object -- a constructor argument, or a class-level
    #         switch that the codec compilers override -- leaves the shared dictionary in a state that depends on which codec compiled it first.
    class_switches = set()
    for name in CODECS:
        cc_ = model.mod('asn1tools/codecs/%s.py' % name).classes.get('Compiler')
        if cc_ is not None:
            class_switches |= set(cc_.attrs)
    class_switches |= set(comp_cls_early.attrs) if (comp_cls_early := base.classes.get('Compiler')) is not None else set()
    n3b = 0
    for f in base.classes['Compiler'].methods.values():
        for c_ in walk_no_nested(f):
            if not (isinstance(c_, ast.Call) and isinstance(c_.func, ast.Attribute) and isinstance(c_.func.value, ast.Name) and c_.func.value.id == 'self'
                    and c_.func.attr.startswith('pre_process')):
                continue
            n3b += 1
            dep = None
            for test, pol in flow.guards_of(c_, f):
                for x_ in ast.walk(test):
                    if isinstance(x_, ast.Attribute) and isinstance(x_.value, ast.Name) and x_.value.id == 'self' and (x_.attr in OPTION_ATTRS or x_.attr in class_switches):
                        dep = x_
            ctx.instance('C13.R3', '%s calls %s' % (Model.qual(f), c_.func.attr), 'for every compiler' if dep is None else 'VIOLATION', nontrivial=False, node=c_, file=BASE)
            if dep is not None:
                ctx.violation('C13.R3', BASE, c_, Model.qual(f),
                              'the pass %s runs only under `%s`, a switch of the compiler object (per codec / per call): a dictionary compiled first by a compiler that skips the pass '
                              'reaches the later passes - and every later compile - in another state than a freshly parsed one, so the second codec is built from other descriptors'
                              % (c_.func.attr, ast.unparse(dep)), stmt='pass %s under a compiler switch' % c_.func.attr)
    if n3b < 5:
        raise AnalysisError('C13.R3 found only %d calls of pre-processing passes' % n3b)

    for f, node, root, desc in allowed_sites:
        cons = '%s [%s]' % (Model.qual(f), desc[:80])
        if f.name.startswith('_compile_any_defined_by'):
            ctx.instance('C13.R2', cons, 'option-driven by design', 'any_defined_by_choices is an explicit request to rewrite the type', nontrivial=False, node=node, file=f._mod.rel)
            continue
        ok, why = second_run_argument(f, node, root, desc)
        if ok is None:
            ctx.instance('C13.R2', cons, 'undecided', why, nontrivial=False, node=node, file=f._mod.rel)
            ctx.note('C13.R2 undecided: %s (%s)' % (cons, why))
        else:
            ctx.instance('C13.R2', cons, 'idempotent' if ok else 'VIOLATION', why, node=node, file=f._mod.rel)
            if not ok:
                ctx.violation('C13.R2', f._mod.rel, node, Model.qual(f),
                              'in-place rewrite `%s`: %s -- compiling the same dictionary a second time applies it again and the result differs from a fresh parse' % (desc, why),
                              stmt=desc)
        # R3: control/data dependence on an option
        dep = False
        for test, pol in flow.guards_of(node, f):
            if any(('self.' + a) in ast.unparse(test) for a in OPTION_ATTRS):
                dep = True
        if isinstance(node, (ast.Assign, ast.AugAssign)) and any(('self.' + a) in ast.unparse(node.value) for a in OPTION_ATTRS):
            dep = True
        ctx.instance('C13.R3', cons, 'option-independent' if not dep else 'VIOLATION', node=node, file=f._mod.rel)
        if dep:
            ctx.violation('C13.R3', f._mod.rel, node, Model.qual(f),
                          'the rewrite `%s` is applied only under a per-call option (self._numeric_enums): the value it stores stays in the shared dictionary and a later '
                          'compile of the same dictionary with the option off sees the converted value' % desc, stmt=desc)
        # R4
        if isinstance(node, ast.Assign):
            v = node.value
            bad = None
            for c in ast.walk(v):
                if isinstance(c, ast.Call) and isinstance(c.func, (ast.Name, ast.Attribute)):
                    r = f._mod.resolve(c.func)
                    if isinstance(r, ClassInfo):
                        bad = c
                if isinstance(c, ast.Lambda):
                    bad = c
            ctx.instance('C13.R4', cons, 'literal' if bad is None else 'VIOLATION', node=node, file=f._mod.rel)
            if bad is not None:
                ctx.violation('C13.R4', f._mod.rel, node, Model.qual(f), 'stores %s into the specification dictionary: pformat()/eval() (the parse sub-command) cannot round-trip it' % ast.unparse(bad)[:60], stmt=desc)

    # ---- R6: what is stored in the dictionary belongs to the dictionary.  A value handed in by the caller of compile_dict (a parameter that is not itself part of
    #      the dictionary: the any_defined_by_choices mapping, an option) must not be stored by reference: the caller may change it afterwards, and a guard that
    #      compares the stored object with the argument then compares an object with itself.
    ctx.rule('C13.R6', 'no caller-owned argument is stored by reference into the specification dictionary')
    # names that hold (a part of) what the caller of compile_dict() handed in besides the dictionary itself: forward taint from the parameters of the public
    # compile functions, through assignments, loops (elements of a tainted container) and calls (argument -> parameter), to a fixpoint
    ext = {}
    entry = [model.func(COMP, n_) for n_ in ('compile_dict',) if n_ in model.mod(COMP).functions]
    for f_ in entry:
        ps_ = flow.param_names(f_)
        ext[f_] = set(ps_[1:])
    all_funcs = [n_ for rel_ in (COMP, BASE) for n_ in ast.walk(model.mod(rel_).tree) if isinstance(n_, ast.FunctionDef)]
    changed = True
    rounds = 0
    while changed and rounds < 10:
        changed = False
        rounds += 1
        for f_ in all_funcs:
            cur = ext.setdefault(f_, set())
            before = len(cur)
            for n_ in walk_no_nested(f_):
                if isinstance(n_, ast.Assign) and (names_in(n_.value) & cur):
                    cur |= {x for t_ in n_.targets for x in flow.target_names(t_)}
                elif isinstance(n_, (ast.For, ast.comprehension)) and (names_in(n_.iter) & cur):
                    cur |= set(flow.target_names(n_.target))
                elif isinstance(n_, ast.Call):
                    gdef = None
                    skip = 0
                    if isinstance(n_.func, ast.Name):
                        r_ = f_._mod.resolve_name(n_.func.id)
                        gdef = r_ if isinstance(r_, ast.FunctionDef) else None
                    elif isinstance(n_.func, ast.Attribute) and isinstance(n_.func.value, ast.Name) and n_.func.value.id == 'self' and getattr(f_, '_cls', None) is not None:
                        r_ = f_._cls.find_method(n_.func.attr)
                        gdef, skip = (r_[1], 1) if r_ else (None, 0)
                    if gdef is None:
                        continue
                    gp = flow.param_names(gdef)[skip:]
                    tgt = ext.setdefault(gdef, set())
                    for k_, a_ in enumerate(n_.args):
                        if k_ < len(gp) and (names_in(a_) & cur) and gp[k_] not in tgt:
                            tgt.add(gp[k_])
                            changed = True
            if len(cur) != before:
                changed = True
    n6 = 0
    for f, node, root, desc in allowed_sites:
        if not isinstance(node, ast.Assign):
            continue
        al6 = tainted_names(f)
        v6 = sem.View(f)
        val = v6.expr(node.value)
        n6 += 1
        alias = None
        if isinstance(val, ast.Name) and val.id in ext.get(f, set()) and val.id not in al6:
            alias = val.id
        ctx.instance('C13.R6', '%s [%s]' % (Model.qual(f), desc[:80]), 'owned value' if alias is None else 'VIOLATION', node=node, file=f._mod.rel)
        if alias is not None:
            ctx.violation('C13.R6', f._mod.rel, node, Model.qual(f),
                          '`%s` stores `%s`, (a part of) an argument of compile_dict() other than the dictionary, by reference in the shared dictionary: when the caller changes that '
                          'object in place and compiles the dictionary again, what the dictionary remembers changes with it (an "already processed with the same argument" test is then '
                          'always true) and the compile differs from a fresh parse compiled with the same options' % (desc, alias), stmt=desc)
    if n6 < 10:
        raise AnalysisError('C13.R6 examined only %d stores' % n6)

    # ---- R5: module-level mutable state on compile paths
    cg = CallGraph(model)
    roots = [model.func(COMP, 'compile_dict'), model.func(COMP, 'compile_string'), model.func(COMP, 'compile_files'),
             model.func(COMP, 'pre_process_dict')]
    for name in CODECS:
        m = model.mod('asn1tools/codecs/%s.py' % name)
        if 'compile_dict' in m.functions:
            roots.append(m.functions['compile_dict'])
        roots.extend(m.classes['Compiler'].methods.values())
    roots.extend(base.classes['Compiler'].methods.values())
    reach = cg.reachable(roots)
    eff = effects.Purity(model, cg)
    n5 = 0
    for f in sorted(reach, key=lambda g: (g._mod.rel, g.lineno)):
        rel = f._mod.rel
        if rel == 'asn1tools/parser.py' or rel.startswith('asn1tools/source/'):
            continue
        n5 += 1
        bad = []
        for node, target, desc in eff.direct_effects(f):
            for r in eff._effect_roots(f, target, at=Model.enclosing_stmt(node)):
                if r.startswith('global:'):
                    bad.append((node, r[7:], desc))
        # reads of module-level mutable containers (list/dict/set displays assigned at module level) by subscript / identity test
        for n in walk_no_nested(f):
            if isinstance(n, ast.Subscript) and isinstance(n.value, ast.Name) and isinstance(n.ctx, ast.Load):
                nm = n.value.id
                if nm not in flow.param_names(f) and nm not in eff.bindings(f):
                    r = f._mod.resolve_name(nm)
                    if isinstance(r, tuple) and r[0] == 'const' and isinstance(r[1], (ast.List, ast.Dict, ast.Set)) and nm in _mutated_globals(model, r[2]):
                        bad.append((n, nm, 'read of mutable module-level %s' % nm))
        ctx.instance('C13.R5', Model.qual(f), 'no module state' if not bad else 'VIOLATION', nontrivial=False, node=f, file=rel)
        for node, nm, desc in bad:
            ctx.violation('C13.R5', rel, node, Model.qual(f),
                          'compile path uses module-level mutable state %s (%s): what a compile returns then depends on which dictionaries/options were compiled before' % (nm, desc))
    if n5 < 100:
        raise AnalysisError('C13.R5 reached only %d compile-time functions' % n5)
    ctx.extra['compile_reachable_functions'] = n5


_mg_cache = {}


def _mutated_globals(model, mod):
    """Module-level names of `mod` that some function stores through / mutates."""
    if mod.rel in _mg_cache and _mg_cache[mod.rel][0] is model:
        return _mg_cache[mod.rel][1]
    out = set()
    for f in [n for n in ast.walk(mod.tree) if isinstance(n, ast.FunctionDef)]:
        for n in walk_no_nested(f):
            tg = []
            if isinstance(n, ast.Assign):
                tg = n.targets
            elif isinstance(n, (ast.AugAssign,)):
                tg = [n.target]
            elif isinstance(n, ast.Delete):
                tg = n.targets
            for t in tg:
                if isinstance(t, (ast.Subscript, ast.Attribute)):
                    r = flow._root(t)
                    if r and r in mod.consts:
                        out.add(r)
            if isinstance(n, ast.Call) and isinstance(n.func, ast.Attribute) and n.func.attr in MUTATORS:
                r = flow._root(n.func.value)
                if r and r in mod.consts:
                    out.add(r)
    _mg_cache[mod.rel] = (model, out)
    return out


def _called_helpers(f, cls, node):
    """methods of the class called (self.x(...)) in the statement that holds node"""
    out = []
    st_ = Model.enclosing_stmt(node)
    for c in ast.walk(st_):
        if isinstance(c, ast.Call) and isinstance(c.func, ast.Attribute) and isinstance(c.func.value, ast.Name) and c.func.value.id == 'self':
            r = cls.find_method(c.func.attr)
            if r:
                out.append(r[1])
    return out


def _helpers_src(f):
    """Source of nested helper functions of f (is_any_member_tagged lives inside its user)."""
    return ' '.join(ast.unparse(n) for n in ast.walk(f) if isinstance(n, ast.FunctionDef) and n is not f)


def _callees_src(f):
    """Source of the methods of the same class that f calls directly (self.x(...))."""
    ci = getattr(f, '_cls', None)
    if ci is None:
        return ''
    out = []
    for c in walk_no_nested(f):
        if isinstance(c, ast.Call) and isinstance(c.func, ast.Attribute) and isinstance(c.func.value, ast.Name) and c.func.value.id == 'self':
            m = ci.find_method(c.func.attr)
            if m:
                out.append(ast.unparse(m[1]))
    return ' '.join(out)


def _callers_pass_deepcopy(model, f):
    m = f._mod
    ok = True
    seen = 0
    for g in [n for n in ast.walk(m.tree) if isinstance(n, ast.FunctionDef)]:
        if g is f:
            continue
        for c in walk_no_nested(g):
            if isinstance(c, ast.Call) and isinstance(c.func, ast.Attribute) and c.func.attr == f.name:
                seen += 1
                a = c.args[0] if c.args else None
                if not isinstance(a, ast.Name):
                    ok = False
                    continue
                binds = [x for x in walk_no_nested(g) if isinstance(x, ast.Assign) and a.id in [y for t in x.targets for y in flow.target_names(t)]
                         and x.lineno < c.lineno]
                if not binds or ast.unparse(sorted(binds, key=lambda x: x.lineno)[-1].value.func if isinstance(sorted(binds, key=lambda x: x.lineno)[-1].value, ast.Call) else ast.Name(id='?')) != 'deepcopy':
                    ok = False
    return ok and seen > 0


MUTANTS = [
    dict(name='bit string default guard removed', file=BASE, quick=True,
         old="""        if isinstance(default, tuple):
            # Already pre-processed.
            return

""", new="", expect='C13.R2'),
    dict(name='per compiler caches size into the descriptor', file='asn1tools/codecs/per.py', quick=True,
         old="""    def compile_type(self, name, type_descriptor, module_name):
        module_name = self.get_module_name(type_descriptor, module_name)
        type_name = type_descriptor['type']
""",
         new="""    def compile_type(self, name, type_descriptor, module_name):
        module_name = self.get_module_name(type_descriptor, module_name)
        type_name = type_descriptor['type']
        type_descriptor['compiled-by'] = 'per'
""", expect='C13.R1'),
    dict(name='automatic tags renumbered unconditionally', file=BASE, quick=True,
         old="        if module_tags == 'AUTOMATIC' and not is_any_member_tagged(members):", new="        if module_tags == 'AUTOMATIC':", expect='C13.R2'),
    dict(name='extension marker appended unconditionally', file=BASE,
         old="""        if EXTENSION_MARKER not in members:
            members.append(EXTENSION_MARKER)""", new="""        members.append(EXTENSION_MARKER)""", expect='C13.R2'),
    dict(name='checkers memoised per dictionary identity', file=COMP,
         old="""def _compile_files_cache(filenames,""",
         new="""_CHECKERS = [None, None, None]


def _compile_checkers(specification, numeric_enums):
    if _CHECKERS[0] is not specification:
        _CHECKERS[:] = [
            specification,
            type_checker.compile_dict(specification, numeric_enums),
            constraints_checker.compile_dict(specification, numeric_enums)
        ]

    return _CHECKERS[1:]


def _compile_files_cache(filenames,""", expect=None, edits=[
             dict(file=COMP, old="""def _compile_files_cache(filenames,""", new="""_CHECKERS = [None, None, None]


def _compile_checkers(specification, numeric_enums):
    if _CHECKERS[0] is not specification:
        _CHECKERS[:] = [
            specification,
            type_checker.compile_dict(specification, numeric_enums),
            constraints_checker.compile_dict(specification, numeric_enums)
        ]

    return _CHECKERS[1:]


def _compile_files_cache(filenames,"""),
             dict(file=COMP, old="""                         type_checker.compile_dict(specification,
                                                   numeric_enums),
                         constraints_checker.compile_dict(specification,
                                                          numeric_enums))""",
                  new="""                         *_compile_checkers(specification, numeric_enums))"""),
         ]),
    dict(name='compiled object stored into the dictionary', file=BASE,
         old="""        if 'kind' not in tag:
                if resolved_type_name == 'CHOICE':
                    tag['kind'] = 'EXPLICIT'""",
         new="""        if 'kind' not in tag:
                if resolved_type_name == 'CHOICE':
                    tag['kind'] = Recursive()""", expect=None),
]
REFACTORS = [
    dict(name='guard spelled with get()', file=BASE, quick=True,
         old="""                if 'tag' not in member:
                    member['tag'] = {}""",
         new="""                if 'tag' not in member:
                    member['tag'] = dict()"""),
]

MUTANTS.append(dict(name='any-defined-by choices remembered by reference to skip re-parsing', file=COMP,
                    old="""    type_['choices'] = {}
""", new="""    if 'choices' in type_ and type_.get('choices-source') == choices:
        return

    type_['choices-source'] = choices
    type_['choices'] = {}
""", expect='C13.R6'))
