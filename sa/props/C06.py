"""C06 -- OER byte-exact X.696 (table agreement of the Python codec; DESIGN.md section 4 C06)."""
import ast
import re

from ..model import AnalysisError, Model, walk_no_nested, norm_stmt
from .. import flow, protocol, dispatch, siblings, evalexpr, replay, sem, bitmachine

EXPLANATION = (
    'Decided on codecs/oer.py: (R1) the INTEGER width table of Integer.set_restricted_to_range equals X.696 10 on every cell the boundary '
    'constants cut out of (minimum, maximum) (exact decision-table comparison with the checker own evaluator), the struct format attached to a '
    'width has that size and signedness, and an extension marker / MIN / MAX leaves the integer variable-length; (R2) length determinant: short '
    'form below 128, long form 0x80|n, decoder masks 0x80/0x7f; (R3) ENUMERATED short form for 0..127, long form marked in the top bit, and the '
    'decoder looks at that bit before consuming; (R4) tag octets: encode_tag {63, 0x3f, 0x80, 0x7f} and Decoder.read_tag {0x3f, 0x80}; the '
    'universal tag of every class that exists in more than one of ber/der/oer is the same Tag member, named after the class; (R5) a string is '
    'fixed-size only under `not has_extension_marker and minimum == maximum`; (R6) extension bitmap arithmetic: decoder-derived width equals what '
    'the encoder wrote for 1..64 additions and the Python expression for the unused bits equals the one of the C generator; (R7) E1 conformance '
    'of the OER classes; (R8) the extension-marker state machine of oer.Compiler.compile_members agrees with its BER/PER siblings.  '
    'Not decided: byte-exactness for all types/values; REAL WITH COMPONENTS recognition arithmetic; UTF8String SIZE in characters vs octets.')
OER = 'asn1tools/codecs/oer.py'
BER = 'asn1tools/codecs/ber.py'
DER = 'asn1tools/codecs/der.py'
COER = 'asn1tools/source/c/oer.py'
FMT = {'>B': (1, False), '>H': (2, False), '>I': (4, False), '>Q': (8, False), '>b': (1, True), '>h': (2, True), '>i': (4, True), '>q': (8, True)}


def oracle_width(lo, hi):
    """X.696 10.2-10.4: fixed-size INTEGER encodings."""
    if lo >= 0:
        for n in (1, 2, 4, 8):
            if hi < 2 ** (8 * n):
                return n, False
        return None, None
    for n in (1, 2, 4, 8):
        if lo >= -2 ** (8 * n - 1) and hi < 2 ** (8 * n - 1):
            return n, True
    return None, None


def snake(name):
    s = re.sub(r'(?<=[a-z0-9])([A-Z])', r'_\1', name)
    s = re.sub(r'(?<=[A-Z])([A-Z][a-z])', r'_\1', s)
    return s.upper()


TAG_NAME_EXCEPTIONS = {'TeletexString': 'T61_STRING', 'SequenceOf': 'SEQUENCE', 'SetOf': 'SET', 'UTCTime': 'UTC_TIME',
                       'BMPString': 'BMP_STRING', 'IA5String': 'IA5_STRING', 'UTF8String': 'UTF8_STRING'}


def class_tag(c):
    """Tag.<X> constant of a type class: class attribute TAG or the Tag.* argument of super().__init__."""
    if 'TAG' in c.attrs and isinstance(c.attrs['TAG'], ast.Attribute):
        return c.attrs['TAG'].attr
    init = c.methods.get('__init__')
    if init is not None:
        for n in walk_no_nested(init):
            if isinstance(n, ast.Call) and isinstance(n.func, ast.Attribute) and n.func.attr == '__init__':
                for a in n.args:
                    if isinstance(a, ast.Attribute) and isinstance(a.value, ast.Name) and a.value.id == 'Tag':
                        return a.attr
    return None


def check(ctx):
    model = ctx.model
    oer = model.mod(OER)
    ctx.rule('C06.R1', 'INTEGER width decision table == X.696 10 on every (minimum, maximum) cell; struct formats consistent')
    ctx.rule('C06.R2', 'length determinant: short form < 128, long form 0x80|n; decoder masks')
    ctx.rule('C06.R3', 'ENUMERATED short/long form boundary and top-bit discrimination before consuming')
    ctx.rule('C06.R4', 'tag octet constants; universal tag table agrees across ber/der/oer')
    ctx.rule('C06.R5', 'fixed-size decisions only under not extensible and minimum == maximum')
    ctx.rule('C06.R6', 'extension bitmap arithmetic (decoder vs encoder; Python vs C generator)')
    ctx.rule('C06.R7', 'E1 conformance of the OER classes')
    ctx.rule('C06.R9', 'compile-time copy discipline: only owned (constructed or copied) compiled objects are configured')
    ctx.rule('C06.R8', 'extension-marker state machine agrees with the BER/PER siblings')

    # ---- R1
    f = model.func(OER, 'Integer.set_restricted_to_range')
    pts = set()
    for k in (7, 8, 15, 16, 31, 32, 63, 64):
        for v in (2 ** k, -2 ** k):
            pts.update({v - 1, v, v + 1})
    pts.update({0, 1, -1})
    pts |= {p for p in evalexpr.boundaries(f)}
    pts = sorted(pts)
    # the attributes a fresh Integer object starts with (its __init__, evaluated; the base-class constructor call is skipped)
    icls6 = model.cls(OER, 'Integer')
    init6 = icls6.find_method('__init__')[1]
    try:
        _r, ienv = evalexpr.run_function(init6, {flow.param_names(init6)[1]: 'x'}, skip_calls=True)
    except evalexpr.Unsupported as e:
        raise AnalysisError('oer.Integer.__init__ is not evaluable: %s' % e)
    init_env = {k: v_ for k, v_ in ienv.items() if isinstance(k, str) and k.startswith('self.')}
    init_env.setdefault('self.has_extension_marker', False)
    cells = 0
    bad = None
    cant = None
    for lo in pts:
        for hi in pts:
            if hi < lo:
                continue
            cells += 1
            env = dict(init_env)
            env.update({'minimum': lo, 'maximum': hi, 'has_extension_marker': False})
            try:
                _r, out = evalexpr.run_function(f, env)
            except evalexpr.Unsupported as e:
                cant = cant or str(e)
                continue
            got_len, got_fmt = out.get('self.length'), out.get('self.fmt')
            want_len, want_signed = oracle_width(lo, hi)
            ok = got_len == want_len
            if ok and got_len is not None:
                ok = got_fmt in FMT and FMT[got_fmt] == (want_len, want_signed)
            if ok and got_len is None:
                ok = got_fmt is None
            if ok:
                ok = out.get('self.signed') == (lo < 0)
            if not ok and bad is None:
                bad = (lo, hi, got_len, got_fmt, want_len, want_signed, out.get('self.signed'))
    ctx.extra['integer_width_cells'] = cells
    ctx.instance('C06.R1', 'oer.Integer.set_restricted_to_range on %d (minimum, maximum) cells' % cells,
                 ('ok' if cant is None else 'undecided') if bad is None else 'VIOLATION', ('the width selection is not in a shape the evaluator follows: %s' % cant) if cant else '',
                 nontrivial=cant is None, node=f, file=OER)
    if bad is not None:
        ctx.violation('C06.R1', OER, f, Model.qual(f),
                      'for INTEGER (%d..%d) the codec selects length=%s fmt=%s signed=%s; X.696 10 prescribes %s' %
                      (bad[0], bad[1], bad[2], bad[3], bad[6], ('%d octet(s), %s' % (bad[4], 'signed' if bad[5] else 'unsigned')) if bad[4] else 'the variable-length form'),
                      stmt='integer width table')
    for extra in ({'has_extension_marker': True}, {'minimum': 'MIN'}, {'maximum': 'MAX'}):
        env = dict(init_env)
        env.update({'minimum': 0, 'maximum': 10, 'has_extension_marker': False})
        env.update(extra)
        try:
            _r, out = evalexpr.run_function(f, env)
        except evalexpr.Unsupported as e:
            ctx.instance('C06.R1', 'variable length under %s' % extra, 'undecided', str(e), nontrivial=False, node=f, file=OER)
            continue
        ok = out.get('self.length') is None and out.get('self.fmt') is None
        if ok and extra.get('has_extension_marker'):
            # an extensible constraint is not OER-visible (X.696 8.2.3): the type takes every integer, so the variable-size form is the signed one -- also when the
            # extension root starts at 0, and also for a subtype of a parent that had a fixed width
            ok = out.get('self.signed') is True
            env2 = dict(init_env)
            env2.update({'minimum': 0, 'maximum': 255, 'has_extension_marker': False})
            try:
                _r, mid = evalexpr.run_function(f, env2)
                env3 = {k_: v_ for k_, v_ in mid.items() if isinstance(k_, str) and (k_.startswith('self.') or k_.startswith('__'))}
                env3.update({'minimum': 0, 'maximum': 10, 'has_extension_marker': True})
                _r, out3 = evalexpr.run_function(f, env3)
                ok = ok and out3.get('self.signed') is True and out3.get('self.fmt') is None and out3.get('self.length') is None
            except evalexpr.Unsupported:
                pass
        ctx.instance('C06.R1', 'variable length under %s' % extra, 'ok' if ok else 'VIOLATION', node=f, file=OER)
        if not ok:
            ctx.violation('C06.R1', OER, f, Model.qual(f), 'an INTEGER with %s must use the variable-length form%s (X.696 10: only non-extensible bounded ranges are fixed-size)'
                          % (extra, ', signed: the extension root says nothing about the values that may be sent (INTEGER (0..255, ...) value -1)' if extra.get('has_extension_marker') else ''),
                          stmt='variable length under %s' % sorted(extra))
    # a subtype of an already constrained parent (the compilers apply the subtype's range to a copy of the parent's object): MIN / MAX denote the parent's
    # bounds (X.680 51.4) and the width follows the effective constraint (X.696 10)
    sub_bad = sub_und = None
    n_sub = 0
    for (plo, phi), (lo, hi) in (((0, 70000), ('MIN', 100)), ((-5, 200), (0, 'MAX')), ((0, 255), (200, 'MAX')), ((0, 255), ('MIN', 'MAX')), ((-40000, 40000), ('MIN', 100)),
                                  ((-40000, 40000), (-100, 'MAX')), ((0, 2 ** 32 - 1), ('MIN', 65535)), ((0, 255), (10, 20))):
        elo, ehi = (plo if lo == 'MIN' else lo), (phi if hi == 'MAX' else hi)
        try:
            env = dict(init_env)
            env.update({'minimum': plo, 'maximum': phi, 'has_extension_marker': False})
            _r, out = evalexpr.run_function(f, env)
            env = {k: v_ for k, v_ in out.items() if isinstance(k, str) and k.startswith('self.')}
            env.update({'minimum': lo, 'maximum': hi, 'has_extension_marker': False})
            _r, out = evalexpr.run_function(f, env)
        except evalexpr.Unsupported as e:
            sub_und = sub_und or str(e)
            continue
        n_sub += 1
        want_len, want_signed = oracle_width(elo, ehi)
        got_len, got_fmt = out.get('self.length'), out.get('self.fmt')
        if not (got_len == want_len and (got_len is None or (got_fmt in FMT and FMT[got_fmt] == (want_len, want_signed)))) and sub_bad is None:
            sub_bad = 'A ::= INTEGER (%s..%s), B ::= A (%s..%s): the codec selects length=%s fmt=%s for B; the effective constraint %s..%s prescribes %s' % (
                plo, phi, lo, hi, got_len, got_fmt, elo, ehi, ('%d octet(s), %s' % (want_len, 'signed' if want_signed else 'unsigned')) if want_len else 'the variable-length form')
    ctx.instance('C06.R1', 'subtypes of a constrained parent: %d (parent, subtype) cases evaluated' % n_sub, 'VIOLATION' if sub_bad else ('ok' if n_sub else 'undecided'), sub_und or '',
                 nontrivial=n_sub > 0, node=f, file=OER)
    if sub_bad:
        ctx.violation('C06.R1', OER, f, Model.qual(f), sub_bad, stmt='integer width of a subtype')
    # decode/encode use fmt+length consistently
    enc = model.func(OER, 'Integer.encode')
    dec = model.func(OER, 'Integer.decode')
    ve, vd = sem.View(enc), sem.View(dec)
    packs = [c for c in sem.method_calls(enc, 'pack', ve) if c.args and ve.text(c.args[0]) == 'self.fmt']
    unpacks = [c for c in sem.method_calls(dec, 'unpack', vd) if len(c.args) >= 2 and vd.text(c.args[0]) == 'self.fmt'
               and re.search(r'read_bytes\(self\.length\)', vd.text(c.args[1]))]
    ok = bool(packs) and bool(unpacks)
    if not ok:
        # the packing may live in a helper of the Encoder / Decoder that is handed the format and the length: self.fmt reaches a call when encoding,
        # self.fmt and self.length reach a call when decoding
        def args_of_calls(fn, vw):
            return {vw.text(a_) for c_ in walk_no_nested(fn) if isinstance(c_, ast.Call) for a_ in list(c_.args) + [k_.value for k_ in c_.keywords]}
        ea, da = args_of_calls(enc, ve), args_of_calls(dec, vd)
        ok = 'self.fmt' in ea and 'self.fmt' in da and any('self.length' in t_ for t_ in da)
    ctx.instance('C06.R1', 'Integer.encode/decode pack and unpack with self.fmt / self.length', 'ok' if ok else 'VIOLATION', node=enc, file=OER)
    if not ok:
        ctx.violation('C06.R1', OER, enc, Model.qual(enc), 'fixed-size INTEGER no longer packs with self.fmt and reads self.length octets', stmt='fmt/length use')

    # ---- R2  (bounded evaluation of the primitive summaries, sa/bitmachine.py, against X.696 8.6)
    enc_cls, dec_cls = model.cls(OER, 'Encoder'), model.cls(OER, 'Decoder')
    E = bitmachine.Machine(model, enc_cls, 'enc')
    D = bitmachine.Machine(model, dec_cls, 'dec')
    PAD = '10' * 24

    def ref_ld(n):
        if n < 128:
            return format(n, '08b')
        k = (n.bit_length() + 7) // 8
        return format(0x80 | k, '08b') + format(n, '0%db' % (8 * k))

    def evaluate(rule, what, node, cases):
        n_ok = n_und = 0
        first_bad = und = None
        for label, thunk in cases:
            try:
                msg = thunk()
            except bitmachine.Undecided as e:
                n_und += 1
                und = und or '%s: %s' % (label, e)
                continue
            except bitmachine.Raised as e:
                msg = 'raises %s' % e.name
            if msg is None:
                n_ok += 1
            elif first_bad is None:
                first_bad = (label, msg)
        status = 'VIOLATION' if first_bad else ('ok' if n_ok else 'undecided')
        ctx.instance(rule, '%s: %d cases evaluated, %d undecided' % (what, n_ok, n_und), status, und or '', nontrivial=n_ok > 0, node=node, file=OER)
        if first_bad:
            ctx.violation(rule, OER, node, Model.qual(node), '%s, %s: %s' % (what, first_bad[0], first_bad[1]), stmt=what)
        return n_ok

    fe = model.func(OER, 'Encoder.append_length_determinant')
    fd = model.func(OER, 'Decoder.read_length_determinant')

    # the Encoder as a record: its attributes after __init__, for the direct evaluation (sa/evalexpr.py) of methods whose paths the bit machine cannot
    # enumerate (the long form is built in a loop)
    einit = enc_cls.find_method('__init__')
    try:
        _r, eenv = evalexpr.run_function(einit[1], {}, skip_calls=True) if einit else (None, {})
        enc_env0 = {k: v_ for k, v_ in eenv.items() if isinstance(k, str) and k.startswith('self.')}
    except evalexpr.Unsupported:
        enc_env0 = None

    def direct_bits(method, args):
        """the bits an Encoder method appends, by evaluating the method on a record of the Encoder's attributes"""
        if enc_env0 is None:
            raise bitmachine.Undecided('Encoder.__init__ is not evaluable')
        g_ = enc_cls.find_method(method)[1]
        env = dict(enc_env0)
        env.update(dict(zip(flow.param_names(g_)[1:], args)))
        try:
            _r, out = evalexpr.run_function(g_, env)
        except evalexpr.Raised as e:
            raise bitmachine.Raised(e.name)
        except (evalexpr.Unsupported, KeyError, TypeError) as e:
            raise bitmachine.Undecided(str(e))
        nb, val = out.get('self.number_of_bits'), out.get('self.value')
        if not isinstance(nb, int) or not isinstance(val, int):
            raise bitmachine.Undecided('the Encoder does not keep its content as (value, number_of_bits)')
        return format(val, '0%db' % nb) if nb else ''

    def ld_enc(n):
        def thunk():
            try:
                bits, _ = E.run('append_length_determinant', [n], '')
            except bitmachine.Undecided:
                bits = direct_bits('append_length_determinant', [n])
            if bits != ref_ld(n):
                return 'X.696 8.6 prescribes %s, the encoder emits %s' % (ref_ld(n), bits)
            return None
        return thunk

    def ld_dec(n):
        def thunk():
            got, pos = D.run('read_length_determinant', [], ref_ld(n) + PAD, 0)
            if got != n or pos != len(ref_ld(n)):
                return 'the decoder reads %r (ending at bit %d) from %s' % (got, pos, ref_ld(n))
            return None
        return thunk
    LD = [0, 1, 2, 126, 127, 128, 129, 255, 256, 65535, 65536, 2 ** 24, 2 ** 32 - 1]
    ne = evaluate('C06.R2', 'length determinant encoder', fe, [('length %d' % n, ld_enc(n)) for n in LD])
    evaluate('C06.R2', 'length determinant decoder', fd, [('length %d' % n, ld_dec(n)) for n in LD])
    # the long form of the encoder builds its octets in a loop (not evaluated): its first octet is 0x80 | number of octets
    marks = [n for n in walk_no_nested(fe) if isinstance(n, ast.BinOp) and isinstance(n.op, ast.BitOr)
             and any(isinstance(x, ast.Constant) and x.value == 0x80 for x in (n.left, n.right))]
    ok = bool(marks) or ne == len(LD)       # (all cases, the long forms too, were evaluated: the constant need not be spelled 0x80)
    ctx.instance('C06.R2', 'Encoder.append_length_determinant long form starts with 0x80 | n', 'ok' if ok else 'VIOLATION', 'decided by evaluation' if ne == len(LD) else '', node=fe, file=OER)
    if not ok:
        ctx.violation('C06.R2', OER, fe, Model.qual(fe), 'length determinant encoder differs from X.696 8.6 (long form 0x80 | number of octets)', stmt='length determinant encoder')

    # ---- R3
    fe = model.func(OER, 'Enumerated.encode')
    fd = model.func(OER, 'Enumerated.decode')
    pe, pd = flow.param_names(fe), flow.param_names(fd)

    def ref_enum(v):
        if 0 <= v <= 127:
            return format(v, '08b')
        k = 1
        while not (-(1 << (8 * k - 1)) <= v < (1 << (8 * k - 1))):
            k += 1
        return format(0x80 | k, '08b') + format(v & ((1 << (8 * k)) - 1), '0%db' % (8 * k))

    def en_case(v):
        def thunk():
            bits, _ = E.run_fn(fe, pe[2], ['item', None], {'self.data_to_value[ARG0]': v, 'self.data_to_value': {'item': v}}, '')
            if bits != ref_enum(v):
                return 'X.696 11 prescribes %s, the encoder emits %s' % (ref_enum(v), bits)
            got, pos = D.run_fn(fd, pd[1], [None], {'self.value_to_data': {v: 'item'}, 'self.has_extension_marker': False}, bits + PAD, 0)
            if got != 'item' or pos != len(bits):
                return 'the decoder finds %r (ending at bit %d) in %s' % (got, pos, bits)
            return None
        return thunk
    evaluate('C06.R3', 'ENUMERATED short/long form', fe, [('value %d' % v, en_case(v)) for v in (0, 1, 2, 126, 127, 128, 129, 255, 256, 32767, 32768, 65536, -1, -2, -128, -129, -32768, -32769)])

    # ---- R4
    fe = model.func(OER, 'encode_tag')
    fd = model.func(OER, 'Decoder.read_tag')

    def ref_tag(number, flags):
        """X.696 8.7: numbers 0..62 in the low six bits of one octet; otherwise 0x3f and the number in base 128, most significant group
        first, bit 8 set on all but the last octet"""
        if number < 63:
            return bytes([flags | number])
        groups = []
        while number > 0:
            groups.append(number & 0x7f)
            number >>= 7
        groups.reverse()
        return bytes([flags | 0x3f] + [0x80 | g for g in groups[:-1]] + [groups[-1]])
    pn = flow.param_names(fe)
    n_ok = n_und = 0
    bad = None
    und = ''
    for flags in (0x00, 0x40, 0x80, 0xc0):
        for number in (0, 1, 30, 31, 62, 63, 64, 127, 128, 129, 255, 256, 16383, 16384, 2 ** 21 - 1, 2 ** 21, 2 ** 28 + 5):
            want = ref_tag(number, flags)
            try:
                got, _env = evalexpr.run_function(fe, {pn[0]: number, pn[1]: flags})
            except (evalexpr.Unsupported, evalexpr.Raised, KeyError, TypeError, IndexError) as e:
                n_und += 1
                und = und or 'encode_tag(%d, 0x%02x): %s' % (number, flags, e)
                continue
            if bytes(got) != want:
                bad = bad or (fe, 'encode_tag(%d, 0x%02x) gives %s, X.696 8.7 prescribes %s' % (number, flags, bytes(got).hex(), want.hex()))
                continue
            # the reader takes exactly these octets back off a longer octet string
            stream = list(want + b'\x05\x81\x00')
            pos = [0]

            def read_byte():
                if pos[0] >= len(stream):
                    raise evalexpr.Unsupported('out of octets')
                pos[0] += 1
                return stream[pos[0] - 1]
            try:
                rgot, _env = evalexpr.run_function(fd, {'__stubs__': {'self.read_byte': read_byte}})
            except (evalexpr.Unsupported, evalexpr.Raised, KeyError, TypeError, IndexError) as e:
                n_und += 1
                und = und or 'read_tag on %s: %s' % (want.hex(), e)
                continue
            if bytes(rgot) != want or pos[0] != len(want):
                bad = bad or (fd, 'read_tag on %s... returns %s after %d octets' % (want.hex(), bytes(rgot).hex(), pos[0]))
                continue
            n_ok += 1
    ctx.instance('C06.R4', 'encode_tag / Decoder.read_tag against X.696 8.7: %d (number, class) cases evaluated, %d undecided' % (n_ok, n_und),
                 'VIOLATION' if bad else ('ok' if n_ok else 'undecided'), und, nontrivial=n_ok > 0, node=fe, file=OER)
    if bad:
        ctx.violation('C06.R4', OER, bad[0], Model.qual(bad[0]), bad[1], stmt='encode_tag constants' if bad[0] is fe else 'read_tag constants')
    # universal tag table
    tagcls = model.cls(BER, 'Tag')
    tag_members = set(tagcls.attrs)
    mods = {'ber': model.mod(BER), 'der': model.mod(DER), 'oer': oer}
    names = {}
    for codec, m in mods.items():
        for c in m.classes.values():
            t = class_tag(c)
            if t is not None:
                names.setdefault(c.name, {})[codec] = (t, c)
    n4 = 0
    for cname, per_codec in sorted(names.items()):
        tags = {t for t, _c in per_codec.values()}
        expected = TAG_NAME_EXCEPTIONS.get(cname, snake(cname))
        for codec, (t, c) in sorted(per_codec.items()):
            n4 += 1
            ok = len(tags) == 1 and t in tag_members and (t == expected or cname in ('ObjectDescriptor',) and t == 'OBJECT_DESCRIPTOR')
            ctx.instance('C06.R4', '%s.%s TAG = Tag.%s' % (codec, cname, t), 'ok' if ok else 'VIOLATION', node=c.node, file=c.mod.rel)
            if not ok and (t != expected or len(tags) > 1):
                if t != expected:
                    ctx.violation('C06.R4', c.mod.rel, c.node, '%s::%s' % (c.mod.rel, cname),
                                  'class %s carries the universal tag Tag.%s, expected Tag.%s (siblings: %s): two different string types then share one tag '
                                  '(e.g. as alternatives of a CHOICE) and OER tag octets differ from X.696/X.680 8.6' % (cname, t, expected, {k: v[0] for k, v in per_codec.items()}),
                                  stmt='TAG = Tag.%s' % t)
    if n4 < 60:
        raise AnalysisError('C06.R4 compared only %d class tags' % n4)

    # ---- R5: the size attribute gets a value (the fixed size) only on paths that established
    #          not has_extension_marker  and  minimum == maximum
    for qual, attr in (('KnownMultiplierStringType.__init__', 'number_of_bytes'), ('BitString.__init__', 'number_of_bits'), ('OctetString.set_size_range', 'number_of_bytes')):
        f = model.func(OER, qual)
        cls_ = f._cls
        ps = sem.paths(f, resolver=sem.class_resolver(cls_))
        if ps is None:
            ctx.instance('C06.R5', '%s sets %s' % (Model.qual(f), attr), 'undecided', 'too many paths', nontrivial=False, node=f, file=OER)
            continue
        eq = sem.ccond(sem.parse_expr('minimum == maximum'))
        nsets = 0
        ok = True
        for p in ps:
            for ev in p.events:
                if ev[0] == 'store' and ev[1].startswith('self.%s = ' % attr) and len(ev) > 4:
                    val = ev[3]
                    if isinstance(val, ast.Constant) and val.value is None:
                        continue
                    nsets += 1
                    before = {(c[0], c[1]) for c in p.conds[:ev[4]]}
                    if not (('has_extension_marker', False) in before and (eq[0], eq[1]) in before):
                        ok = False
        if nsets == 0:
            ok = False
        ctx.instance('C06.R5', '%s sets %s only for a non-extensible single size (%d assignments on %d paths)' % (Model.qual(f), attr, nsets, len(ps)), 'ok' if ok else 'VIOLATION', node=f, file=OER)
        if not ok:
            ctx.violation('C06.R5', OER, f, Model.qual(f), 'the fixed-size form (no length prefix) must be chosen only when the SIZE constraint is not extensible and has a single value (X.696 15/23)',
                          stmt='fixed-size decision')

    # ---- R6
    c = model.cls(OER, 'MembersType')
    enc, dec = c.methods['encode_additions'], c.methods['decode_additions']
    bad = None
    py_unused = {}
    decided = 0
    for n in range(1, 65):
        verdict, detail, hdr = replay.bitmap_replay(enc, dec, n)
        if verdict == 'bad':
            bad = (n, detail)
            break
        if verdict == 'ok':
            decided += 1
            if hdr is not None:
                py_unused[n] = hdr
        else:
            if n == 1:
                ctx.note('C06.R6 undecided for %d additions: %s' % (n, detail))
    ctx.instance('C06.R6', 'extension bitmap: decoder width == encoder width, %d of 64 addition counts decided' % decided,
                 'ok' if bad is None and decided else ('undecided' if bad is None else 'VIOLATION'), nontrivial=decided > 0, node=enc, file=OER)
    if bad is not None:
        ctx.violation('C06.R6', OER, enc, 'asn1tools/codecs/oer.py::MembersType.encode_additions <-> decode_additions', 'with %d additions: %s' % bad, stmt='extension bitmap width')
    else:
        # X.696 16.4: the bitmap is a BIT STRING: length = ceil(n/8) + 1, unused = (-n) mod 8
        for n, (ln, un) in py_unused.items():
            if ln != (n + 7) // 8 + 1 or un != (-n) % 8:
                ctx.violation('C06.R6', OER, enc, 'asn1tools/codecs/oer.py::MembersType.encode_additions',
                              'with %d additions the bitmap header is length=%s unused=%s; X.696 16 (BIT STRING) prescribes length=%d unused=%d' % (n, ln, un, (n + 7) // 8 + 1, (-n) % 8),
                              stmt='extension bitmap header')
                break
        # Python vs C generator expression
        cf = model.func(COER, '_Generator.format_sequence_additions')
        ml = model.mod(COER).functions.get('get_sequence_additions_mask_length')
        cv = sem.View(cf)
        asg = [a for a in walk_no_nested(cf) if isinstance(a, ast.Assign) and ast.unparse(a.targets[0]) == 'addition_mask_unused_bits']
        if ml is None:
            raise AnalysisError('C generator: get_sequence_additions_mask_length vanished')
        diff = None
        decided_c = 0
        if len(asg) == 1:
            expr = cv.expr(asg[0].value)
            for n in range(1, 65):
                try:
                    r, _ = evalexpr.run_function(ml, {flow.param_names(ml)[0]: [None] * n, 'len(additions)': n, 'len(%s)' % flow.param_names(ml)[0]: n})
                    cu = evalexpr.ev(expr, {'addition_mask_length': r, 'len(type_.additions)': n, 'number_of_additions': n,
                                            'get_sequence_additions_mask_length(type_.additions)': r})
                except (evalexpr.Unsupported, KeyError, TypeError):
                    continue
                decided_c += 1
                if n in py_unused and (r + 1, cu) != py_unused[n]:
                    diff = (n, r + 1, cu, py_unused[n])
                    break
        ctx.instance('C06.R6', 'Python codec and C generator agree on (bitmap length, unused bits), %d of 64 addition counts decided' % decided_c,
                     'ok' if diff is None and decided_c else ('undecided' if diff is None else 'VIOLATION'), nontrivial=decided_c > 0, node=cf, file=COER)
        if diff is not None:
            ctx.violation('C06.R6', COER, asg[0], Model.qual(cf), 'for %d additions the C generator writes length=%d unused=%d, the Python codec %s' % diff, stmt='generator bitmap header')

    # ---- R7
    n7 = 0
    for cl in protocol.stream_classes(model, OER):
        r = protocol.analyse_pair(cl, model, cap=None if ctx.tier == 'thorough' else 256)
        n7 += 1
        ok = r['status'] != 'MISMATCH'
        ctx.instance('C06.R7', cl.qname, 'conformant' if ok else 'VIOLATION', node=cl.node, file=OER)
        if not ok:
            asg_, e, D = r['problems'][0]
            enc_ = cl.find_method('encode')
            ctx.violation('C06.R7', enc_[0].mod.rel, enc_[1], '%s::%s.encode <-> decode' % (enc_[0].mod.rel, enc_[0].name),
                          'the decoder of %s does not accept the octets its encoder emits: %s' % (cl.qname, protocol.show_path(e)), stmt='encode/decode token paths differ')
    if n7 < 30:
        raise AnalysisError('C06.R7 analysed only %d classes' % n7)

    # ---- R8
    mh = siblings.marker_handling(model)
    texts = {}
    for codec, (f, node, txt) in mh.items():
        texts.setdefault(txt, []).append(codec)
    major = max(texts.items(), key=lambda kv: len(kv[1]))[0]
    f, node, txt = mh['oer']
    ok = txt == major
    ctx.instance('C06.R8', 'oer compile_members extension-marker branch: %s' % txt[:70], 'agrees' if ok else 'VIOLATION', node=node, file=OER)
    if not ok:
        ctx.violation('C06.R8', OER, node, Model.qual(f),
                      'oer.Compiler.compile_members handles the extension marker as `%s`, its siblings as `%s`: components after a second "..." are treated as additions '
                      'and moved behind the extension bitmap (X.696 16: they are root components)' % (txt, major), stmt='marker branch differs')


    # ---- R9 copy discipline: compiled user types are cached and shared by every reference; a member-level constraint configured on
    #      the shared object changes the encoding of unrelated components
    from .. import copyrule
    n9 = 0
    for f_, node_, var_, what_, owned_, why_ in copyrule.sites(model, ['asn1tools/codecs/compiler.py', OER]):
        n9 += 1
        ctx.instance('C06.R9', '%s %s' % (Model.qual(f_), what_), 'owned' if owned_ else 'VIOLATION', why_, node=node_, file=f_._mod.rel)
        if not owned_:
            ctx.violation('C06.R9', f_._mod.rel, node_, Model.qual(f_),
                          '%s configures an object that may be the cached instance shared by every reference to a named type (%s): the OER encoding of an unrelated component '
                          'with the same type changes' % (what_, why_), stmt=norm_stmt(Model.enclosing_stmt(node_)))
    if n9 < 4:
        raise AnalysisError('C06.R9 found only %d configuration sites' % n9)

    # ---- R10: REAL.  X.696 12: a REAL whose inner subtype constraint fixes base 2 and keeps mantissa and exponent inside the binary32 (binary64) windows is sent as the 4 (8)
    #      octets of the IEEE 754 value; every other REAL uses the length-prefixed X.690 form.  The constructor's decision is evaluated (sa/evalexpr.py) on a grid of
    #      WITH COMPONENTS constraints -- including bounds that are 0 -- and compared with the table of the standard.
    ctx.rule('C06.R10', 'REAL: the fixed-size IEEE 754 forms are selected exactly for the mantissa / base / exponent windows of X.696 12 (constructor evaluated on a grid)')
    from .. import evalexpr as _ev
    rcls = model.mod(OER).classes.get('Real')
    rinit = rcls.methods.get('__init__') if rcls else None
    if rinit is None:
        raise AnalysisError('oer.Real.__init__ vanished')
    rp = [p_ for p_ in flow.param_names(rinit) if p_ != 'self']
    M32, M64 = 2 ** 24 - 1, 2 ** 53 - 1
    mants = [(0, 100), (-100, 0), (0, 0), (-M32, M32), (0, M32), (-M32 - 1, 0), (0, M32 + 1), (-M64, M64), (0, M64), (0, M64 + 1), (-M64 - 1, 0), (5, 5)]
    exps = [(-149, 104), (0, 104), (-149, 0), (0, 0), (-10, 10), (-150, 0), (0, 105), (-1074, 971), (0, 971), (-1074, 0), (-1075, 0), (0, 972), (3, 3)]
    n_ok = n_und = 0
    bad = None
    und = ''
    cases = [(None, None)]
    for mt in mants:
        for ex in exps:
            for base in (2, 10):
                cases.append(([('mantissa', mt), ('base', base), ('exponent', ex)], (mt, base, ex)))
    for wc, key in cases:
        if key is None:
            want = (None, None)
        else:
            mt, base, ex = key
            if base == 2 and -M32 <= mt[0] and mt[1] <= M32 and -149 <= ex[0] and ex[1] <= 104:
                want = (4, '>f')
            elif base == 2 and -M64 <= mt[0] and mt[1] <= M64 and -1074 <= ex[0] and ex[1] <= 971:
                want = (8, '>d')
            else:
                want = (None, None)
        try:
            _r, env_ = _ev.run_function(rinit, {rp[0]: 'a', rp[1]: wc}, skip_super=True)
        except (_ev.Unsupported, _ev.Raised) as e_:
            n_und += 1
            und = und or str(e_)[:80]
            continue
        got = (env_.get('self.length'), env_.get('self.fmt'))
        if isinstance(got[1], str) and got[1][-1:] in 'fd' and want[1] is not None:
            got = (got[0], '>' + got[1][-1])          # byte-order spelling ('!f') is the same format
        if got == want:
            n_ok += 1
        elif bad is None:
            bad = (key, got, want)
    ctx.instance('C06.R10', 'oer.Real.__init__ on %d WITH COMPONENTS constraints (%d undecided)' % (n_ok + (1 if bad else 0), n_und), 'VIOLATION' if bad else ('ok' if n_ok > n_und else 'undecided'), und,
                 nontrivial=n_ok > n_und, node=rinit, file=OER)
    if bad:
        key, got, want = bad
        ctx.violation('C06.R10', OER, rinit, Model.qual(rinit),
                      'REAL (WITH COMPONENTS {mantissa (%s..%s), base (%s), exponent (%s..%s)}) is given length %s / format %r; X.696 12 prescribes %s: the encoder emits other octets than a '
                      'conforming OER peer expects' % (key[0][0], key[0][1], key[1], key[2][0], key[2][1], got[0], got[1],
                                                     ('the %d-octet IEEE 754 form' % want[0]) if want[0] else 'the length-prefixed form'), stmt='REAL fixed-size decision')


    # ---- C06.R11: the presence bit of an OPTIONAL / DEFAULT component says whether the component is in the value -- `name in data` --, not whether its value is truthy or not None:
    #      NULL is None, FALSE and 0 and the empty string are values (X.696 16.2)
    ctx.rule('C06.R11', 'presence bits are decided by membership of the member name in the value, never by the member\'s value')
    from .. import siblings as _sib
    encs_ = _sib.members_encoders(model, ('oer',))
    if len(encs_) < 2:
        raise AnalysisError('C06.R11 found only %d members encoders' % len(encs_))
    for f_ in encs_:
        bad_ = _sib.presence_violations(f_)
        ctx.instance('C06.R11', Model.qual(f_), '`name in data`' if not bad_ else 'VIOLATION', node=f_, file=f_._mod.rel)
        for node_, why_ in bad_:
            ctx.violation('C06.R11', f_._mod.rel, node_, Model.qual(f_), why_ + ': a present NULL (value None) or a falsy value gets presence bit 0 and is left out of the encoding, which is '
                          'not the encoding X.696 16.2 prescribes for the value and does not decode back to it', stmt='presence by value')

    # ---- C06.R12: the compilers re-configure the copy of a referenced type when the reference carries its own constraint (`a Octets (SIZE (2))` calls set_size_range again).
    #      What a constructor derives from a parameter that it also hands to such a setter must be derived *in* the setter, or it describes the first constraint for ever.
    ctx.rule('C06.R12', 'no attribute is derived in __init__ alone from a parameter that a set_* method of the object re-configures later')
    from .. import siblings as _sib2
    n_ctor, stale = _sib2.stale_derived_attributes(model, (OER,))
    ctx.instance('C06.R12', '%d constructors hand parameters to a set_* method; attributes derived from those parameters outside the setter: %d' % (n_ctor, len(stale)),
                 'ok' if not stale else 'VIOLATION', nontrivial=n_ctor > 0)
    for c_, ini_, a_, attr_, used_, setter_ in stale:
        ctx.violation('C06.R12', c_.mod.rel, a_, Model.qual(ini_),
                      '`%s` is computed from %s in the constructor only, while %s() - which the compiler calls again when a reference to the type carries its own constraint - sets the '
                      'same parameter(s) anew: after that call self.%s still describes the first constraint and the encoding follows it (alignment, width, form), not the effective one'
                      % (norm_stmt(a_), ', '.join(used_), setter_, attr_), stmt='derived attribute not refreshed by %s' % setter_)
    if n_ctor < 1:
        raise AnalysisError('C06.R12 found only %d constructors that call a setter' % n_ctor)

    # ---- R13: the extension addition presence bitmap has one bit per addition *at its position*.  The encoders stop collecting at the first addition the value lacks (a value of an
    #      older version): what was collected so far must then be moved to the most significant end -- a loop that shifts a bit in per addition and may be left early is
    #      followed by a shift by the number of additions not visited.
    ctx.rule('C06.R13', 'presence bits collected by a loop that may stop early are moved to their positions (shift by the number of additions not visited)')
    n13 = 0
    for rel13 in (OER, 'asn1tools/codecs/per.py'):
        mt13 = model.mod(rel13).classes.get('MembersType')
        if mt13 is None:
            continue
        for f13, tr in [(g_, n_) for g_ in mt13.methods.values() for n_ in walk_no_nested(g_) if isinstance(n_, ast.Try)]:      # wherever the collecting loop lives
            swallows = any(all(isinstance(s_, ast.Pass) for s_ in h_.body) for h_ in tr.handlers)
            shifted = [a_.target.id for lp_ in tr.body if isinstance(lp_, ast.For) for a_ in ast.walk(lp_) if isinstance(a_, ast.AugAssign) and isinstance(a_.op, ast.LShift)
                       and isinstance(a_.target, ast.Name) and isinstance(a_.value, ast.Constant) and a_.value.value == 1]
            if not (swallows and shifted):
                continue
            n13 += 1
            var13 = shifted[0]
            comp = [a_ for a_ in walk_no_nested(f13) if isinstance(a_, ast.AugAssign) and isinstance(a_.op, ast.LShift) and isinstance(a_.target, ast.Name) and a_.target.id == var13
                    and a_.lineno > tr.end_lineno and isinstance(a_.value, ast.BinOp) and isinstance(a_.value.op, ast.Sub)]
            if not comp:
                # the collecting step may hand bits and count back (return bits, count, encoders) and leave the move to its caller
                returns_both = any(isinstance(r_, ast.Return) and isinstance(r_.value, ast.Tuple) and var13 in {x_.id for x_ in r_.value.elts if isinstance(x_, ast.Name)}
                                   and len(r_.value.elts) >= 3 for r_ in walk_no_nested(f13))
                if returns_both:
                    for g_ in mt13.methods.values():
                        if g_ is f13 or not any(isinstance(c_, ast.Call) and isinstance(c_.func, ast.Attribute) and c_.func.attr == f13.name for c_ in walk_no_nested(g_)):
                            continue
                        comp += [a_ for a_ in walk_no_nested(g_) if isinstance(a_, ast.AugAssign) and isinstance(a_.op, ast.LShift) and isinstance(a_.value, ast.BinOp)
                                 and isinstance(a_.value.op, ast.Sub)]
            ok13 = bool(comp)
            ctx.instance('C06.R13', '%s: `%s` is shifted once per visited addition inside try/except-pass' % (Model.qual(f13), var13), 'moved to position afterwards' if ok13 else 'VIOLATION',
                         node=tr, file=rel13)
            if not ok13:
                ctx.violation('C06.R13', rel13, tr, Model.qual(f13),
                              'the loop over the additions is left at the first addition the value lacks (except EncodeError: pass), with `%s` holding one bit per addition visited so far; it is '
                              'then written as a field of len(self.additions) bits without moving those bits to the most significant end: {b, d} of SEQUENCE {.., ..., d, [[ e, f ]]} marks e '
                              'present instead of d, and the decoder reads d\'s octets as e' % var13, stmt='presence bits not moved to position')
    if n13 < 1:
        ctx.instance('C06.R13', 'no encode_additions loop inside a swallowing try found', 'undecided', nontrivial=False)

    # ---- R14: the fixed-size form of a character string (no length determinant) writes and reads `SIZE` *octets*: it is right only where one character is one octet.  The
    #      classes the compiler hands a size range to are therefore the single-octet ones; a variable-width encoding (UTF-8) makes encoder and decoder disagree as soon as a
    #      character needs two octets, and X.696 27 gives UTF8String a length determinant in every case.
    ctx.rule('C06.R14', 'the fixed-size string form (SIZE taken as a number of octets) is selected only for classes whose ENCODING has one octet per character')
    SINGLE = ('ascii', 'latin-1', 'latin1', 'iso-8859-1', 'us-ascii')
    ocomp = model.mod(OER).classes.get('Compiler')
    kms = model.mod(OER).classes.get('KnownMultiplierStringType')
    n14 = 0
    if ocomp is None or kms is None:
        raise AnalysisError('oer.Compiler / KnownMultiplierStringType vanished')
    sized_init = any(isinstance(a_, ast.Assign) and any(isinstance(t_, ast.Attribute) and t_.attr == 'number_of_bytes' for t_ in a_.targets) and not (isinstance(a_.value, ast.Constant) and a_.value.value is None)
                     for a_ in walk_no_nested(kms.methods['__init__'])) if '__init__' in kms.methods else False
    for g_ in ocomp.methods.values():
        for c_ in walk_no_nested(g_):
            if not (isinstance(c_, ast.Call) and isinstance(c_.func, ast.Name)):
                continue
            k_ = model.mod(OER).classes.get(c_.func.id)
            if k_ is None or kms not in k_.mro():
                continue
            takes_size = len(c_.args) > 1 or any(isinstance(a_, ast.Starred) for a_ in c_.args) or any(kw.arg in ('minimum', 'maximum') for kw in c_.keywords)
            if not takes_size:
                continue
            n14 += 1
            enc_ = next((kk.attrs['ENCODING'] for kk in k_.mro() if 'ENCODING' in kk.attrs), None)
            encv = enc_.value if isinstance(enc_, ast.Constant) else None
            ok14 = (encv in SINGLE) or not sized_init
            ctx.instance('C06.R14', '%s is compiled with its SIZE range; ENCODING %r' % (k_.qname, encv), 'one octet per character' if ok14 else 'VIOLATION', node=c_, file=OER)
            if not ok14:
                ctx.violation('C06.R14', OER, c_, '%s::Compiler.compile_type[%s]' % (OER, k_.name),
                              '%s (ENCODING %r) is given the SIZE range, so `SIZE (n)` selects the form without a length determinant with n taken as the number of octets: a value with a '
                              'character of two octets is written with n + 1 octets and read back with n (`UTF8String (SIZE (2))`, "\u00e5b" -> c3 a5 62 -> "\u00e5"); X.696 27 gives this type a '
                              'length determinant always' % (k_.name, encv), stmt='fixed-size form for %s' % k_.name)
    if n14 < 1:
        ctx.instance('C06.R14', 'no string class is constructed with a size range by name (table-driven dispatch)', 'undecided', nontrivial=False)

MUTANTS = [
    dict(name='OER presence bits not moved after an early stop', file=OER,
         old="        presence_bits <<= (number_of_additions - number_of_presence_bits)\n", new="", expect='C06.R13'),
    dict(name='OER extensible INTEGER takes its signedness from the extension root', file=OER,
         old="""        if has_extension_marker:
            self.signed = True
            self.minimum = None""", new="""        if minimum != 'MIN':
            self.signed = (minimum < 0)

        if has_extension_marker:
            self.minimum = None""", expect='C06.R1'),
    dict(name='unsigned 2-octet boundary <= 65536', file=OER, quick=True, old="            elif maximum < 65536:", new="            elif maximum <= 65536:", expect='C06.R1'),
    dict(name='formats >H and >I swapped', file=OER, quick=True,
         edits=[dict(file=OER, old="                self.fmt = '>H'", new="                self.fmt = '>X'"),
                dict(file=OER, old="                self.fmt = '>I'", new="                self.fmt = '>H'"),
                dict(file=OER, old="                self.fmt = '>X'", new="                self.fmt = '>I'")], expect='C06.R1'),
    dict(name='tag one-octet form only below 31', file=OER, quick=True, old="    if number < 63:", new="    if number < 31:", expect='C06.R4'),
    dict(name='BitString fixed-size under an extension marker', file=OER,
         old="""        if minimum is not None or maximum is not None:
            if not has_extension_marker:
                if minimum == maximum:
                    self.number_of_bits = minimum""",
         new="""        if minimum is not None or maximum is not None:
            if minimum == maximum:
                self.number_of_bits = minimum""", expect='C06.R5'),
    dict(name='GraphicString gets the GeneralString tag', file=OER,
         old="class GraphicString(KnownMultiplierStringType):\n\n    TAG = Tag.GRAPHIC_STRING", new="class GraphicString(KnownMultiplierStringType):\n\n    TAG = Tag.GENERAL_STRING", expect='C06.R4'),
    dict(name='enumerated short form up to 128', file=OER, old="        if 0 <= value <= 127:", new="        if 0 <= value <= 128:", expect='C06.R3'),
    dict(name='extensible integer still fixed-size', file=OER,
         old="        if minimum == 'MIN' or maximum == 'MAX' or has_extension_marker:", new="        if minimum == 'MIN' or maximum == 'MAX':", expect='C06.R1'),
    dict(name='length determinant short form up to 128', file=OER, old="        if value < 128:\n            self.append_non_negative_binary_integer(value, 8)", new="        if value <= 128:\n            self.append_non_negative_binary_integer(value, 8)", expect='C06.R2'),
]
REFACTORS = []
