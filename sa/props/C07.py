"""C07 -- extension additions keep old and new versions interoperable (DESIGN.md section 4 C07)."""
import ast

from ..model import AnalysisError, Model, walk_no_nested, norm_stmt, names_in
from .. import flow, protocol

EXPLANATION = (
    'Decided for every decoding codec (ber, per, oer, jer, xer; der/uper inherit): (R1) every decode entry point of ENUMERATED and CHOICE '
    '(decode, decode_content, decode_of, decode_additions) has a path, conditional on the failed lookup of the received item and on the '
    'extensibility of the type, that yields the absent value (None / (None, None)) instead of raising -- two entry points of one class that '
    'disagree cannot both be right; an unknown CHOICE alternative is consumed by its length; SEQUENCE/SET decoders skip unknown trailing data '
    '(BER: end_offset; PER/OER: skip_bits(8 * length read for that addition); JER/XER: only known members are looked up); (R2) the skip uses '
    'the length read in the same iteration; (R3) the extension bit/bitmap is emitted iff the type has additions (shared with C01.R1); (R4) BER '
    'decodes additions leniently (ignore_missing=True) and only additions; (R5) in PER/OER every open-type length of an addition is read under '
    'the test of its own presence bit, inside the loop over all presence bits (the number of open types consumed equals the number of bits set).  '
    'Not decided: projection equality for all version pairs and values; known additions that are longer in the newer version.')
RELS = {c: 'asn1tools/codecs/%s.py' % c for c in ('ber', 'per', 'uper', 'oer', 'jer', 'xer')}
ENTRY = ('decode', 'decode_content', 'decode_of', 'decode_additions', 'decode_root')


def returns_none_paths(f):
    """Return statements yielding the absent value: None, (None, None), ((None, None), offset), (None, end_offset)."""
    out = []
    for n in walk_no_nested(f):
        if isinstance(n, ast.Return) and n.value is not None:
            v = n.value
            flat = []

            def fl(e):
                if isinstance(e, ast.Tuple):
                    for x in e.elts:
                        fl(x)
                else:
                    flat.append(e)
            fl(v)
            if flat and isinstance(flat[0], ast.Constant) and flat[0].value is None:
                out.append(n)
    return out


def none_assign_paths(f):
    """`name = None` assignments of a variable that is returned (PER Choice.decode_additions idiom)."""
    rets = set()
    for n in walk_no_nested(f):
        if isinstance(n, ast.Return) and n.value is not None:
            rets |= names_in(n.value)
    out = []
    for n in walk_no_nested(f):
        if isinstance(n, ast.Assign) and isinstance(n.value, ast.Constant) and n.value.value is None \
                and isinstance(n.targets[0], ast.Name) and n.targets[0].id in rets:
            out.append(n)
    return out


def is_lookup_function(f):
    """Does f look the received item up in a self-rooted map (in / [] / try-KeyError)?"""
    for n in walk_no_nested(f):
        if isinstance(n, ast.Compare) and isinstance(n.ops[0], (ast.In, ast.NotIn)) and ast.unparse(n.comparators[0]).startswith('self.'):
            return True
        if isinstance(n, ast.Subscript) and ast.unparse(n.value).startswith('self.') and isinstance(n.ctx, ast.Load) and not isinstance(n.slice, (ast.Slice, ast.Constant)):
            return True
    return False


def ext_guard(node, f):
    """The guards of node mention extensibility (has_extension_marker / additions) or follow a failed lookup."""
    for t, pol in flow.guards_of(node, f):
        s = ast.unparse(t)
        if 'has_extension_marker' in s or 'additions' in s or 'addition is None' in s:
            return True
    return False


def check(ctx):
    model = ctx.model
    ctx.rule('C07.R1', 'unknown-extension path present on every decode entry point of ENUMERATED / CHOICE / SEQUENCE in every decoding codec')
    ctx.rule('C07.R2', 'unknown additions are skipped by the length read for them in the same iteration')
    ctx.rule('C07.R3', 'extension bit / bitmap emitted iff the type has additions (E1 conformance of the members and choice classes)')
    ctx.rule('C07.R4', 'BER decodes additions leniently, root members strictly')
    ctx.rule('C07.R5', 'PER/OER: each addition open-type length is read under its own presence-bit test, looping over all presence bits')

    # ---- R1 ENUMERATED / CHOICE
    n1 = 0
    for codec in ('ber', 'per', 'oer', 'jer', 'xer'):
        m = model.mod(RELS[codec])
        for kind in ('Enumerated', 'Choice'):
            c = m.classes.get(kind)
            if c is None:
                raise AnalysisError('%s.%s vanished' % (codec, kind))
            entries = [(n, f) for n, f in c.methods.items() if n in ENTRY and is_lookup_function(f)]
            if not entries:
                raise AnalysisError('%s.%s: no decode entry point with a lookup' % (codec, kind))
            verdicts = {}
            for name, f in entries:
                rets = [r for r in returns_none_paths(f) if ext_guard(r, f)]
                asg = [a for a in none_assign_paths(f) if ext_guard(a, f)]
                # PER Enumerated.decode: `else: return None` inside the additions branch
                if not rets and kind == 'Enumerated':
                    rets = [r for r in returns_none_paths(f) if any('index_to_data' in ast.unparse(t) or 'additions' in ast.unparse(t) for t, pol in flow.guards_of(r, f))]
                ok = bool(rets or asg)
                # decode_root of PER Choice/Enumerated handles root indexes only: unknown root index is an error by X.691
                if name == 'decode_root' and codec == 'per':
                    ctx.instance('C07.R1', '%s.%s.%s (root index: never an addition)' % (codec, kind, name), 'n/a', nontrivial=False, node=f, file=m.rel)
                    continue
                verdicts[name] = ok
                n1 += 1
                ctx.instance('C07.R1', '%s.%s.%s' % (codec, kind, name), 'has unknown-item path' if ok else 'VIOLATION', node=f, file=m.rel)
                if not ok:
                    others = [k for k, v in verdicts.items() if v] + [n_ for n_, g in entries if n_ != name and (returns_none_paths(g) or none_assign_paths(g))]
                    ctx.violation('C07.R1', m.rel, f, '%s::%s.%s' % (m.rel, kind, name),
                                  '%s.%s.%s looks the received item up but has no path that reports an unknown item of an extensible type as absent (%s): '
                                  'a value produced by a newer version of the specification is rejected instead of being projected%s'
                                  % (codec, kind, name, 'None' if kind == 'Enumerated' else '(None, None)',
                                     '; sibling entry point(s) %s of the same class do have it' % sorted(set(others)) if others else ''),
                                  stmt='no unknown-item path')
    if n1 < 12:
        raise AnalysisError('C07.R1 examined only %d entry points' % n1)
    # CHOICE: the unknown alternative is consumed by its length
    ber = model.mod(RELS['ber'])
    f = ber.classes['Choice'].methods['decode']
    ok = any(isinstance(c, ast.Call) and ast.unparse(c.func) == 'skip_tag_length_contents' and ext_guard(c, f) for c in walk_no_nested(f))
    ctx.instance('C07.R1', 'ber.Choice.decode skips the unknown alternative (skip_tag_length_contents)', 'ok' if ok else 'VIOLATION', node=f, file=ber.rel)
    if not ok:
        ctx.violation('C07.R1', ber.rel, f, '%s::Choice.decode' % ber.rel, 'an unknown CHOICE alternative is not consumed: the components that follow are decoded from the wrong offset', stmt='skip unknown alternative')
    for codec, fn in (('per', 'decode_additions'), ('oer', 'decode')):
        m = model.mod(RELS[codec])
        f = m.classes['Choice'].methods[fn]
        skips = [c for c in walk_no_nested(f) if isinstance(c, ast.Call) and ast.unparse(c.func) == 'decoder.skip_bits']
        ok = False
        for s in skips:
            a = s.args[0]
            d, ed = flow.deps(f, sources=set())
            # the skipped amount derives from a read_length_determinant in this function
            names = names_in(a)
            for nm in names:
                for asg in walk_no_nested(f):
                    if isinstance(asg, ast.Assign) and nm in [x for t in asg.targets for x in flow.target_names(t)] and 'read_length_determinant' in ast.unparse(asg.value):
                        ok = True
        ctx.instance('C07.R1', '%s.Choice.%s skips the unknown alternative by its open-type length' % (codec, fn), 'ok' if ok else 'VIOLATION', node=f, file=m.rel)
        if not ok:
            ctx.violation('C07.R1', m.rel, f, '%s::Choice.%s' % (m.rel, fn), 'an unknown CHOICE alternative is not skipped by the length determinant read for it', stmt='skip unknown alternative')
    # SEQUENCE/SET
    f = ber.classes['MembersType'].methods['decode_content']
    src = ast.unparse(f)
    ok = 'return (values, end_offset)' in src or 'return values, end_offset' in src
    ctx.instance('C07.R1', 'ber.MembersType.decode_content returns end_offset (unknown trailing TLVs skipped)', 'ok' if ok else 'VIOLATION', node=f, file=ber.rel)
    if not ok:
        ctx.violation('C07.R1', ber.rel, f, '%s::MembersType.decode_content' % ber.rel, 'extra components of a newer version are no longer skipped by jumping to the end of the contents', stmt='return end_offset')
    for codec in ('jer', 'xer'):
        m = model.mod(RELS[codec])
        f = m.classes['MembersType'].methods['decode']
        loops_ = [n for n in walk_no_nested(f) if isinstance(n, ast.For)]
        ok = any(ast.unparse(l.iter) == 'self.members' for l in loops_) and not any(isinstance(n, ast.Raise) for n in walk_no_nested(f) if not isinstance(getattr(n, '_parent', None), ast.ExceptHandler))
        ctx.instance('C07.R1', '%s.MembersType.decode iterates over known members only and never rejects extra names' % codec, 'ok' if ok else 'VIOLATION', node=f, file=m.rel)
        if not ok:
            ctx.violation('C07.R1', m.rel, f, '%s::MembersType.decode' % m.rel, 'member names unknown to this version must be ignored, not rejected', stmt='unknown members')

    # ---- R2 + R5
    for codec in ('per', 'oer'):
        m = model.mod(RELS[codec])
        f = m.classes['MembersType'].methods['decode_additions']
        loops_ = [n for n in walk_no_nested(f) if isinstance(n, ast.For)]
        lens = [c for c in walk_no_nested(f) if isinstance(c, ast.Call) and ast.unparse(c.func) == 'decoder.read_length_determinant'
                and any(isinstance(a, ast.For) for a in flow.ancestors(c))]
        # the presence-bit variable: read with the width of the bitmap
        pres = None
        for a in walk_no_nested(f):
            if isinstance(a, ast.Assign) and isinstance(a.value, ast.Call) and ast.unparse(a.value.func) == 'decoder.read_non_negative_binary_integer' and isinstance(a.targets[0], ast.Name):
                pres = a.targets[0].id
                width = ast.unparse(a.value.args[0])
        if pres is None or not loops_:
            raise AnalysisError('%s.MembersType.decode_additions: presence bitmap read not found' % codec)
        # R5: loop over range(<bitmap width>) and each LENDET read guarded by presence & (1 << ...)
        loop = loops_[0]
        okloop = ast.unparse(loop.iter) == 'range(%s)' % width and len(loops_) == 1
        ctx.instance('C07.R5', '%s.MembersType.decode_additions loops over all %s presence bits' % (codec, width), 'ok' if okloop else 'VIOLATION', node=loop, file=m.rel)
        if not okloop:
            ctx.violation('C07.R5', m.rel, loop, '%s::MembersType.decode_additions' % m.rel,
                          'the additions must be consumed in one loop over all presence bits (range(%s)); found %s' % (width, [ast.unparse(l.iter) for l in loops_]), stmt='presence loop')
        all_lens = [c for c in walk_no_nested(f) if isinstance(c, ast.Call) and ast.unparse(c.func) == 'decoder.read_length_determinant']
        # (the first one in OER reads the bitmap length itself, outside the loop)
        for c in all_lens:
            inloop = any(a is loop for a in flow.ancestors(c))
            if not inloop and c.lineno < loop.lineno and codec == 'oer':
                continue
            guarded = any(isinstance(t, ast.BinOp) and isinstance(t.op, ast.BitAnd) and pres in names_in(t) and pol for t, pol in flow.guards_of(c, f))
            ok = inloop and guarded
            ctx.instance('C07.R5', '%s.MembersType.decode_additions: open-type length read under `%s & (1 << ..)`' % (codec, pres), 'ok' if ok else 'VIOLATION', node=c, file=m.rel)
            if not ok:
                ctx.violation('C07.R5', m.rel, c, '%s::MembersType.decode_additions' % m.rel,
                              'an open-type length determinant is read without testing the presence bit of that addition: the number of open types consumed no longer equals '
                              'the number of presence bits set, and everything after the SEQUENCE is decoded from the wrong position', stmt='length read not under presence test')
        # R2: skip argument derives from the length read in the same iteration
        skips = [c for c in walk_no_nested(f) if isinstance(c, ast.Call) and ast.unparse(c.func) == 'decoder.skip_bits' and any(a is loop for a in flow.ancestors(c))]
        unknown_skip = [s for s in skips if any((not pol) and 'len(self.additions)' in ast.unparse(t) for t, pol in flow.guards_of(s, f))]
        ok = False
        for s in unknown_skip:
            for nm in names_in(s.args[0]):
                for asg in walk_no_nested(loop):
                    if isinstance(asg, ast.Assign) and nm in [x for t in asg.targets for x in flow.target_names(t)] and 'read_length_determinant' in ast.unparse(asg.value):
                        ok = ast.unparse(s.args[0]).replace(' ', '') in ('8*%s' % nm, '%s*8' % nm)
        ctx.instance('C07.R2', '%s.MembersType.decode_additions skips an unknown addition by 8 * its own length' % codec, 'ok' if ok else 'VIOLATION', node=f, file=m.rel)
        if not ok:
            ctx.violation('C07.R2', m.rel, f, '%s::MembersType.decode_additions' % m.rel,
                          'in the branch for additions unknown to this version (i >= len(self.additions)) the decoder must skip exactly 8 * the length determinant read for that addition', stmt='skip by own length')

    # ---- R3
    n3 = 0
    for codec in ('per', 'uper', 'oer'):
        m = model.mod(RELS[codec])
        for cn in ('MembersType', 'Choice', 'Enumerated', 'Sequence', 'Set'):
            c = m.classes.get(cn)
            if c is None or c.find_method('encode') is None or c.find_method('decode') is None:
                continue
            if len(c.find_method('encode')[1].args.args) != 3:
                continue
            r = protocol.analyse_pair(c, model, cap=256)
            n3 += 1
            ok = r['status'] != 'MISMATCH'
            ctx.instance('C07.R3', '%s.%s extension bit/bitmap conformance' % (codec, cn), 'ok' if ok else 'VIOLATION', node=c.node, file=m.rel)
            if not ok:
                asg, e, D = r['problems'][0]
                ctx.violation('C07.R3', m.rel, c.find_method('encode')[1], '%s::%s.encode <-> decode' % (m.rel, cn),
                              'encoder and decoder disagree on the extension bit / bitmap under %s: encoder emits %s' % (asg, protocol.show_path(e)), stmt='extension framing differs')
    if n3 < 8:
        raise AnalysisError('C07.R3 analysed only %d classes' % n3)

    # ---- R4
    f = ber.classes['MembersType'].methods['decode_content']
    calls = [c for c in walk_no_nested(f) if isinstance(c, ast.Call) and ast.unparse(c.func) == 'self.decode_members']
    root = [c for c in calls if 'self.root_members' in ast.unparse(c.args[0])]
    adds = [c for c in calls if 'self.additions' in ast.unparse(c.args[0])]
    ok = len(root) == 1 and len(adds) == 1 and any(k.arg == 'ignore_missing' and isinstance(k.value, ast.Constant) and k.value.value is True for k in adds[0].keywords) \
        and not any(k.arg == 'ignore_missing' for k in root[0].keywords)
    ctx.instance('C07.R4', 'ber.MembersType.decode_content: additions ignore_missing=True, root strict', 'ok' if ok else 'VIOLATION', node=f, file=ber.rel)
    if not ok:
        ctx.violation('C07.R4', ber.rel, f, '%s::MembersType.decode_content' % ber.rel,
                      'additions must be decoded with ignore_missing=True (an older encoding lacks them) and root members without it', stmt='lenient additions')
    dm = ber.classes['MembersType'].methods['decode_members']
    ok = any(isinstance(n, ast.If) and ast.unparse(n.test) == 'ignore_missing' and isinstance(n.body[0], ast.Break) for n in walk_no_nested(dm))
    ctx.instance('C07.R4', 'ber.MembersType.decode_members: a missing addition ends the scan without error', 'ok' if ok else 'VIOLATION', node=dm, file=ber.rel)
    if not ok:
        ctx.violation('C07.R4', ber.rel, dm, '%s::MembersType.decode_members' % ber.rel, 'with ignore_missing a missing mandatory addition must not raise', stmt='ignore_missing handling')


PER = RELS['per']
OER = RELS['oer']
XER = RELS['xer']
JER = RELS['jer']
BER = RELS['ber']
MUTANTS = [
    dict(name='jer.Choice.decode loses its extensible branch', file=JER, quick=True,
         old="""        if name in self.name_to_member:
            member = self.name_to_member[name]
        elif self.has_extension_marker:
            return (None, None)
        else:""", new="""        if name in self.name_to_member:
            member = self.name_to_member[name]
        else:""", expect='C07.R1'),
    dict(name='oer skip uses 8 * length + 8', file=OER, quick=True,
         old="                    decoder.skip_bits(8 * member_length)", new="                    decoder.skip_bits(8 * member_length + 8)", expect='C07.R2'),
    dict(name='ber additions decoded strictly', file=BER, quick=True,
         old="""            offset, out_of_data = self.decode_members(flatten(self.additions), data, values, offset, end_offset,
                                                      ignore_missing=True)""",
         new="""            offset, out_of_data = self.decode_members(flatten(self.additions), data, values, offset, end_offset)""", expect='C07.R4'),
    dict(name='xer.Enumerated.decode_of strict again', file=XER,
         old="""        value = element.tag

        if value in self.value_to_data:
            return self.value_to_data[value]
        elif self.has_extension_marker:
            return None
        else:
            raise DecodeError(
                "Expected enumeration value {}, but got '{}'.".format(
                    self.format_values(), value))


class Sequence(MembersType):""",
         new="""        value = element.tag

        if value in self.value_to_data:
            return self.value_to_data[value]
        else:
            raise DecodeError(
                "Expected enumeration value {}, but got '{}'.".format(
                    self.format_values(), value))


class Sequence(MembersType):""", expect='C07.R1'),
    dict(name='per unknown additions skipped in a second loop by bit_length', file=PER,
         old="""        for i in range(length):
            if presence_bits & (1 << (length - i - 1)):
                # Open type decoding.
                open_type_length = decoder.read_length_determinant()
                offset = decoder.number_of_bits

                if i < len(self.additions):""",
         new="""        for _ in range((presence_bits >> len(self.additions)).bit_length()):
            decoder.skip_bits(8 * decoder.read_length_determinant())

        for i in range(length):
            if presence_bits & (1 << (length - i - 1)):
                # Open type decoding.
                open_type_length = decoder.read_length_determinant()
                offset = decoder.number_of_bits

                if i < len(self.additions):""", expect='C07.R5'),
    dict(name='ber unknown choice not skipped', file=BER,
         old="""        elif self.has_extension_marker:
            offset = skip_tag_length_contents(data, offset)

            return (None, None), offset""", new="""        elif self.has_extension_marker:
            return (None, None), offset""", expect='C07.R1'),
]
REFACTORS = []
